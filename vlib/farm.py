"""Engine P compile farm: gecs is built once from /repo's working tree, generated client programs
are then compiled by invoking rustc directly (16 at a time) and, for positive programs, run."""
import json
import os
import re
import shutil
import subprocess
from concurrent.futures import ThreadPoolExecutor

from vcommon import ENV, VERIF, Inconclusive

PROGGEN = os.path.join(VERIF, "proggen")
HOST = os.path.join(PROGGEN, "host")


def build_pg(features=()):
    """Builds the generator / engine M binary (it #[path]-includes /repo/macros/src). The macro
    crate's own `events` feature (extra generated sections) is the feature of the same name here."""
    tdir = os.path.join(PROGGEN, "target" + ("-" + "-".join(sorted(features)) if features else ""))
    cmd = ["cargo", "build", "--release", "--target-dir", tdir]
    if features:
        cmd += ["--features", ",".join(features)]
    p = subprocess.run(cmd, cwd=PROGGEN, env=ENV, stdout=subprocess.PIPE, stderr=subprocess.STDOUT, text=True)
    if p.returncode != 0:
        tail = "\n".join(l for l in p.stdout.splitlines() if not l.startswith("warning"))[-3000:]
        raise Inconclusive("building proggen failed (do the macro sources still have the expected module layout?):\n%s" % tail)
    return os.path.join(tdir, "release", "pg")


def build_gecs(features=()):
    """Builds gecs (as users get it: no verification cfg) and returns (rlib path, deps dir)."""
    tdir = os.path.join(HOST, "target" + ("-" + "-".join(sorted(features)) if features else ""))
    cmd = ["cargo", "build", "--message-format=json", "--target-dir", tdir]
    if features:
        cmd += ["--features", ",".join("gecs/" + f for f in features)]
    p = subprocess.run(cmd, cwd=HOST, env=ENV, stdout=subprocess.PIPE, stderr=subprocess.PIPE, text=True)
    if p.returncode != 0:
        raise Inconclusive("building gecs for the compile farm failed:\n%s" % p.stderr[-3000:])
    rlib = None
    for line in p.stdout.splitlines():
        try:
            m = json.loads(line)
        except ValueError:
            continue
        if m.get("reason") == "compiler-artifact" and m.get("target", {}).get("name") == "gecs":
            for f in m.get("filenames", []):
                if f.endswith(".rlib"):
                    rlib = f
    if rlib is None:
        raise Inconclusive("gecs rlib not found in cargo's output")
    return rlib, os.path.dirname(rlib)


def read_index(d):
    jobs = []
    with open(os.path.join(d, "index.tsv")) as f:
        for line in f:
            line = line.rstrip("\n")
            if not line:
                continue
            jid, kind, file, flags, expect, note = (line.split("\t") + [""] * 6)[:6]
            jobs.append({"id": jid, "kind": kind, "file": file, "flags": [] if flags == "-" else flags.split(","), "expect": expect, "note": note})
    return jobs


def _diagnostics(stderr):
    codes, msgs = [], []
    for line in stderr.splitlines():
        try:
            m = json.loads(line)
        except ValueError:
            continue
        if m.get("level") == "error":
            c = (m.get("code") or {}).get("code")
            if c:
                codes.append(c)
            msgs.append(m.get("message", ""))
    return codes, msgs


def run_job(job, d, rlib, deps):
    src = os.path.join(d, job["file"])
    base = os.path.join(d, "out_" + job["id"].replace("/", "_"))
    cmd = ["rustc", "--edition", "2021", src, "--extern", "gecs=" + rlib, "-L", "dependency=" + deps, "--error-format=json", "-C", "debuginfo=0", "--cap-lints", "allow"]
    for fl in job["flags"]:
        cmd += ["--cfg", fl]
    res = {"id": job["id"], "kind": job["kind"], "file": job["file"], "note": job["note"]}
    if job["kind"] == "run":
        cmd += ["-C", "opt-level=0", "-o", base + ".bin"]
    else:
        cmd += ["--emit=metadata", "-o", base + ".rmeta"]
    try:
        p = subprocess.run(cmd, cwd=d, env=ENV, stdout=subprocess.PIPE, stderr=subprocess.PIPE, text=True, timeout=900)
    except subprocess.TimeoutExpired:
        res["status"] = "timeout"
        return res
    codes, msgs = _diagnostics(p.stderr)
    res["codes"] = codes[:6]
    res["messages"] = [m[:300] for m in msgs[:4]]
    compiled = p.returncode == 0
    if job["kind"] == "reject":
        if compiled:
            res["status"] = "violation"
            res["why"] = "unsound / invalid program was accepted by the compiler"
        else:
            pats = job["expect"].split("|")
            hit = any(pt in codes or any(pt in m for m in msgs) for pt in pats)
            res["status"] = "ok" if hit else "ok-other-family"
    elif job["kind"] == "accept":
        if compiled:
            res["status"] = "ok"
        else:
            res["status"] = "twin-rejected"
            res["why"] = "; ".join(msgs[:3])[:600]
    else:  # run
        if not compiled:
            res["status"] = "violation"
            res["why"] = "positive program (#![forbid(unsafe_code)]) does not compile: " + "; ".join(msgs[:3])[:800]
        else:
            try:
                r = subprocess.run([base + ".bin"], cwd=d, stdout=subprocess.PIPE, stderr=subprocess.PIPE, text=True, timeout=300)
            except subprocess.TimeoutExpired:
                res["status"] = "timeout"
                return res
            if r.returncode != 0:
                res["status"] = "violation"
                res["why"] = "program exited with status %s: %s" % (r.returncode, r.stderr[-600:])
            else:
                got = sorted(l.rstrip() for l in r.stdout.splitlines())
                with open(os.path.join(d, job["expect"])) as f:
                    want = sorted(l.rstrip() for l in f.read().splitlines())
                if got == want:
                    res["status"] = "ok"
                    res["lines"] = len(want)
                else:
                    gs, ws = set(got), set(want)
                    missing = [l for l in want if l not in gs][:5]
                    extra = [l for l in got if l not in ws][:5]
                    res["status"] = "violation"
                    res["why"] = "output differs from the reference semantics (%d lines printed, %d expected); expected but missing: %s; printed but unexpected: %s" % (len(got), len(want), missing, extra)
            try:
                os.remove(base + ".bin")
            except OSError:
                pass
    for ext in (".rmeta",):
        try:
            os.remove(base + ext)
        except OSError:
            pass
    return res


def run_jobs(jobs, d, rlib, deps, workers=16):
    with ThreadPoolExecutor(max_workers=workers) as ex:
        return list(ex.map(lambda j: run_job(j, d, rlib, deps), jobs))
