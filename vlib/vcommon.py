"""Common driver code: argument handling, builds, evidence, known findings, verdict lines."""
import hashlib
import json
import os
import shutil
import subprocess
import sys
import time

VERIF = os.path.dirname(os.path.dirname(os.path.abspath(__file__)))
HARNESS = os.path.join(VERIF, "harness")
REPO = "/repo"
NCPU = 16

ENV = dict(os.environ)
ENV["CARGO_NET_OFFLINE"] = "true"
ENV.pop("RUSTFLAGS", None)  # the harness' .cargo/config.toml supplies --cfg gecs_verif
# a sanitizer report must not look like "property violated" (exit 1): give it its own status
ENV["ASAN_OPTIONS"] = "exitcode=99:detect_leaks=0:abort_on_error=0:allocator_may_return_null=1"


class Inconclusive(Exception):
    pass


class Ctx:
    def __init__(self, prop, tier, seed, replay):
        self.prop = prop
        self.tier = tier
        self.seed = seed
        self.replay = replay
        self.t0 = time.time()
        self.violations = []  # (sig, replay path, message)
        self.known_hits = []
        self.notes = []

    def sub_seed(self, *parts):
        h = hashlib.sha256(("%d|%s|" % (self.seed, self.prop) + "|".join(str(p) for p in parts)).encode()).digest()
        return int.from_bytes(h[:6], "little") + 1


def properties():
    out = {}
    with open(os.path.join(VERIF, "properties.jsonl")) as f:
        for line in f:
            line = line.strip()
            if line:
                p = json.loads(line)
                out[p["id"]] = p
    return out


def known_findings():
    with open(os.path.join(VERIF, "known_findings.json")) as f:
        return json.load(f)


def match_known(prop, sig):
    for k in known_findings().get("known", []):
        if k["property"] == prop and k["signature"] == sig:
            return k
    return None


# ----------------------------------------------------------------------------------------------
# builds
# ----------------------------------------------------------------------------------------------

def target_dir(features, toolchain=""):
    name = "target"
    if features:
        name += "-" + "-".join(sorted(features))
    if toolchain:
        name += "-" + toolchain
    return os.path.join(HARNESS, name)


def build_harness(profile, features=(), quiet=True):
    """Builds vh-run from /repo's current working tree with hooks on. Returns the binary path."""
    tdir = target_dir(features)
    cmd = ["cargo", "build", "--profile", profile, "--bin", "vh-run", "--target-dir", tdir]
    if features:
        cmd += ["--features", ",".join(features)]
    p = subprocess.run(cmd, cwd=HARNESS, env=ENV, stdout=subprocess.PIPE, stderr=subprocess.STDOUT, text=True)
    if p.returncode != 0:
        tail = "\n".join(l for l in p.stdout.splitlines() if not l.startswith("warning"))[-4000:]
        raise Inconclusive("building the harness (%s, features %s) failed:\n%s" % (profile, list(features), tail))
    return os.path.join(tdir, profile, "vh-run")


def build_harness_asan(features=()):
    """AddressSanitizer build (nightly, no debug assertions): silent memory errors become crashes."""
    tdir = target_dir(features, "asan")
    env = dict(ENV)
    env["RUSTFLAGS"] = "--cfg gecs_verif -Zsanitizer=address"
    cmd = ["cargo", "+nightly", "build", "--profile", "rel", "--bin", "vh-run", "--target", "x86_64-unknown-linux-gnu", "--target-dir", tdir]
    if features:
        cmd += ["--features", ",".join(features)]
    p = subprocess.run(cmd, cwd=HARNESS, env=env, stdout=subprocess.PIPE, stderr=subprocess.STDOUT, text=True)
    if p.returncode != 0:
        tail = "\n".join(l for l in p.stdout.splitlines() if not l.startswith("warning"))[-4000:]
        raise Inconclusive("building the ASan harness failed:\n%s" % tail)
    return os.path.join(tdir, "x86_64-unknown-linux-gnu", "rel", "vh-run")


def build_fuzz():
    """cargo-fuzz build of the libFuzzer target (ASan + coverage instrumentation, nightly)."""
    env = dict(ENV)
    env["RUSTFLAGS"] = "--cfg gecs_verif"
    fdir = os.path.join(HARNESS, "fuzz")
    p = subprocess.run(["cargo", "+nightly", "fuzz", "build", "hist"], cwd=fdir, env=env, stdout=subprocess.PIPE, stderr=subprocess.STDOUT, text=True)
    if p.returncode != 0:
        raise Inconclusive("building the fuzz target failed:\n%s" % p.stdout[-3000:])
    return os.path.join(fdir, "target", "x86_64-unknown-linux-gnu", "release", "hist")


# ----------------------------------------------------------------------------------------------
# running things
# ----------------------------------------------------------------------------------------------

def run_many(jobs, timeout):
    """jobs: list of (key, argv). Runs up to NCPU at a time. Returns {key: (rc, stdout)};
    rc None = timed out. Output goes to an unnamed temporary file per job (a pipe that nobody
    drains would block a chatty child such as libFuzzer once 64 KB are buffered)."""
    import tempfile
    results = {}
    pending = list(jobs)
    running = []
    deadline = time.time() + timeout

    def collect(f):
        f.seek(0)
        data = f.read()
        f.close()
        # keep the head and the tail of very long logs
        if len(data) > 4_000_000:
            data = data[:1_000_000] + b"\n...[truncated]...\n" + data[-3_000_000:]
        return data.decode("utf-8", "replace")

    while pending or running:
        while pending and len(running) < NCPU:
            key, argv = pending.pop(0)
            f = tempfile.TemporaryFile()
            pr = subprocess.Popen(argv, cwd=VERIF, env=ENV, stdout=f, stderr=subprocess.STDOUT)
            running.append((key, pr, f))
        still = []
        for key, pr, f in running:
            rc = pr.poll()
            if rc is None:
                if time.time() > deadline:
                    pr.kill()
                    pr.wait()
                    results[key] = (None, collect(f))
                else:
                    still.append((key, pr, f))
            else:
                results[key] = (rc, collect(f))
        running = still
        if running:
            time.sleep(0.02)
    return results


def parse_line(line):
    """Parses `WORD k=v k=v ... msg=rest of line`."""
    parts = line.split(" ", 1)
    d = {"_kind": parts[0]}
    rest = parts[1] if len(parts) > 1 else ""
    if " msg=" in rest:
        rest, msg = rest.split(" msg=", 1)
        d["msg"] = msg
    elif rest.startswith("msg="):
        d["msg"] = rest[4:]
        rest = ""
    for tok in rest.split():
        if "=" in tok:
            k, v = tok.split("=", 1)
            d[k] = v
    return d


# ----------------------------------------------------------------------------------------------
# verdicts and evidence
# ----------------------------------------------------------------------------------------------

def report_failure(ctx, sig, replay_path, msg):
    """Routes a failure through the known-findings file. Returns True if it is a violation."""
    k = match_known(ctx.prop, sig)
    if k is not None:
        line = "KNOWN-FINDING: property=%s %s" % (ctx.prop, k["what"])
        if line not in ctx.known_hits:
            ctx.known_hits.append(line)
            print(line)
        return False
    ctx.violations.append((sig, replay_path, msg))
    return True


def found_dir(prop):
    d = os.path.join(VERIF, "replays", prop, "found")
    os.makedirs(d, exist_ok=True)
    return d


def write_evidence(ctx, level, coverage, assumptions):
    os.makedirs(os.path.join(VERIF, "evidence"), exist_ok=True)
    ev = {
        "property_id": ctx.prop,
        "tier": ctx.tier,
        "seed": ctx.seed,
        "level": level,
        "coverage": coverage,
        "assumptions": assumptions,
        "wall_s": round(time.time() - ctx.t0, 2),
        "violations": len(ctx.violations),
    }
    if ctx.known_hits:
        ev["coverage"]["known_findings_hit"] = ctx.known_hits
    if ctx.notes:
        ev["coverage"]["notes"] = ctx.notes
    path = os.path.join(VERIF, "evidence", ctx.prop + ".json")
    tmp = path + ".tmp"
    with open(tmp, "w") as f:
        json.dump(ev, f, indent=1, sort_keys=True)
        f.write("\n")
    os.replace(tmp, path)


def finish(ctx):
    if ctx.violations:
        seen = set()
        for sig, path, msg in ctx.violations:
            if sig in seen:
                continue  # one replay per signature is enough; the others stay in found/
            seen.add(sig)
            print("VIOLATION property=%s replay=%s" % (ctx.prop, path))
            print("  signature: %s" % sig)
            print("  %s" % msg[:2000])
        return 1
    print("OK property=%s tier=%s seed=%d wall=%.1fs" % (ctx.prop, ctx.tier, ctx.seed, time.time() - ctx.t0))
    return 0


def main(argv):
    import argparse

    ap = argparse.ArgumentParser(prog="check")
    ap.add_argument("prop")
    ap.add_argument("--tier", default=os.environ.get("VERIF_TIER", "quick"), choices=["quick", "thorough"])
    ap.add_argument("--seed", type=int, default=None)
    ap.add_argument("--replay", default=None)
    a = ap.parse_args(argv)
    seed = a.seed
    if seed is None:
        try:
            seed = int(os.environ.get("VERIF_SEED", "1"))
        except ValueError:
            seed = 1
    if seed == 0:
        seed = 0x5EED  # 0 conventionally means "random": remapped to a fixed value
    seed = abs(seed) % (1 << 48)
    props = properties()
    if a.prop not in props:
        print("unknown property %s" % a.prop)
        return 3
    ctx = Ctx(a.prop, a.tier, seed, a.replay)
    shutil.rmtree(os.path.join(VERIF, "replays", a.prop, "found"), ignore_errors=True)
    import checks

    handler = checks.HANDLERS.get(a.prop)
    if handler is None:
        print("property %s is not claimed (see MANIFEST.json not_applicable)" % a.prop)
        return 3
    try:
        handler(ctx)
    except Inconclusive as e:
        print("INCONCLUSIVE property=%s: %s" % (a.prop, e))
        return 2
    return finish(ctx)
