"""Per-property check handlers."""
import glob
import json
import os
import shutil
import subprocess

from vcommon import (VERIF, Inconclusive, build_fuzz, build_harness, build_harness_asan, found_dir, parse_line, properties, report_failure,
                     run_many, write_evidence)

# ----------------------------------------------------------------------------------------------
# Engine H: generated histories against the reference model
# ----------------------------------------------------------------------------------------------

# VERIF_THOROUGH_SCALE (default 1) scales the case counts of the THOROUGH tier only: a smoke run of
# every thorough code path (fuzz campaign, Miri sample, larger enumerations) in minutes instead of hours.
SCALE = float(os.environ.get("VERIF_THOROUGH_SCALE", "1"))


def sc(n):
    return max(1, int(n * SCALE))


HIST_BUDGET = {
    # tier: (shards per profile, cases per shard, max history length, watchdog seconds)
    "quick": (8, 1200, 120, 900),
    "thorough": (16, sc(8000), 400, 7200),
}

HIST_ASSUMPTIONS = [
    "reference model and oracles in /verif/harness/src (written from the documentation, free of gecs code)",
    "proptest 1.11 generators seeded from VERIF_SEED; rustc/cargo",
    "read-only dump hook (cfg gecs_verif) for the representation-invariant oracle only",
    "iteration order and the capacity growth formula are not asserted (unspecified)",
]


def hist_worlds(prop, features):
    worlds = ["WMix", "WMix", "WMix", "WOne", "WMix", "WSolo", "WMix", "WOne"]
    if "wide" in features:
        worlds = ["WMix", "WWide", "WMix", "WOne", "WMix", "WSolo", "WWide", "WOne"]
    return worlds


def run_replays(ctx, bins, extra_files=()):
    """Replays the committed regression inputs of the property on every binary."""
    files = sorted(glob.glob(os.path.join(VERIF, "replays", ctx.prop, "*.ops"))) + list(extra_files)
    jobs = []
    for f in files:
        for name, b in bins.items():
            jobs.append(((f, name), [b, "replay", "--prop", ctx.prop, f]))
    res = run_many(jobs, 600)
    n = 0
    for (f, name), (rc, out) in sorted(res.items()):
        n += 1
        if rc == 0:
            continue
        if rc == 1:
            for line in out.splitlines():
                if line.startswith("FAIL "):
                    d = parse_line(line)
                    report_failure(ctx, d.get("sig", "?"), f, "[%s] %s" % (name, d.get("msg", "")))
        elif rc is None:
            raise Inconclusive("replay of %s timed out" % f)
        else:
            # a crash while replaying a committed input
            report_failure(ctx, "crash", f, "[%s] process died with status %s while replaying: %s" % (name, rc, out[-500:]))
    return len(files), n


# configurations that are secondary for most properties (a third of the shards) ...
LIGHT_BINS = ("chk-events",)
# ... but primary for these
PRIMARY_BINS = {"C13": ("chk-events",), "C10": ("chk-events",), "C17": ("chk-events",)}
# properties whose histories also run on an archetype with more than 65 536 entities
PREFILL_PROPS = ("C01", "C02", "C08", "C09", "C12", "C13")


def events_bin(features=()):
    """The `events` build as a secondary configuration of a history check (gecs' storage code has
    `#[cfg(feature = "events")]` statements inside create / destroy / clone)."""
    if "events" in features:
        return {}
    return {"chk-events": build_harness("chk", tuple(features) + ("events",))}


def hist_search(ctx, bins, features=(), traces=False, budget=None, prop_for_run=None):
    """Runs the sharded generated search on every binary. Returns aggregated statistics."""
    shards, cases, maxlen, watchdog = budget or HIST_BUDGET[ctx.tier]
    prop_run = prop_for_run or ctx.prop
    work = os.path.join(VERIF, ".work", "%s-%d" % (ctx.prop, os.getpid()))
    os.makedirs(work, exist_ok=True)
    worlds = hist_worlds(ctx.prop, features)
    jobs = []
    for name, b in sorted(bins.items()):
        # secondary configurations (LIGHT_BINS) get a third of the shards
        light = name in LIGHT_BINS and name not in PRIMARY_BINS.get(ctx.prop, ())
        # the sanitizer build is several times slower: in the thorough tier it gets a third of the
        # shards wherever it is a backstop rather than the deciding oracle (that is C03)
        light = light or (name == "asan" and ctx.tier == "thorough" and ctx.prop != "C03")
        nshards = max(2, shards // 3) if light else shards
        for s in range(nshards):
            world = worlds[s % len(worlds)]
            seed = ctx.sub_seed(name, s)
            base = os.path.join(work, "%s-%d" % (name, s))
            argv = [b, "hist", "--prop", prop_run, "--world", world, "--cases", str(cases), "--len", str(maxlen), "--seed", str(seed),
                    "--out", base + ".json", "--fail-out", base + ".ops", "--last-case", base + ".last"]
            if traces:
                argv.append("--traces")
            jobs.append(((name, s, world, seed), argv))
        # large-archetype shards: every case starts with 96 * 1024 creations in one archetype, so
        # that slot and dense indices beyond 16 bits take part in the history (fewer, shorter cases:
        # every step costs O(len))
        if ctx.prop in PREFILL_PROPS and name in ("chk", "rel") and "wide" not in features:
            pcases, plen = (10, 30) if ctx.tier == "quick" else (max(10, sc(80)), 40)
            # ... and mid-size shards (5 * 1024 creations: capacity beyond 4096, cheap enough for many
            # more cases); in both, every second case drains the archetype and creates in it again
            mcases = 60 if ctx.tier == "quick" else max(60, sc(600))
            big = [("WMix", 0, 96, pcases), ("WSolo", 0, 96, pcases)] if ctx.prop in ("C01", "C02", "C09") else [("WMix", 0, 96, pcases)]
            for j, (world, arch, k, pc) in enumerate(big + [("WMix", 0, 5, mcases), ("WSolo", 0, 5, mcases), ("WOne", 0, 5, mcases)]):
                s = 1000 + j
                seed = ctx.sub_seed(name, s)
                base = os.path.join(work, "%s-%d" % (name, s))
                jobs.append(((name, s, world, seed), [b, "hist", "--prop", prop_run, "--world", world, "--cases", str(pc), "--len", str(plen), "--seed", str(seed), "--prefill", "%d,%d" % (arch, k),
                                                      "--out", base + ".json", "--fail-out", base + ".ops", "--last-case", base + ".last"]))
    res = run_many(jobs, watchdog)
    agg = {"evaluations": 0, "ops_run": 0, "hashes": set(), "labels": {}, "counters": {}, "collateral": {}, "samples": [], "shards": 0,
           "traces": {}, "per_bin": {}}
    try:
        for key in sorted(res.keys()):
            name, s, world, seed = key
            rc, out = res[key]
            base = os.path.join(work, "%s-%d" % (name, s))
            if rc is None:
                raise Inconclusive("shard %s/%d exceeded the watchdog of %ds" % (name, s, watchdog))
            if rc not in (0, 1):
                # crash (signal / abort): the case being executed is in the .last file
                dst = os.path.join(found_dir(ctx.prop), "crash-%s-%d-%d.ops" % (name, s, seed))
                if os.path.exists(base + ".last"):
                    with open(base + ".last") as f:
                        text = f.read()
                    with open(dst, "w") as f:
                        f.write("# property %s\n# process died with status %s while running this case on the %s build\n%s" % (ctx.prop, rc, name, text))
                    report_failure(ctx, "crash", dst, "[%s] shard %d died with status %s; output tail: %s" % (name, s, rc, out[-400:]))
                    continue
                raise Inconclusive("shard %s/%d died with status %s before running a case: %s" % (name, s, rc, out[-400:]))
            if os.path.exists(base + ".json"):
                with open(base + ".json") as f:
                    st = json.load(f)
                agg["shards"] += 1
                agg["evaluations"] += st["evaluations"]
                agg["ops_run"] += st["ops_run"]
                agg["hashes"].update(st["nontrivial_hashes"])
                pb = agg["per_bin"].setdefault(name, {"evaluations": 0, "nontrivial": 0})
                pb["evaluations"] += st["evaluations"]
                pb["nontrivial"] += len(st["nontrivial_hashes"])
                for k, v in st["labels"].items():
                    agg["labels"][k] = agg["labels"].get(k, 0) + v
                for k, v in st["counters"].items():
                    agg["counters"][k] = agg["counters"].get(k, 0) + v
                for k, v in st["collateral"].items():
                    agg["collateral"][k] = agg["collateral"].get(k, 0) + v
                if len(agg["samples"]) < 3:
                    agg["samples"].extend(st["samples"][: 3 - len(agg["samples"])])
                if traces:
                    for h, t in st["traces"]:
                        agg["traces"].setdefault((s, h), {})[name] = t
            if rc == 1:
                for line in out.splitlines():
                    if line.startswith("FAIL "):
                        d = parse_line(line)
                        dst = os.path.join(found_dir(ctx.prop), "%s-%s-%d.ops" % (d.get("sig", "fail"), name, seed))
                        shutil.copyfile(base + ".ops", dst)
                        report_failure(ctx, d.get("sig", "?"), dst, "[%s, %s] %s" % (name, world, d.get("msg", "")))
    finally:
        shutil.rmtree(work, ignore_errors=True)
    return agg


def fuzz_campaign(ctx, bins, cov, workers=16, runs=None):
    """Coverage-guided libFuzzer/ASan campaign over the same interpreter (thorough tiers).
    Artifacts are decoded to .ops files; one whose failure is tagged with the property (or that
    only crashes under the sanitizer) is a violation."""
    runs = runs or (4000 if ctx.tier == "quick" else sc(15000))
    fbin = build_fuzz()
    work = os.path.join(VERIF, ".work", "%s-fuzz-%d" % (ctx.prop, os.getpid()))
    shutil.rmtree(work, ignore_errors=True)
    os.makedirs(work)
    try:
        jobs = []
        for i in range(workers):
            cdir = os.path.join(work, "corpus-%d" % i)
            adir = os.path.join(work, "art-%d" % i) + os.sep
            os.makedirs(adir)
            subprocess.run([bins["rel"], "seed-corpus", "--out", cdir, "--seed", str(ctx.sub_seed("corpus", i))], stdout=subprocess.DEVNULL, check=True)
            jobs.append((i, [fbin, cdir, "-runs=%d" % runs, "-seed=%d" % (ctx.sub_seed("fuzz", i) % (1 << 31)), "-len_control=0", "-max_len=2500", "-rss_limit_mb=3000", "-timeout=120",
                             "-artifact_prefix=" + adir, "-print_final_stats=1"]))
        res = run_many(jobs, 6 * 3600)
        execs = 0
        artifacts = []
        for i, (rc, out) in sorted(res.items()):
            if rc is None:
                raise Inconclusive("fuzz worker exceeded the watchdog")
            for line in out.splitlines():
                if line.startswith("stat::number_of_executed_units:"):
                    execs += int(line.split()[1])
            adir = os.path.join(work, "art-%d" % i)
            for f in sorted(os.listdir(adir)):
                artifacts.append((os.path.join(adir, f), out[-1500:]))
        n_collateral = 0
        for art, tail in artifacts:
            base = os.path.basename(art)
            if base.startswith(("oom-", "timeout-", "slow-unit-")):
                continue  # resource exhaustion is never a violation
            ops = os.path.join(found_dir(ctx.prop), "fuzz-%s.ops" % base[:40])
            p = subprocess.run([bins["rel"], "decode", art, "--out", ops], stdout=subprocess.PIPE, stderr=subprocess.STDOUT, text=True)
            tagged = None
            for line in p.stdout.splitlines():
                if line.startswith("FAIL "):
                    tagged = parse_line(line)
            if tagged is not None:
                if ctx.prop in tagged.get("tags", "").split("+"):
                    report_failure(ctx, tagged.get("sig", "?"), ops, "[libFuzzer] %s" % tagged.get("msg", ""))
                else:
                    n_collateral += 1
            elif os.path.exists(ops):
                # passes without the sanitizer: the artifact is a sanitizer report / crash
                report_failure(ctx, "crash", ops, "[libFuzzer + ASan] input crashes under the sanitizer only; tail of the fuzzer log: %s" % tail[-600:])
        cov["libfuzzer"] = {"workers": workers, "runs_per_worker": runs, "executions": execs, "artifacts": len(artifacts), "collateral_artifacts": n_collateral,
                            "sanitizer": "AddressSanitizer", "note": "only approximately reproducible from -seed; the saved input is the reproducible unit"}
        cov["evaluations"] += execs
    finally:
        shutil.rmtree(work, ignore_errors=True)


def miri_sample(ctx, cov, prop_run=None, procs=8, cases=None, sub="hist"):
    """A sample of short histories under Miri (thorough tiers): uninitialised reads and aliasing
    violations inside gecs' unsafe code that neither ASan nor the model can see."""
    from vcommon import ENV, HARNESS
    prop_run = prop_run or ctx.prop
    cases = cases or (6 if ctx.tier == "quick" else max(4, sc(30)))
    env = dict(ENV)
    env["MIRIFLAGS"] = "-Zmiri-disable-isolation -Zmiri-ignore-leaks"
    env["RUSTFLAGS"] = "--cfg gecs_verif"
    tdir = os.path.join(HARNESS, "target-miri")
    b = subprocess.run(["cargo", "+nightly", "miri", "run", "--target-dir", tdir, "--bin", "vh-run", "--", "seed-corpus", "--out", os.path.join(VERIF, ".work", "miri-warm-%d" % os.getpid())],
                       cwd=HARNESS, env=env, stdout=subprocess.PIPE, stderr=subprocess.STDOUT, text=True)
    shutil.rmtree(os.path.join(VERIF, ".work", "miri-warm-%d" % os.getpid()), ignore_errors=True)
    if b.returncode != 0:
        raise Inconclusive("Miri build / warm-up failed: %s" % b.stdout[-800:])
    work = os.path.join(VERIF, ".work", "%s-miri-%d" % (ctx.prop, os.getpid()))
    os.makedirs(work, exist_ok=True)
    procs_l = []
    try:
        for i in range(procs):
            world = "WOne" if i % 4 == 3 else "WMix"
            base = os.path.join(work, "m%d" % i)
            argv = ["cargo", "+nightly", "miri", "run", "--target-dir", tdir, "--bin", "vh-run", "--", sub, "--prop", prop_run, "--world", world, "--cases", str(cases),
                    "--len", "24" if sub == "hist" else "10", "--seed", str(ctx.sub_seed("miri", i)), "--intensity", "light", "--out", base + ".json", "--fail-out", base + ".ops", "--last-case", base + ".last"]
            if sub == "c10":
                argv += ["--max-k", "3"]  # every injected run is a full re-run of the history under Miri
            procs_l.append((i, world, base, subprocess.Popen(argv, cwd=HARNESS, env=env, stdout=subprocess.PIPE, stderr=subprocess.STDOUT, text=True)))
        total = 0
        for i, world, base, pr in procs_l:
            try:
                out = pr.communicate(timeout=4 * 3600)[0]
            except subprocess.TimeoutExpired:
                pr.kill()
                raise Inconclusive("Miri sample exceeded its watchdog")
            for line in out.splitlines():
                if line.startswith("STATS"):
                    d = parse_line(line)
                    total += int(d.get("evaluations", d.get("runs", d.get("cases", "0"))))
            if pr.returncode == 1 and any(l.startswith("FAIL ") for l in out.splitlines()):
                for line in out.splitlines():
                    if line.startswith("FAIL "):
                        d = parse_line(line)
                        dst = os.path.join(found_dir(ctx.prop), "miri-%s-%d.ops" % (d.get("sig", "fail"), i))
                        shutil.copyfile(base + ".ops", dst)
                        report_failure(ctx, d.get("sig", "?"), dst, "[miri, %s] %s" % (world, d.get("msg", "")))
            elif pr.returncode != 0:
                ub = [l for l in out.splitlines() if "Undefined Behavior" in l or l.startswith("error")]
                dst = os.path.join(found_dir(ctx.prop), "miri-ub-%d.ops" % i)
                with open(dst, "w") as f:
                    f.write("# property %s\n# Miri reported: %s\n%s" % (ctx.prop, (ub[:1] or ["process died with status %s" % pr.returncode])[0], open(base + ".last").read() if os.path.exists(base + ".last") else ""))
                report_failure(ctx, "miri-ub", dst, "[miri, %s] %s" % (world, " | ".join(ub[:3])[:800] or out[-600:]))
        cov["miri_sample"] = {"processes": procs, "cases": total, "flags": "-Zmiri-disable-isolation -Zmiri-ignore-leaks (Stacked Borrows on)", "max_ops": 24}
        cov["evaluations"] += total
    finally:
        shutil.rmtree(work, ignore_errors=True)


def hist_coverage(ctx, agg, nreplays, rule, bins):
    ev = agg["evaluations"]
    labels = {k: {"cases": v, "fraction": round(v / ev, 4) if ev else 0} for k, v in sorted(agg["labels"].items())}
    return {
        "evaluations": ev,
        "distinct_nontrivial": len(agg["hashes"]),
        "rule": rule,
        "samples": agg["samples"] if agg["samples"] else ["(no non-trivial case short enough to quote)"],
        "exhaustive": False,
        "ops_executed": agg["ops_run"],
        "label_histogram": labels,
        "operation_counters": agg["counters"],
        "collateral": agg["collateral"],
        "builds": sorted(bins.keys()),
        "per_build": agg["per_bin"],
        "shards": agg["shards"],
        "regression_replays": nreplays,
    }


def rule_of(prop):
    # the rule text lives next to the generator profile in the harness; keep a copy for evidence
    return HIST_RULES[prop]


HIST_RULES = {
    "C01": "histories over WMix (6 archetypes, 1..16 columns) and WOne from a churn-biased op mix (create / create_within_capacity / refill / destroy by all four key kinds at both levels aimed at any handle ever issued / ecs_iter_destroy! / clone / drop), every issued handle probed after every step through contains, to_direct, resolve, view, borrow, ecs_find!, ecs_find_borrow! with typed and dynamic keys; non-trivial = the history probes at least one stale handle whose slot is occupied by a later entity; distinct = hash of the decoded op list",
    "C02": "histories with writes through every mutable path (ecs_find!, ecs_find_borrow!, view fields, component_mut, borrow component_mut, get_slice_mut, borrow_slice_mut, get_all_slices_mut, iter_mut, ecs_iter!, ecs_iter_borrow!), every live entity read back through every read path after every step; non-trivial = a non-last entity was swap-removed from an archetype with >= 2 columns, or the storage grew with live entities, or a write through one path was read back through the others; distinct = hash of the decoded op list",
    "C04": "histories over drop-instrumented archetypes (registry of live value ids, zero-sized tracked type counted) incl. failing create_within_capacity, typed and dynamic destroy, ecs_iter_destroy!, growth, clone, world drop at arbitrary points; non-trivial = a tracked value was removed from a non-last position, or a clone was taken with live tracked values, or a world was dropped with live tracked values after churn; distinct = hash of the decoded op list",
    "C06": "histories with iteration through ecs_iter!/ecs_iter_borrow! (typed, dynamic, wildcard entity parameters; single archetype and cross-archetype queries incl. OneOf), Archetype::iter/iter_mut, entities(), get_slice(_mut), borrow_slice(_mut), get_all_slices_mut, with Break at generated positions; non-trivial = an iteration over >= 3 entities after a non-last removal, or a Break strictly inside a multi-archetype query; distinct = hash of the decoded op list",
    "C07": "histories with ecs_iter_destroy! loops (four parameter variants, single- and cross-archetype queries) driven by generated decision tables (2 bits per visit); non-trivial = a loop over >= 3 entities whose decisions contain a destroy followed by a keep, or a BreakDestroy; distinct = hash of the decoded op list",
    "C08": "histories with heavy slot recycling, optionally starting from generations preset (hook) next to u32::MAX with a consistent archetype version; every handle returned by any create path is checked against all handles the world lineage issued before; non-trivial = some slot was reused >= 3 times or the history crossed the overflow boundary; distinct = hash of the decoded op list",
    "C09": "histories minting direct handles through to_direct (all key kinds, both levels) and EntityDirect parameters of all five query macros, using them later through every lookup path and destroy; non-trivial = a direct handle used after >= 1 removal and a later creation in its archetype, or a handle minted inside a query closure and used after the query; distinct = hash of the decoded op list",
    "C12": "histories from all header capacities (new/default/with_capacity) with create_within_capacity and refills to capacity; non-trivial = a refill to capacity after >= 2 removals at distinct positions or after growth that followed churn; distinct = hash of the decoded op list",
    "C13": "histories with clones at arbitrary points followed by ops addressed to either world, refills on both, clones of clones, drops in either order; non-trivial = a clone taken with a free slot in the middle of the slot array in which >= 2 entities were created afterwards, or original and clone diverged by >= 3 ops each; distinct = hash of the decoded op list",
}


def check_history(ctx, features=(), level="exploration", extra_step=None, extra_bins=None):
    bins = {"chk": build_harness("chk", features), "rel": build_harness("rel", features)}
    bins.update(events_bin(features))
    if extra_bins:
        bins.update(extra_bins())
    extra = [ctx.replay] if ctx.replay else []
    nfiles, _ = run_replays(ctx, bins, extra)
    if ctx.replay:
        agg = {"evaluations": nfiles, "ops_run": 0, "hashes": set(), "labels": {}, "counters": {}, "collateral": {}, "samples": [open(ctx.replay).read()],
               "shards": 0, "traces": {}, "per_bin": {}}
        # replay mode: evidence describes the replay only
        cov = hist_coverage(ctx, agg, nfiles, "replay of saved inputs only (no generation)", bins)
        cov["distinct_nontrivial"] = max(2, nfiles)
        cov["explanation"] = "replay mode"
        write_evidence(ctx, level, cov, HIST_ASSUMPTIONS)
        return
    agg = hist_search(ctx, bins, features)
    cov = hist_coverage(ctx, agg, nfiles, rule_of(ctx.prop), bins)
    if extra_step is not None:
        extra_step(ctx, bins, cov)
    write_evidence(ctx, level, cov, HIST_ASSUMPTIONS)


def c07_enumeration(ctx, bins, cov):
    """All 4^n decision vectors for n <= N on fresh, churned and cross-archetype populations."""
    plan = [("rel", 5), ("chk", 4)] if ctx.tier == "quick" else [("rel", 6), ("chk", 6)]
    work = os.path.join(VERIF, ".work", "C07-e-%d" % os.getpid())
    os.makedirs(work, exist_ok=True)
    try:
        jobs = [((name, n), [bins[name], "c07enum", "--world", "WMix", "--max-n", str(n), "--out", os.path.join(work, name + ".json"), "--fail-out", os.path.join(work, name + ".ops")]) for name, n in plan]
        total = nt = 0
        samples = []
        for (name, n), (rc, out) in sorted(run_many(jobs, 7200).items()):
            if rc is None:
                raise Inconclusive("C07 enumeration timed out")
            if rc == 1:
                for line in out.splitlines():
                    if line.startswith("FAIL "):
                        d = parse_line(line)
                        dst = os.path.join(found_dir("C07"), "enum-%s-%s.ops" % (d.get("sig", "fail"), name))
                        shutil.copyfile(os.path.join(work, name + ".ops"), dst)
                        report_failure(ctx, d.get("sig", "?"), dst, "[%s, exhaustive decision vectors] %s" % (name, d.get("msg", "")))
            elif rc != 0:
                dst = os.path.join(found_dir("C07"), "enum-crash-%s.txt" % name)
                with open(dst, "w") as f:
                    f.write("vh-run c07enum --world WMix --max-n %d died with status %s on the %s build\n%s" % (n, rc, name, out[-2000:]))
                report_failure(ctx, "crash", dst, "[%s] exhaustive enumeration died with status %s" % (name, rc))
            if os.path.exists(os.path.join(work, name + ".json")):
                st = json.load(open(os.path.join(work, name + ".json")))
                total += st["cases"]
                nt += st["nontrivial"]
                samples.extend(st["samples"][:1])
        cov["evaluations"] += total
        cov["distinct_nontrivial"] += nt
        cov["exhaustive_decision_vectors"] = {"exhaustive": True, "cases": total, "nontrivial": nt, "plan": ["%s: all 4^n vectors for n <= %d" % p for p in plan],
                                              "populations": "per n: fresh single archetype and churned single archetype (4 closure-parameter variants each), four splits of n entities over the three archetypes matched by the cross query `&Word`",
                                              "note": "this sub-space is enumerated completely; the generated histories above are sampled"}
        cov["samples"] = (cov["samples"] + samples)[:4]
    finally:
        shutil.rmtree(work, ignore_errors=True)


def check_c07(ctx):
    check_history(ctx, extra_step=c07_enumeration)


def limit_scenario_part(ctx, bins, cov, words, sig, what):
    """Runs the capacity-limit scenario (an archetype filled to 2^24 entities, then cloned) and
    reports only the failures whose message contains one of `words`: the part of the scenario that
    belongs to this property (the rest is C12's)."""
    work = os.path.join(VERIF, ".work", "%s-b-%d" % (ctx.prop, os.getpid()))
    os.makedirs(work, exist_ok=True)
    start = (1 << 24) - 3
    try:
        jobs = [((name,), [bins[name], "boundary", "--world", "WOne", "--start", str(start), "--fail-out", os.path.join(work, "%s.boundary" % name)]) for name in ("chk", "rel") if name in bins]
        ran = 0
        for (name,), (rc, out) in sorted(run_many(jobs, 1800).items()):
            if rc is None or rc in (-9, 137):
                raise Inconclusive("capacity-limit scenario timed out or was killed")
            ran += 1
            if rc == 0:
                continue
            msg = " ".join(parse_line(l).get("msg", "") for l in out.splitlines() if l.startswith("FAIL "))
            if rc == 1 and not any(w in msg for w in words):
                continue  # another part of the scenario fails: C12 reports that
            if rc != 1 and ctx.prop != "C13":
                continue  # a crash of the scenario process is reported by C12 (and by C13: the clone is its last step)
            dst = os.path.join(found_dir(ctx.prop), "%s-%s.boundary" % (sig, name))
            with open(dst, "w") as f:
                f.write("# property %s\n# %s\nworld WOne\nboundary %d\n" % (ctx.prop, msg or "process died with status %s" % rc, start))
            report_failure(ctx, sig, dst, "[%s] %s" % (name, msg or "the scenario process died with status %s: %s" % (rc, out[-300:])))
        cov[what] = ran
        cov["evaluations"] += ran
    finally:
        shutil.rmtree(work, ignore_errors=True)


def c13_clone_at_limit(ctx, bins, cov):
    """C13 at the capacity limit: the scenario ends with `clone()` and `clone_from()` of the world
    whose archetype holds 2^24 entities."""
    limit_scenario_part(ctx, bins, cov, ("clon",), "clone-at-capacity-limit", "clone_at_capacity_limit_scenarios")


def check_history_fuzz(ctx):
    """History check whose thorough tier adds a libFuzzer / ASan campaign."""
    def extra(c, b, cov):
        if c.prop == "C13":
            c13_clone_at_limit(c, b, cov)
        if c.tier != "thorough":
            return
        fuzz_campaign(c, b, cov)
        if c.prop == "C04":
            miri_sample(c, cov)

    if ctx.prop == "C13" and ctx.replay and ctx.replay.endswith(".boundary"):
        cov = {"evaluations": 0, "distinct_nontrivial": 2, "rule": "replay of the clone-at-the-capacity-limit scenario", "samples": [open(ctx.replay).read()]}
        c13_clone_at_limit(ctx, {"chk": build_harness("chk"), "rel": build_harness("rel")}, cov)
        write_evidence(ctx, "exploration", cov, HIST_ASSUMPTIONS)
        return
    # C13: the clone's buffers (ASan: a clone refilled to capacity writes into what it allocated) and
    # its pending events (events build) are part of "observationally identical"
    extra_bins = (lambda: {"asan": build_harness_asan(), "chk-events": build_harness("chk", ("events",))}) if ctx.prop == "C13" else None
    check_history(ctx, extra_step=extra if (ctx.tier == "thorough" or ctx.prop == "C13") else None, extra_bins=extra_bins)


HIST_RULES["C17"] = "histories (harness built with feature events) with both creation paths incl. refused create_within_capacity, all four destroy key kinds at both levels, ecs_iter_destroy!, destroys of stale handles, per-archetype and world-level clear_events at arbitrary points, clones; after every step the per-archetype and world-level event iterators are compared (as multisets) with the model's logs and size_hint is checked before every next(); non-trivial = an observation with >= 2 archetypes with non-empty and >= 1 with empty logs, plus a destroy through a dynamic key or ecs_iter_destroy!, plus a clear; distinct = hash of the decoded op list"


C14_RULE = ("generated raw (key, generation) values from an edge-biased strategy (all declared archetype ids of WMix {0,1,7,8,200,255} / WOne plus arbitrary id bytes; positions 0, 1, 2^24-1, random; generations 0, 1, 2, u32::MAX, random), pairs (equal, one bit flipped, differing only in id byte / generation / position), sets put into HashSet/HashMap, and direct handles built for every archetype at edge indices and versions; checked against the conversion / Eq / Hash laws; plus histories checking that every created handle carries its creator's ARCHETYPE_ID; "
            "non-trivial = undeclared id byte, or position/generation at an edge, or a pair differing in exactly one field (or one bit), or a set of >= 2 handles; distinct = the generated value itself")


def check_c14(ctx):
    bins = {"chk": build_harness("chk"), "rel": build_harness("rel")}
    files = sorted(glob.glob(os.path.join(VERIF, "replays", "C14", "*.conv")))
    if ctx.replay and ctx.replay.endswith(".conv"):
        files.append(ctx.replay)
    jobs = [((f, n), [b, "conv-replay", f]) for f in files for n, b in bins.items()]
    for (f, n), (rc, out) in sorted(run_many(jobs, 300).items()):
        if rc == 1:
            for line in out.splitlines():
                if line.startswith("FAIL "):
                    d = parse_line(line)
                    report_failure(ctx, d.get("sig", "?"), f, "[%s] %s" % (n, d.get("msg", "")))
        elif rc != 0:
            report_failure(ctx, "crash", f, "[%s] conv-replay died with status %s: %s" % (n, rc, out[-300:]))
    nfiles, _ = run_replays(ctx, bins, [ctx.replay] if ctx.replay and ctx.replay.endswith(".ops") else [])
    if ctx.replay:
        write_evidence(ctx, "exploration", {"evaluations": len(files) + nfiles, "distinct_nontrivial": 2, "rule": "replay of saved inputs only", "samples": [open(ctx.replay).read()]}, HIST_ASSUMPTIONS)
        return
    shards, cases = (8, 20000) if ctx.tier == "quick" else (16, sc(1000000))
    work = os.path.join(VERIF, ".work", "C14-%d" % os.getpid())
    os.makedirs(work, exist_ok=True)
    jobs = []
    for name, b in sorted(bins.items()):
        for s in range(shards):
            world = "WOne" if s % 4 == 3 else "WSolo" if s % 4 == 2 else "WMix"
            seed = ctx.sub_seed("conv", name, s)
            base = os.path.join(work, "%s-%d" % (name, s))
            jobs.append(((name, s, world, seed), [b, "conv", "--world", world, "--cases", str(cases), "--seed", str(seed), "--out", base + ".json", "--fail-out", base + ".conv"]))
    res = run_many(jobs, 3600)
    total = 0
    hashes = set()
    kinds = {}
    samples = []
    try:
        for key in sorted(res):
            name, s, world, seed = key
            rc, out = res[key]
            base = os.path.join(work, "%s-%d" % (name, s))
            if rc is None:
                raise Inconclusive("conv shard timed out")
            if rc not in (0, 1):
                raise Inconclusive("conv shard died with status %s: %s" % (rc, out[-300:]))
            st = json.load(open(base + ".json"))
            total += st["evaluations"]
            hashes.update(st["nontrivial_hashes"])
            for k, v in st["labels"].items():
                kinds[k] = kinds.get(k, 0) + v
            if len(samples) < 8:
                samples.extend(st["samples"][:2])
            if rc == 1:
                for line in out.splitlines():
                    if line.startswith("FAIL "):
                        d = parse_line(line)
                        dst = os.path.join(found_dir("C14"), "conversion-law-%s-%d.conv" % (name, seed))
                        shutil.copyfile(base + ".conv", dst)
                        report_failure(ctx, d.get("sig", "?"), dst, "[%s, %s] %s" % (name, world, d.get("msg", "")))
    finally:
        shutil.rmtree(work, ignore_errors=True)
    # history part: created handles carry their creator's ARCHETYPE_ID
    hb = (4, 500, 120, 900) if ctx.tier == "quick" else (16, sc(5000), 400, 7200)
    agg = hist_search(ctx, bins, budget=hb)
    cov = {
        "evaluations": total + agg["evaluations"],
        "distinct_nontrivial": len(hashes) + len(agg["hashes"]),
        "rule": C14_RULE,
        "samples": samples + agg["samples"][:1],
        "exhaustive": False,
        "conversion_cases": total,
        "conversion_case_kinds": kinds,
        "history_cases": agg["evaluations"],
        "history_ops": agg["ops_run"],
        "collateral": agg["collateral"],
        "builds": sorted(bins.keys()),
        "regression_replays": len(files) + nfiles,
    }
    write_evidence(ctx, "exploration", cov, HIST_ASSUMPTIONS + ["direct handles are built through the public-but-hidden __internal::new_entity_direct with the version of a real archetype (set through the preset hook); their fields are observed through Debug"])


HIST_RULES["C03"] = "world states produced by generated histories, interleaved with forged-handle probes constructed from the live state for the boundary classes (free slot with its current generation, live slot with neighbouring generation, indices len-1/len/capacity-1/capacity/capacity+1/2^24-1, undeclared archetype id, live handle of another archetype through from_any_unchecked, handle or direct handle of another world lineage, direct handles built with __internal::new_entity_direct at indices 0/len-1/len/capacity/2^24-1 with the version of this archetype, another archetype or another world, values bit-identical to a live handle, random 64-bit values) and passed to every lookup path, to destroy at both levels and to the mutable paths, with dynamic, unchecked-typed and typed keys; run on builds with debug assertions on, off, and off under AddressSanitizer; non-trivial = the case contains a probe in a dangerous class (free slot with matching generation, index == capacity, direct index == len with matching version, cross-world direct handle with matching version, undeclared archetype id); distinct = hash of the decoded op list"


def check_c03(ctx):
    bins = {"chk": build_harness("chk"), "rel": build_harness("rel"), "asan": build_harness_asan()}
    extra = [ctx.replay] if ctx.replay else []
    nfiles, _ = run_replays(ctx, bins, extra)
    if ctx.replay:
        write_evidence(ctx, "exploration", {"evaluations": nfiles, "distinct_nontrivial": 2, "rule": "replay of saved inputs only", "samples": [open(ctx.replay).read()]}, HIST_ASSUMPTIONS)
        return
    budget = (5, 1200, 120, 1200) if ctx.tier == "quick" else (16, sc(8000), 400, 7200)
    agg = hist_search(ctx, bins, budget=budget)
    cov = hist_coverage(ctx, agg, nfiles, rule_of("C03"), bins)
    cov["sanitizers"] = ["AddressSanitizer (nightly -Zsanitizer=address, release profile, debug assertions off) on the 'asan' build"]
    if ctx.tier == "thorough":
        fuzz_campaign(ctx, bins, cov)
        miri_sample(ctx, cov)
    write_evidence(ctx, "exploration", cov, HIST_ASSUMPTIONS + [
        "allowed clean panics on forged probes: 'invalid entity handle', 'invalid entity type', 'invalid entity conversion', debug_assert in from_any_unchecked (DESIGN.md soundness decision 3)",
        "the state after a forged probe is compared with the state before it (full probe suite, representation invariant)"])


C10_RULE = ("fault enumeration: each generated history (C10 op mix incl. generation presets next to u32::MAX) is run once without faults while counting, per op, every point at which user code is called back (k-th closure call of each query macro incl. ecs_iter_destroy!, k-th Clone::clone during world.clone(), k-th Drop::drop during dynamic-key destroy / world drop / teardown); it is then re-run once per such point with exactly that panic injected under catch_unwind, followed by the rest of the history; documented overflow panics in destroy / ecs_iter_destroy! arise from the presets; after the panic every oracle of C01 C02 C04 (double drops strict, leaks tolerated and counted) C06 C12 and the representation invariant must hold; "
            "evaluations = executions (baseline + one per injection point); non-trivial = the injected (or documented overflow) panic fired while the worlds held >= 2 live entities; distinct = (history hash, injection point)")


def check_c10(ctx):
    # the events build adds the event-log oracle: a destruction is logged iff it happened, also
    # when a documented panic interrupts the destroy
    bins = {"chk": build_harness("chk"), "rel": build_harness("rel"), "asan": build_harness_asan(), "chk-events": build_harness("chk", ("events",))}
    if ctx.replay and ctx.replay.endswith(".boundary"):
        cov = {"evaluations": 0, "distinct_nontrivial": 2, "rule": "replay of the capacity-limit scenario only", "samples": [open(ctx.replay).read()]}
        limit_scenario_part(ctx, bins, cov, ("state inconsistent after the panic",), "inconsistent-after-panic-at-capacity-limit", "capacity_limit_scenarios")
        write_evidence(ctx, "fault_enumeration", cov, HIST_ASSUMPTIONS)
        return
    extra = [ctx.replay] if ctx.replay else []
    fixed = [f for f in sorted(glob.glob(os.path.join(VERIF, "replays", "C10", "*.ops"))) + extra if "# fixed scenario" in open(f).read()]
    if fixed:
        # fixed scenarios (leaked guards, constructor capacity) are re-run by the c10 subcommand itself
        for name, b in sorted(bins.items()):
            p = subprocess.run([b, "c10", "--cases", "0", "--fail-out", os.path.join(VERIF, ".work", "c10-fixed-%d.ops" % os.getpid())], cwd=VERIF, stdout=subprocess.PIPE, stderr=subprocess.STDOUT, text=True)
            for line in p.stdout.splitlines():
                if line.startswith("FAIL "):
                    d = parse_line(line)
                    report_failure(ctx, d.get("sig", "?"), fixed[0], "[%s] %s" % (name, d.get("msg", "")))
    nfiles, _ = run_replays(ctx, bins, [f for f in extra if f not in fixed])
    if ctx.replay:
        write_evidence(ctx, "fault_enumeration", {"evaluations": nfiles, "distinct_nontrivial": 2, "rule": "replay of saved inputs only", "samples": [open(ctx.replay).read()]}, HIST_ASSUMPTIONS)
        return
    shards, cases, maxlen, watchdog = (5, 100, 60, 1800) if ctx.tier == "quick" else (16, sc(240), 80, 10800)
    work = os.path.join(VERIF, ".work", "C10-%d" % os.getpid())
    os.makedirs(work, exist_ok=True)
    jobs = []
    for name, b in sorted(bins.items()):
        # thorough: the sanitizer and the events build (each several times the cost) get a third of the shards
        nshards = max(2, shards // 3) if ctx.tier == "thorough" and name in ("asan", "chk-events") else shards
        for s in range(nshards):
            world = "WOne" if s % 4 == 3 else "WMix"
            seed = ctx.sub_seed("c10", name, s)
            base = os.path.join(work, "%s-%d" % (name, s))
            jobs.append(((name, s, world, seed), [b, "c10", "--world", world, "--cases", str(cases), "--len", str(maxlen), "--seed", str(seed), "--max-k", "16" if ctx.tier == "quick" else "32",
                                                  "--out", base + ".json", "--fail-out", base + ".ops", "--last-case", base + ".last"]))
    res = run_many(jobs, watchdog)
    tot = {"cases": 0, "runs": 0, "points": 0, "fired": 0, "by_site": [0, 0, 0], "nontrivial": set(), "samples": [], "collateral": {}}
    try:
        for key in sorted(res):
            name, s, world, seed = key
            rc, out = res[key]
            base = os.path.join(work, "%s-%d" % (name, s))
            if rc is None:
                raise Inconclusive("C10 shard %s/%d exceeded the watchdog" % (name, s))
            if rc not in (0, 1):
                dst = os.path.join(found_dir("C10"), "crash-%s-%d-%d.ops" % (name, s, seed))
                if os.path.exists(base + ".last"):
                    with open(dst, "w") as f:
                        f.write("# property C10\n# process died with status %s while enumerating the injection points of this case on the %s build\n%s" % (rc, name, open(base + ".last").read()))
                    report_failure(ctx, "crash", dst, "[%s] shard %d died with status %s; output tail: %s" % (name, s, rc, out[-400:]))
                    continue
                raise Inconclusive("C10 shard died with status %s: %s" % (rc, out[-300:]))
            if os.path.exists(base + ".json"):
                st = json.load(open(base + ".json"))
                tot["cases"] += st["evaluations"]
                tot["runs"] += st["runs"]
                tot["points"] += st["points"]
                tot["fired"] += st["fired"]
                for i in range(3):
                    tot["by_site"][i] += st["by_site"][i]
                tot["nontrivial"].update(st["nontrivial_points"])
                for k, v in st["collateral"].items():
                    tot["collateral"][k] = tot["collateral"].get(k, 0) + v
                if len(tot["samples"]) < 3:
                    tot["samples"].extend(st["samples"][:1])
            if rc == 1:
                for line in out.splitlines():
                    if line.startswith("FAIL "):
                        d = parse_line(line)
                        dst = os.path.join(found_dir("C10"), "%s-%s-%d.ops" % (d.get("sig", "fail"), name, seed))
                        shutil.copyfile(base + ".ops", dst)
                        report_failure(ctx, d.get("sig", "?"), dst, "[%s, %s] %s" % (name, world, d.get("msg", "")))
    finally:
        shutil.rmtree(work, ignore_errors=True)
    cov = {
        "evaluations": tot["runs"],
        "distinct_nontrivial": len(tot["nontrivial"]),
        "rule": C10_RULE,
        "samples": tot["samples"] or ["(no short sample)"],
        "exhaustive": False,
        "histories": tot["cases"],
        "injection_points_tried": tot["points"],
        "injection_points_fired": tot["fired"],
        "injection_points_by_site": {"closure": tot["by_site"][0], "clone": tot["by_site"][1], "drop": tot["by_site"][2]},
        "points_per_op_and_site": "all when <= K, else K evenly spread incl. first and last; K = 16 (quick) / 32 (thorough)",
        "collateral": tot["collateral"],
        "builds": sorted(bins.keys()),
        "fixed_scenarios": "with_capacity(2^24 + 1) per archetype panics with 'capacity may not exceed' and builds nothing; leaked (mem::forget) shared / mutable guard on every column of every archetype, then destroy at every dense position: whether or not the destroy panics, every entity is fully present or fully absent, iteration and the representation invariant are intact, world drop drops nothing twice",
        "regression_replays": nfiles,
    }
    if ctx.tier == "thorough":
        miri_sample(ctx, cov, sub="c10", cases=3)
    # the capacity-limit scenario: a panic raised while an archetype is filled to 2^24 entities, or
    # by the documented overflow at the limit, must leave the world as it was (C12 reports the panic
    # itself where none is documented; C10 the state it leaves behind)
    limit_scenario_part(ctx, bins, cov, ("state inconsistent after the panic",), "inconsistent-after-panic-at-capacity-limit", "capacity_limit_scenarios")
    write_evidence(ctx, "fault_enumeration", cov, HIST_ASSUMPTIONS + ["leaks caused by unwinding are tolerated and counted, double drops are not (DESIGN.md soundness decision 4)",
                                                                      "after a documented overflow panic in destroy the entity may be fully present or fully absent; the model adopts whichever holds"])


C11_RULE = ("(1) exhaustive pair matrix: outer x inner over {find_borrow(&), find_borrow(&mut), iter_borrow(&), iter_borrow(&mut), Borrow::component, Borrow::component_mut, borrow_slice, borrow_slice_mut, clone} x {same column, other column} x {same archetype, other archetype sharing the component type} x {same entity, other entity, missing entity / empty archetype}, for every ordered pair of WMix archetypes sharing a component type, on 8 world populations (full, with removals at the first/last/middle position, with empty archetypes); each nesting runs on a fresh world through a shared &World under catch_unwind and must panic iff the model (one reader/writer cell per (archetype, column); a borrow is taken only if the access executes) reports a conflict, both accesses must observe the model's stamps, and afterwards every column must be mutably borrowable again; "
            "(2) generated sequences of 1..5 nestings of depth 1..3 on generated populations (state carries over, so accesses after a caught conflict are checked); "
            "non-trivial = the pair conflicts (must panic) or is a closest non-conflicting neighbour (same archetype other column, other archetype same column type, shared/shared), or (random part) a nesting of depth >= 2 or a sequence with a conflict; distinct = combination tuple x population, resp. hash of the sequence")


def check_c11(ctx):
    bins = {"chk": build_harness("chk"), "rel": build_harness("rel")}
    files = sorted(glob.glob(os.path.join(VERIF, "replays", "C11", "*.nest")))
    if ctx.replay:
        files.append(ctx.replay)
    jobs = [((f, n), [b, "b-replay", f]) for f in files for n, b in bins.items()]
    for (f, n), (rc, out) in sorted(run_many(jobs, 300).items()):
        if rc == 1:
            for line in out.splitlines():
                if line.startswith("FAIL "):
                    d = parse_line(line)
                    report_failure(ctx, d.get("sig", "?"), f, "[%s] %s" % (n, d.get("msg", "")))
        elif rc != 0:
            report_failure(ctx, "crash", f, "[%s] b-replay died with status %s: %s" % (n, rc, out[-300:]))
    if ctx.replay:
        write_evidence(ctx, "exploration", {"evaluations": len(files), "distinct_nontrivial": 2, "rule": "replay of saved inputs only", "samples": [open(ctx.replay).read()]}, HIST_ASSUMPTIONS)
        return
    work = os.path.join(VERIF, ".work", "C11-%d" % os.getpid())
    os.makedirs(work, exist_ok=True)
    jobs = []
    for name, b in sorted(bins.items()):
        for v in range(8):
            base = os.path.join(work, "m-%s-%d" % (name, v))
            jobs.append((("matrix", name, v, 0), [b, "bmatrix", "--world", "WMix", "--variant", str(v), "--pairs", "64", "--out", base + ".json", "--fail-out", base + ".nest"]))
        shards, cases = (4, 5000) if ctx.tier == "quick" else (8, sc(400000))
        for s in range(shards):
            base = os.path.join(work, "s-%s-%d" % (name, s))
            seed = ctx.sub_seed("bsearch", name, s)
            world = "WOne" if s % 4 == 3 else "WMix"
            jobs.append((("search", name, s, seed), [b, "bsearch", "--world", world, "--cases", str(cases), "--seed", str(seed), "--out", base + ".json", "--fail-out", base + ".nest"]))
    res = run_many(jobs, 3600)
    combos = conflicts = neighbours = 0
    rand_cases = 0
    hashes = set()
    labels = {}
    samples = []
    try:
        for key in sorted(res):
            kind, name, idx, seed = key
            rc, out = res[key]
            base = os.path.join(work, ("m-%s-%d" if kind == "matrix" else "s-%s-%d") % (name, idx))
            if rc is None:
                raise Inconclusive("C11 job timed out")
            if rc not in (0, 1):
                raise Inconclusive("C11 job died with status %s: %s" % (rc, out[-300:]))
            if os.path.exists(base + ".json"):
                st = json.load(open(base + ".json"))
                if kind == "matrix":
                    combos += st["combos"]
                    conflicts += st["conflicts"]
                    neighbours += st["neighbours"]
                    if len(samples) < 4:
                        samples.extend(st["samples"][:2])
                else:
                    rand_cases += st["evaluations"]
                    hashes.update(st["nontrivial_hashes"])
                    for k, v in st["labels"].items():
                        labels[k] = labels.get(k, 0) + v
                    if len(samples) < 6:
                        samples.extend(st["samples"][:1])
            if rc == 1:
                for line in out.splitlines():
                    if line.startswith("FAIL "):
                        d = parse_line(line)
                        dst = os.path.join(found_dir("C11"), "%s-%s-%s-%d.nest" % (d.get("sig", "fail"), kind, name, idx))
                        shutil.copyfile(base + ".nest", dst)
                        report_failure(ctx, d.get("sig", "?"), dst, "[%s] %s" % (name, d.get("msg", "")))
    finally:
        shutil.rmtree(work, ignore_errors=True)
    cov = {
        "evaluations": combos + rand_cases,
        "distinct_nontrivial": conflicts + neighbours + len(hashes),
        "rule": C11_RULE,
        "samples": samples,
        "exhaustive": False,
        "pair_matrix": {"exhaustive": True, "combinations_run": combos, "must_panic": conflicts, "closest_non_conflicting": neighbours, "populations": 8, "builds": sorted(bins.keys()),
                        "note": "the pair matrix sub-space is enumerated completely (exhaustive: true for it); the random nestings are sampled"},
        "random_sequences": rand_cases,
        "random_labels": labels,
        "builds": sorted(bins.keys()),
        "regression_replays": len(files),
    }
    write_evidence(ctx, "exploration", cov, ["model of one RefCell per (archetype, column) in harness/src/borrowm.rs", "panic message of a refused borrow contains 'borrowed' (std RefCell)", "proptest, rustc"])


# ----------------------------------------------------------------------------------------------
# Engines M and P: the compile-time half (C05 C15 C16 C18)
# ----------------------------------------------------------------------------------------------

PROG_ASSUMPTIONS = [
    "reference semantics in /verif/proggen/src/refsem.rs (cfg filtering, discriminant rule, matching as set computations over names; no gecs code)",
    "engine M drives the macro crate's parse/data/generate modules in-process (#[path] include of /repo/macros/src) and reads the emitted token streams; a change of their shape is reported as inconclusive, never as a violation",
    "engine P trusts rustc: positive programs are compiled with #![forbid(unsafe_code)] and run, negative programs must be rejected and their one-edit twins accepted",
    "output lines are compared as sorted multisets (iteration order is unspecified)",
]

M_BUDGET = {
    # prop: (quick shards, quick cases per shard, thorough shards, thorough cases, queries per case)
    "C05": (16, 3000, 16, sc(40000), 4),
    "C15": (16, 3000, 16, sc(40000), 1),
    "C16": (16, 250, 16, sc(3000), 4),
    "C18": (16, 600, 16, sc(8000), 4),
}

P_BUDGET = {
    # prop: quick emit args, thorough emit args
    "C05": (["--programs", "16", "--worlds", "8", "--queries", "8", "--pairs", "60"], ["--programs", "128", "--worlds", "8", "--queries", "8", "--pairs", "400"]),
    "C15": (["--programs", "16", "--worlds", "10", "--queries", "2", "--pairs", "48"], ["--programs", "96", "--worlds", "10", "--queries", "2", "--pairs", "300"]),
    "C16": (["--programs", "24", "--worlds", "3", "--queries", "5", "--flags", "3"], ["--programs", "160", "--worlds", "3", "--queries", "5", "--flags", "3"]),
    "C18": (["--pairs", "100000"], ["--pairs", "100000"]),
}

PROG_RULES = {
    "C05": "engine M: generated (declaration, query) pairs - 1..6 archetypes over a 7-of-10 component pool with arbitrary overlap, queries of 0..5 parameters (&C, &mut C, OneOf of arity 1..4 with members inside and outside the pool, typed / wildcard / dynamic entity and direct-entity parameters) for all five macros - are run through the macro crate's own parse + bind + generate code and compared with a reference matcher: accept/reject and error family, set of matched archetypes, type each parameter is bound to per archetype, which column each argument reads; engine P: generated client programs (several worlds each, populated with per-(archetype, entity, component) unique values; every query logs what it is called with; find queries are issued for every entity with rotating key kinds) are compiled by rustc under #![forbid(unsafe_code)], run, and their output compared with the reference; negative programs (no match / ambiguous OneOf) must be rejected with the macro's message and their twins accepted; non-trivial (M) = world with >= 2 archetypes with overlapping component sets, query with >= 2 parameters or a OneOf, matched set a proper non-empty subset; distinct = (declaration, query) text",
    "C15": "engine M: declarations with 1..12 archetypes of 1..10 components, any subset carrying explicit #[archetype_id(N)] / #[component_id(N)] (small, near 255, colliding, > 255), plus cfg-decorated items, resolved by DataWorld::new and compared with the discriminant fold incl. which error; engine P: compiled programs print ARCHETYPE_ID, COMPONENT_ID, ecs_component_id!(C, A), ecs_component_id!(C) inside a query body, handle archetype_id() (typed and dynamic), len(), SelectArchetype::try_from for all 256 ids, and must print the reference values; rejected declarations must fail to compile with the documented message and their id-free twins compile; non-trivial = an explicit id that is not first followed by an implicit item, or a rejected declaration, or a disabled item before an implicit one; distinct = declaration text x assignment",
    "C16": "declarations and queries decorated with up to 3 (P) / 4 (M) named predicates vp_k (and their negations) plus literal forms all()/any()/not(any())/not(all())/nested, on archetypes, components and query parameters; every one of the 2^k assignments is realised (engine M: evaluated predicate list fed through the macro crate's ParseCfgDecorated path; engine P: --cfg flags to rustc) and compared with the reference on the reduced program, and the cfg-free twin P|s (disabled items deleted, enabled ones unannotated) is generated, compiled without flags and must print the same output; non-trivial = >= 2 distinct predicates with different truth values, one of them on a query parameter or on a component the query names; distinct = (declaration, query, assignment)",
    "C18": "(a) every expansion engine M produces (ecs_world!, all five query macros, both cfg-probing chains) is scanned for the `unsafe` keyword and for attributes forbid(unsafe_code) rejects, and every positive program of engine P is compiled under #![forbid(unsafe_code)]; (b) negative programs generated from the grammar holder (24 ways to hold a reference / view / borrow / iterator / slice / handle reference into a world) x structural change (16: create, create_within_capacity, destroy by every key kind, ecs_iter_destroy!, drop, assignment, mem::take / replace, clone for mutable holders, mutable query) plus the families two-mutable-accesses-in-one-query, &mut entity parameters (6 types x 5 macros), references smuggled out of query closures, structural change inside a query, Sync / Send of worlds and archetypes for several component kinds, thread sharing; each must be rejected by rustc and its sound twin (holder's last use before the change, or the one-edit fix) must compile; non-trivial = a negative program whose twin compiles; distinct = program text",
}


def run_engine_m(ctx, pg, prop, pg_alt=None):
    qs, qc, ts, tc, nq = M_BUDGET[prop]
    shards, cases = (qs, qc) if ctx.tier == "quick" else (ts, tc)
    work = os.path.join(VERIF, ".work", "%s-m-%d" % (prop, os.getpid()))
    os.makedirs(work, exist_ok=True)
    jobs = []
    for s in range(shards):
        base = os.path.join(work, "m-%d" % s)
        seed = ctx.sub_seed("m", s)
        # every fourth shard runs the generators as built with the macro crate's `events` feature
        b = pg_alt if (pg_alt and s % 4 == 3) else pg
        jobs.append(((s, seed), [b, "m", "--prop", prop, "--cases", str(cases), "--seed", str(seed), "--queries", str(nq), "--out", base + ".json", "--fail-out", base + ".pcase"]))
    res = run_many(jobs, 7200)
    agg = {"cases": 0, "world_checks": 0, "query_checks": 0, "expansions_scanned": 0, "excluded": 0, "hashes": set(), "labels": {}, "samples": []}
    try:
        for key in sorted(res):
            s, seed = key
            rc, out = res[key]
            base = os.path.join(work, "m-%d" % s)
            if rc is None:
                raise Inconclusive("engine M shard timed out")
            if rc == 2:
                tool = [l for l in out.splitlines() if l.startswith("TOOL ")]
                raise Inconclusive("engine M could not interpret the macro output: %s" % (tool[:1] or out[-300:]))
            if rc not in (0, 1):
                raise Inconclusive("engine M shard died with status %s: %s" % (rc, out[-400:]))
            st = json.load(open(base + ".json"))
            for k in ("cases", "world_checks", "query_checks", "expansions_scanned", "excluded"):
                agg[k] += st[k]
            agg["hashes"].update(st["nontrivial_hashes"])
            for k, v in st["labels"].items():
                agg["labels"][k] = agg["labels"].get(k, 0) + v
            if len(agg["samples"]) < 3:
                agg["samples"].extend(st["samples"][:1])
            if rc == 1:
                for line in out.splitlines():
                    if line.startswith("FAIL "):
                        d = parse_line(line)
                        dst = os.path.join(found_dir(prop), "engine-m-%d.pcase" % seed)
                        shutil.copyfile(base + ".pcase", dst)
                        report_failure(ctx, "engine-m", dst, "[engine M] %s" % d.get("msg", ""))
    finally:
        shutil.rmtree(work, ignore_errors=True)
    return agg


def run_engine_p(ctx, pg, prop, emit_args=None, features=(), case_file=None):
    import farm
    rlib, deps = farm.build_gecs(features)
    work = os.path.join(VERIF, ".work", "%s-p-%d" % (prop, os.getpid()))
    shutil.rmtree(work, ignore_errors=True)
    os.makedirs(work, exist_ok=True)
    try:
        if case_file:
            cmd = [pg, "emit", "--prop", prop, "--from-case", case_file, "--out", work]
        else:
            args = emit_args if emit_args is not None else P_BUDGET[prop][0 if ctx.tier == "quick" else 1]
            cmd = [pg, "emit", "--prop", prop, "--seed", str(ctx.sub_seed("p")), "--out", work] + args
        p = subprocess.run(cmd, cwd=VERIF, stdout=subprocess.PIPE, stderr=subprocess.STDOUT, text=True)
        if p.returncode != 0:
            raise Inconclusive("program generator failed: %s" % p.stdout[-600:])
        jobs = farm.read_index(work)
        stats = json.load(open(os.path.join(work, "stats.json")))
        results = farm.run_jobs(jobs, work, rlib, deps)
        agg = {"jobs": len(results), "run_ok": 0, "lines_compared": 0, "reject_ok": 0, "reject_other_family": [], "accept_ok": 0, "pairs_ok": 0, "emit_stats": stats, "samples": [], "error_codes": {}}
        by_id = {r["id"]: r for r in results}
        twin_rejected = []
        for r in results:
            st = r["status"]
            if st == "timeout":
                raise Inconclusive("compiling / running %s timed out" % r["file"])
            if st == "twin-rejected" and not r["id"].endswith("-twin"):
                # a stand-alone must-compile program states the property itself (e.g. handles are
                # Copy + Send + Sync regardless of the components): its rejection is the violation
                dst_dir = os.path.join(found_dir(ctx.prop), r["id"])
                os.makedirs(dst_dir, exist_ok=True)
                shutil.copyfile(os.path.join(work, r["file"]), os.path.join(dst_dir, r["file"]))
                job = [j for j in jobs if j["id"] == r["id"]][0]
                with open(os.path.join(dst_dir, "job.json"), "w") as f:
                    json.dump({"job": job, "result": r}, f, indent=1)
                report_failure(ctx, "program-rejected", dst_dir, "[engine P] %s (%s) must compile but is rejected: %s" % (r["file"], r["note"], r.get("why", "")))
                continue
            if st == "twin-rejected":
                # the twin proves the negative is otherwise well formed; if it does not compile the
                # pair says nothing (harness / tree incompatibility): inconclusive, not a violation
                twin_rejected.append("sound twin %s does not compile: %s" % (r["file"], r.get("why", "")))
                continue
            if st == "violation":
                dst_dir = os.path.join(found_dir(ctx.prop), r["id"])
                os.makedirs(dst_dir, exist_ok=True)
                shutil.copyfile(os.path.join(work, r["file"]), os.path.join(dst_dir, r["file"]))
                job = [j for j in jobs if j["id"] == r["id"]][0]
                if job["kind"] == "run":
                    shutil.copyfile(os.path.join(work, job["expect"]), os.path.join(dst_dir, job["expect"]))
                with open(os.path.join(dst_dir, "job.json"), "w") as f:
                    json.dump({"job": job, "result": r}, f, indent=1)
                sig = "program-%s" % ("accepted" if r["kind"] == "reject" else "output" if "output differs" in r.get("why", "") else "rejected")
                report_failure(ctx, sig, dst_dir, "[engine P] %s (%s, flags %s): %s" % (r["file"], r["note"], job["flags"], r.get("why", "")))
                continue
            if r["kind"] == "run":
                agg["run_ok"] += 1
                agg["lines_compared"] += r.get("lines", 0)
            elif r["kind"] == "reject":
                agg["reject_ok"] += 1
                for c in r.get("codes", [])[:1]:
                    agg["error_codes"][c] = agg["error_codes"].get(c, 0) + 1
                if st == "ok-other-family":
                    agg["reject_other_family"].append({"id": r["id"], "codes": r.get("codes"), "messages": r.get("messages", [])[:1]})
                twin = by_id.get(r["id"] + "-twin")
                if twin is None or twin["status"] == "ok":
                    agg["pairs_ok"] += 1
                if len(agg["samples"]) < 3:
                    agg["samples"].append({"negative_program": r["file"], "note": r["note"], "rustc": (r.get("codes") or r.get("messages"))[:2]})
            else:
                agg["accept_ok"] += 1
        if twin_rejected and not ctx.violations:
            raise Inconclusive(twin_rejected[0] + (" (and %d more)" % (len(twin_rejected) - 1) if len(twin_rejected) > 1 else ""))
        agg["twins_rejected"] = twin_rejected
        if len(agg["samples"]) < 4:
            for j in jobs:
                if j["kind"] == "run":
                    src = open(os.path.join(work, j["file"])).read()
                    agg["samples"].append({"positive_program_excerpt": src[:1500]})
                    break
        return agg
    finally:
        shutil.rmtree(work, ignore_errors=True)


def replay_program_dir(ctx, d, features=()):
    """Replays one saved engine-P job (directory with the program, its expectation and job.json)."""
    import farm
    rlib, deps = farm.build_gecs(features)
    with open(os.path.join(d, "job.json")) as f:
        job = json.load(f)["job"]
    work = os.path.join(VERIF, ".work", "replay-p-%d" % os.getpid())
    shutil.rmtree(work, ignore_errors=True)
    shutil.copytree(d, work)
    try:
        r = farm.run_job(job, work, rlib, deps)
        if r["status"] == "violation":
            sig = "program-%s" % ("accepted" if r["kind"] == "reject" else "output" if "output differs" in r.get("why", "") else "rejected")
            report_failure(ctx, sig, d, "[engine P replay] %s: %s" % (job["file"], r.get("why", "")))
        elif r["status"] not in ("ok", "ok-other-family"):
            raise Inconclusive("replay of %s: %s %s" % (d, r["status"], r.get("why", "")))
        return r
    finally:
        shutil.rmtree(work, ignore_errors=True)


def check_program_prop(ctx):
    import farm
    prop = ctx.prop
    if ctx.replay and os.path.isdir(ctx.replay):
        r = replay_program_dir(ctx, ctx.replay)
        write_evidence(ctx, "exploration", {"evaluations": 1, "distinct_nontrivial": 2, "rule": "replay of one saved program", "samples": [r.get("file", "")]}, PROG_ASSUMPTIONS)
        return
    pg = farm.build_pg()
    pg_ev = farm.build_pg(("events",))
    nrep = 0
    for f in sorted(glob.glob(os.path.join(VERIF, "replays", prop, "*.pcase"))) + ([ctx.replay] if ctx.replay and ctx.replay.endswith(".pcase") else []):
        nrep += 1
        for which, b in (("", pg), (", generators built with `events`", pg_ev)):
            p = subprocess.run([b, "m-replay", "--prop", prop, f], cwd=VERIF, stdout=subprocess.PIPE, stderr=subprocess.STDOUT, text=True)
            if p.returncode == 1:
                for line in p.stdout.splitlines():
                    if line.startswith("FAIL "):
                        report_failure(ctx, "engine-m", f, "[engine M%s] %s" % (which, parse_line(line).get("msg", "")))
                break
            elif p.returncode == 2:
                raise Inconclusive("engine M could not interpret the macro output while replaying %s" % f)
        # the same case end to end through rustc
        if prop != "C18":
            run_engine_p(ctx, pg, prop, case_file=f)
    if ctx.replay:
        write_evidence(ctx, "exploration", {"evaluations": nrep, "distinct_nontrivial": 2, "rule": "replay of saved inputs only", "samples": [open(ctx.replay).read()]}, PROG_ASSUMPTIONS)
        return
    m = run_engine_m(ctx, pg, prop, pg_alt=pg_ev)
    p = run_engine_p(ctx, pg, prop)
    if prop == "C18":
        # the same negative / twin corpus against gecs built with `events` (the generated event
        # iterators live in the user crate and fall under its forbid(unsafe_code) as well)
        pe = run_engine_p(ctx, pg, prop, emit_args=["--pairs", "80"], features=("events",))
        p["under_events"] = {k: pe[k] for k in ("jobs", "reject_ok", "accept_ok", "pairs_ok")}
        p["jobs"] += pe["jobs"]
        # ... and the whole corpus against gecs built with `32_components` (the storage / iterator /
        # view types are instantiated by other macro invocations there; auto traits of worlds,
        # archetypes and iterators must not depend on the feature)
        pw = run_engine_p(ctx, pg, prop, emit_args=["--pairs", "100000"], features=("32_components",))
        p["under_32_components"] = {k: pw[k] for k in ("jobs", "reject_ok", "accept_ok", "pairs_ok")}
        p["jobs"] += pw["jobs"]
    nontrivial = len(m["hashes"]) + p["pairs_ok"] + (p["run_ok"] if prop != "C18" else 0)
    cov = {
        "evaluations": m["world_checks"] + m["query_checks"] + p["jobs"],
        "distinct_nontrivial": nontrivial,
        "rule": PROG_RULES[prop],
        "samples": m["samples"] + p["samples"],
        "exhaustive": False,
        "engine_m": {"cases": m["cases"], "declaration_checks": m["world_checks"], "query_checks": m["query_checks"], "expansions_scanned_for_unsafe": m["expansions_scanned"], "excluded_degenerate": m["excluded"],
                     "distinct_nontrivial": len(m["hashes"]), "labels": m["labels"]},
        "engine_p": {k: v for k, v in p.items() if k != "samples"},
        "regression_replays": nrep,
    }
    if prop == "C18":
        cov["engine_p"]["note"] = "error family different from the template's expectation is still a rejection; such programs are listed under reject_other_family for review"
    write_evidence(ctx, "exploration", cov, PROG_ASSUMPTIONS)


def c17_max_archetypes(ctx, bins, cov):
    """The world-level event iterators walk the archetypes with a cursor: at the maximum of 256
    archetypes they must still yield exactly the union (no fixed harness world is that large, so a
    generated client program is compiled without optimisation - overflow checks and debug assertions
    on - and run against gecs built with `events`)."""
    import farm
    rlib, deps = farm.build_gecs(("events",))
    work = os.path.join(VERIF, ".work", "C17-p-%d" % os.getpid())
    shutil.rmtree(work, ignore_errors=True)
    os.makedirs(work)
    try:
        src, expected = _archs256_program()
        with open(os.path.join(work, "events_256.rs"), "w") as f:
            f.write(src)
        with open(os.path.join(work, "events_256.expect"), "w") as f:
            f.write(expected)
        jobs = [{"id": "C17-events_256", "kind": "run", "file": "events_256.rs", "flags": [], "expect": "events_256.expect", "note": "256 archetypes, features ['events']"}]
        res = farm.run_jobs(jobs, work, rlib, deps)
        for r in res:
            if r["status"] in ("violation", "twin-rejected"):
                dst = os.path.join(found_dir("C17"), r["id"])
                os.makedirs(dst, exist_ok=True)
                shutil.copyfile(os.path.join(work, r["file"]), os.path.join(dst, r["file"]))
                shutil.copyfile(os.path.join(work, "events_256.expect"), os.path.join(dst, "events_256.expect"))
                with open(os.path.join(dst, "job.json"), "w") as f:
                    json.dump({"job": jobs[0]}, f)
                report_failure(ctx, "events-256-archetypes", dst, "world-level event iterators over a world of 256 archetypes (created in the first, the last and one in the middle, one destroyed): %s" % r.get("why", ""))
        cov["max_archetypes_program"] = {"archetypes": 256, "status": [r["status"] for r in res]}
    finally:
        shutil.rmtree(work, ignore_errors=True)


def check_c17(ctx):
    if ctx.replay and os.path.isdir(ctx.replay):
        r = replay_program_dir(ctx, ctx.replay, features=("events",))
        write_evidence(ctx, "exploration", {"evaluations": 1, "distinct_nontrivial": 2, "rule": "replay of one saved program", "samples": [r.get("file", "")]}, PROG_ASSUMPTIONS)
        return
    check_history(ctx, features=("events",), extra_step=c17_max_archetypes)


C19_RULE = ("configurations = all 8 subsets of {events, 32_components, wrapping_version} x {debug assertions on (chk), off (rel)}; in each, the same seeded mixed histories (oracles of C01 C02 C04 C06 C07 C08 C09 C12 C13 C14, event oracles where the feature exists, WWide with 17- and 32-component archetypes where available) must pass every oracle, and the trace of what the oracles are lenient about (handles issued, capacity after every step, iteration order, dense indices, acceptance of direct handles after creations only) must be identical across all 16 builds for every history (no history of this profile crosses a generation boundary or forges handles); the wrapping_version builds additionally run boundary-crossing histories (generation presets); documented deltas are checked by compiling fixed client programs under each feature set (event API exists iff events; 17- and 32-component archetypes compile iff 32_components; 16 components always); "
            "non-trivial = a (configuration, history) pair whose history contains growth with live entities, slot reuse of depth >= 2 and a clone (for the wrapping runs: one that crosses the boundary); distinct = (configuration, history hash)")

C19_PROGRAMS = {
    "events_api": ("""#![forbid(unsafe_code)]
#![allow(warnings)]
use gecs::prelude::*;
pub struct CompA(pub u64);
ecs_world! { ecs_archetype!(ArchFoo, CompA); ecs_archetype!(ArchBar, CompA); }
fn main() {
    let mut world = EcsWorld::new();
    let e = world.create::<ArchFoo>((CompA(1),));
    world.destroy(e);
    let a = world.iter_created().count();
    let b = world.iter_destroyed().count();
    let c = world.archetype::<ArchFoo>().iter_created().count() + world.archetype::<ArchFoo>().iter_destroyed().count();
    world.arch_bar.clear_events();
    world.clear_events();
    println!("{} {} {} {}", a, b, c, world.iter_created().count());
}
""", "events"),
    # the maximum of 256 archetypes: the generated world-level event iterator walks all of them
    # (run, not only compiled: opt-level 0, so overflow checks and debug assertions are on)
    "events_256": ("GENERATED", "events"),
    "comps_16": (None, None),
    "comps_17": (None, "32_components"),
    "comps_32": (None, "32_components"),
}


def _comps_program(n):
    names = ["K%s%s" % (chr(65 + i // 26), chr(97 + i % 26)) for i in range(n)]
    decls = "\n".join("pub struct %s(pub u64);" % c for c in names)
    vals = ", ".join("%s(%d)" % (c, i) for i, c in enumerate(names))
    return ("#![forbid(unsafe_code)]\n#![allow(warnings)]\nuse gecs::prelude::*;\n%s\necs_world! { ecs_archetype!(ArchBig, %s); }\n"
            "fn main() { let mut world = EcsWorld::new(); let e = world.create::<ArchBig>((%s,)); let mut s = 0; ecs_find!(world, e, |a: &%s, z: &%s| { s = a.0 + z.0; }); println!(\"{}\", s + world.arch_big.len() as u64); }\n"
            % (decls, ", ".join(names), vals, names[0], names[-1]))


def _archs256_program():
    archs = "\n".join("    ecs_archetype!(Arch%03d, CompA);" % i for i in range(256))
    return ("""#![forbid(unsafe_code)]
#![allow(warnings)]
use gecs::prelude::*;
pub struct CompA(pub u64);
ecs_world! {
%s
}
fn main() {
    let mut world = EcsWorld::new();
    let first = world.create::<Arch000>((CompA(1),));
    let last = world.create::<Arch255>((CompA(2),));
    let mid = world.create::<Arch128>((CompA(4),));
    world.destroy(mid);
    let c: Vec<u8> = world.iter_created().map(|e| e.archetype_id()).collect();
    let d: Vec<u8> = world.iter_destroyed().map(|e| e.archetype_id()).collect();
    let fused = {
        let mut it = world.iter_created();
        while it.next().is_some() {}
        it.next().is_none() && it.size_hint() == (0, Some(0))
    };
    let mut sum = 0u64;
    ecs_iter!(world, |c: &CompA| { sum += c.0; });
    println!("{:?} {:?} {} {} {} {}", c, d, fused, sum, first.archetype_id(), last.archetype_id());
}
""" % archs, "[0, 128, 255] [128] true 3 0 255\n")


def c19_feature_programs(ctx):
    """Documented deltas: compiled under every feature set that matters."""
    import farm
    results = []
    for feats in [(), ("events",), ("32_components",), ("events", "32_components", "wrapping_version")]:
        rlib, deps = farm.build_gecs(feats)
        work = os.path.join(VERIF, ".work", "C19-p-%d" % os.getpid())
        shutil.rmtree(work, ignore_errors=True)
        os.makedirs(work)
        try:
            jobs = []
            for name, (src, needs) in C19_PROGRAMS.items():
                expected = None
                if src is None:
                    src = _comps_program(int(name.split("_")[1]))
                elif src == "GENERATED":
                    src, expected = _archs256_program()
                with open(os.path.join(work, name + ".rs"), "w") as f:
                    f.write(src)
                must_compile = needs is None or needs in feats
                if must_compile and expected is not None:
                    with open(os.path.join(work, name + ".expect"), "w") as f:
                        f.write(expected)
                    jobs.append({"id": "C19-%s-%s" % (name, "+".join(feats) or "default"), "kind": "run", "file": name + ".rs", "flags": [], "expect": name + ".expect", "note": "features %s" % (list(feats),)})
                    continue
                jobs.append({"id": "C19-%s-%s" % (name, "+".join(feats) or "default"), "kind": "accept" if must_compile else "reject", "file": name + ".rs", "flags": [],
                             "expect": "E0599|E0412|E0433|E0405|cannot find|no method", "note": "features %s" % (list(feats),)})
            for r in farm.run_jobs(jobs, work, rlib, deps):
                results.append(r)
                if r["status"] == "violation" or r["status"] == "twin-rejected":
                    dst = os.path.join(found_dir("C19"), r["id"])
                    os.makedirs(dst, exist_ok=True)
                    shutil.copyfile(os.path.join(work, r["file"]), os.path.join(dst, r["file"]))
                    what = "compiles although the feature that documents it is off" if r["kind"] == "reject" else "does not compile or run as documented although its feature is on: %s" % r.get("why", "")
                    report_failure(ctx, "feature-delta", dst, "[features %s] %s %s" % (r["note"], r["file"], what))
        finally:
            shutil.rmtree(work, ignore_errors=True)
    return results


def check_c19(ctx):
    from concurrent.futures import ThreadPoolExecutor
    subsets = []
    for ev in (False, True):
        for wi in (False, True):
            for wr in (False, True):
                subsets.append(tuple(f for f, on in (("events", ev), ("wide", wi), ("wrapping", wr)) if on))

    def build_pair(feats):
        return feats, {"chk": build_harness("chk", feats), "rel": build_harness("rel", feats)}

    with ThreadPoolExecutor(max_workers=8) as ex:
        built = dict(ex.map(build_pair, subsets))
    bins = {}
    for feats, pair in built.items():
        for prof, b in pair.items():
            bins["%s:%s" % ("+".join(feats) or "default", prof)] = (feats, b)
    # replays on every build; for a differential replay the traces must agree
    files = sorted(glob.glob(os.path.join(VERIF, "replays", "C19", "*.ops"))) + ([ctx.replay] if ctx.replay else [])
    jobs = [((f, name), [b, "replay", "--prop", "C19", "--intensity", "normal", f]) for f in files for name, (feats, b) in bins.items()]
    rres = run_many(jobs, 900)
    for f in files:
        traces = {}
        for name in bins:
            rc, out = rres[(f, name)]
            if rc == 1:
                for line in out.splitlines():
                    if line.startswith("FAIL "):
                        d = parse_line(line)
                        report_failure(ctx, d.get("sig", "?"), f, "[%s] %s" % (name, d.get("msg", "")))
            elif rc != 0:
                report_failure(ctx, "crash", f, "[%s] replay died with status %s" % (name, rc))
            else:
                m = [l for l in out.splitlines() if l.startswith("PASS ")]
                if m:
                    traces[name] = parse_line(m[0]).get("trace")
        # WWide cases only exist in the wide builds; compare whatever ran. `wrapping_version` is
        # documented to change what happens at a counter overflow, so a history that crosses one
        # legitimately differs between the two classes: compare within each class.
        for cls in (True, False):
            sub = {n: t for n, t in traces.items() if ("wrapping" in n) == cls}
            if len(set(sub.values())) > 1:
                report_failure(ctx, "trace-differs", f, "observable trace differs between configurations: %s" % sub)
    if ctx.replay:
        write_evidence(ctx, "exploration", {"evaluations": len(files) * len(bins), "distinct_nontrivial": 2, "rule": "replay of saved inputs on all 16 builds", "samples": [open(ctx.replay).read()]}, HIST_ASSUMPTIONS)
        return
    shards, cases, maxlen = (2, 350, 100) if ctx.tier == "quick" else (8, sc(5000), 300)
    work = os.path.join(VERIF, ".work", "C19-%d" % os.getpid())
    os.makedirs(work, exist_ok=True)
    jobs = []
    for name, (feats, b) in sorted(bins.items()):
        plan = [("C19", "WMix" if s % 2 == 0 else "WOne", s) for s in range(shards)]
        plan.append(("C19F", "WMix", 300))  # C03's forged-handle oracle holds in every configuration too
        if "wide" in feats:
            plan.append(("C19", "WWide", 100))
        if "wrapping" in feats:
            plan.append(("C19W", "WOne", 200))
            plan.append(("C19W", "WMix", 201))
        for prop_run, world, s in plan:
            seed = ctx.sub_seed("c19", prop_run, world, s)  # the same seed in every configuration
            base = os.path.join(work, "%s-%s-%d" % (name.replace(":", "_").replace("+", "_"), prop_run, s))
            jobs.append(((name, prop_run, world, s, seed), [b, "hist", "--prop", prop_run, "--world", world, "--cases", str(cases), "--len", str(maxlen), "--seed", str(seed), "--traces",
                                                            "--out", base + ".json", "--fail-out", base + ".ops", "--last-case", base + ".last"]))
    res = run_many(jobs, 3600 if ctx.tier == "quick" else 14400)
    # the 2^24 capacity limit behaves the same in every configuration (1-10 s, ~700 MB each)
    bjobs = [((name,), [b, "boundary", "--world", "WOne", "--start", str((1 << 24) - 3), "--fail-out", os.path.join(work, "b-%s.boundary" % name.replace(":", "_").replace("+", "_"))]) for name, (feats, b) in sorted(bins.items())]
    boundary_ok = 0
    for i in range(0, len(bjobs), 8):
        for (name,), (rc, out) in sorted(run_many(bjobs[i:i + 8], 1800).items()):
            if rc == 0:
                boundary_ok += 1
            elif rc in (None, -9, 137):
                raise Inconclusive("capacity-limit scenario on %s was killed / timed out" % name)
            else:
                dst = os.path.join(found_dir("C19"), "capacity-limit-%s.boundary" % name.replace(":", "_").replace("+", "_"))
                with open(dst, "w") as f:
                    f.write("# property C19\n# capacity-limit scenario on build %s: status %s\nworld WOne\nboundary %d\n" % (name, rc, (1 << 24) - 3))
                msg = [parse_line(l).get("msg", "") for l in out.splitlines() if l.startswith("FAIL ")]
                report_failure(ctx, "capacity-limit", dst, "[%s] %s" % (name, (msg[:1] or ["the scenario process died with status %s" % rc])[0]))
    evaluations = 0
    hashes = set()
    labels = {}
    samples = []
    traces = {}  # (prop_run, world, shard, case hash) -> {config: trace}
    collateral = {}
    try:
        for key in sorted(res):
            name, prop_run, world, s, seed = key
            rc, out = res[key]
            base = os.path.join(work, "%s-%s-%d" % (name.replace(":", "_").replace("+", "_"), prop_run, s))
            if rc is None:
                raise Inconclusive("C19 shard %s timed out" % (key,))
            if rc not in (0, 1):
                dst = os.path.join(found_dir("C19"), "crash-%s-%d.ops" % (name.replace(":", "_").replace("+", "_"), seed))
                if os.path.exists(base + ".last"):
                    with open(dst, "w") as f:
                        f.write("# property C19\n# process died with status %s on build %s\n%s" % (rc, name, open(base + ".last").read()))
                    report_failure(ctx, "crash", dst, "[%s] shard died with status %s: %s" % (name, rc, out[-300:]))
                    continue
                raise Inconclusive("C19 shard died with status %s: %s" % (rc, out[-300:]))
            st = json.load(open(base + ".json"))
            evaluations += st["evaluations"]
            for h in st["nontrivial_hashes"]:
                hashes.add((name, h))
            for k, v in st["labels"].items():
                labels[k] = labels.get(k, 0) + v
            for k, v in st["collateral"].items():
                collateral[k] = collateral.get(k, 0) + v
            if len(samples) < 2:
                samples.extend(st["samples"][:1])
            for h, t in st["traces"]:
                traces.setdefault((prop_run, world, s, seed, h), {})[name] = t
            if rc == 1:
                for line in out.splitlines():
                    if line.startswith("FAIL "):
                        d = parse_line(line)
                        dst = os.path.join(found_dir("C19"), "%s-%s-%d.ops" % (d.get("sig", "fail"), name.replace(":", "_").replace("+", "_"), seed))
                        shutil.copyfile(base + ".ops", dst)
                        report_failure(ctx, d.get("sig", "?"), dst, "[%s, %s] %s" % (name, world, d.get("msg", "")))
        # differential: same history, same trace, in every configuration that ran it
        compared = 0
        reported = 0
        for (prop_run, world, s, seed, h), per in sorted(traces.items()):
            if prop_run != "C19":
                continue  # boundary-crossing histories legitimately differ between wrapping and default builds
            compared += 1
            if len(set(per.values())) > 1 and reported < 3:
                reported += 1
                # recover the case text from its hash
                name0 = sorted(per)[0]
                b0 = bins[name0][1]
                dst = os.path.join(found_dir("C19"), "trace-differs-%s.ops" % h)
                subprocess.run([b0, "hist", "--prop", "C19", "--world", world, "--cases", str(cases), "--len", str(maxlen), "--seed", str(seed), "--dump-hash", h, "--dump-out", dst, "--fail-out", os.devnull],
                               cwd=VERIF, stdout=subprocess.DEVNULL, stderr=subprocess.DEVNULL)
                groups = {}
                for n, t in per.items():
                    groups.setdefault(t, []).append(n)
                report_failure(ctx, "trace-differs", dst, "the same history yields different observable traces in different configurations: %s" % {t: sorted(ns) for t, ns in groups.items()})
    finally:
        shutil.rmtree(work, ignore_errors=True)
    progs = c19_feature_programs(ctx)
    feature_programs = {}
    if ctx.tier == "thorough":
        # engine P's generated positive programs behave identically under the feature sets
        import farm
        pg = farm.build_pg()
        for feats in [("events",), ("32_components",), ("wrapping_version",), ("events", "32_components", "wrapping_version")]:
            for prop_p, args in [("C05", ["--programs", "8", "--worlds", "8", "--queries", "8", "--pairs", "20"]), ("C15", ["--programs", "6", "--worlds", "10", "--queries", "2", "--pairs", "16"]),
                                 ("C16", ["--programs", "8", "--worlds", "3", "--queries", "5", "--flags", "3"])]:
                r = run_engine_p(ctx, pg, prop_p, emit_args=args, features=feats)
                feature_programs["%s under %s" % (prop_p, "+".join(feats))] = {k: r[k] for k in ("jobs", "run_ok", "lines_compared", "reject_ok", "accept_ok")}
    cov = {
        "evaluations": evaluations + len(progs),
        "distinct_nontrivial": len(hashes),
        "rule": C19_RULE,
        "samples": samples or ["(no short sample)"],
        "exhaustive": False,
        "configurations": sorted(bins.keys()),
        "capacity_limit_scenarios_passed": boundary_ok,
        "histories_compared_across_configurations": compared,
        "label_histogram": labels,
        "collateral": collateral,
        "feature_delta_programs": [{"id": r["id"], "kind": r["kind"], "status": r["status"]} for r in progs],
        "generated_programs_under_feature_sets": feature_programs,
        "regression_replays": len(files),
    }
    write_evidence(ctx, "exploration", cov, HIST_ASSUMPTIONS + ["the differential compares only what the oracle is lenient about; everything else is already pinned by the model in every configuration"])


def check_c12(ctx):
    bins = {"chk": build_harness("chk"), "rel": build_harness("rel")}
    hbins = dict(bins)
    hbins.update(events_bin())
    extra = [ctx.replay] if ctx.replay and ctx.replay.endswith(".ops") else []
    nfiles, _ = run_replays(ctx, hbins, extra)
    # the 2^24 limit: reached by with_capacity and by growth (decided outside the per-history search:
    # ~1-2 s and ~700 MB per scenario on the zero-sized archetype of WOne)
    starts = [(1 << 24) - 3, 0] if ctx.tier == "quick" else [(1 << 24) - 3, 0, (1 << 24) - 1, 1 << 24, 3 << 22, 1, 5]
    bfiles = sorted(glob.glob(os.path.join(VERIF, "replays", "C12", "*.boundary")))
    if ctx.replay and ctx.replay.endswith(".boundary"):
        bfiles.append(ctx.replay)
    for f in bfiles:
        for line in open(f):
            if line.startswith("boundary "):
                starts.append(int(line.split()[1]))
    work = os.path.join(VERIF, ".work", "C12-b-%d" % os.getpid())
    os.makedirs(work, exist_ok=True)
    jobs = []
    for name, b in sorted(bins.items()):
        if name == "chk" and ctx.tier == "quick":
            use = starts[:1]
        else:
            use = starts
        for st in sorted(set(use)):
            jobs.append(((name, st), [b, "boundary", "--world", "WOne", "--start", str(st), "--fail-out", os.path.join(work, "%s-%d.boundary" % (name, st))]))
    boundary = []
    try:
        # at most 4 at a time: each needs ~700 MB
        for i in range(0, len(jobs), 4):
            for (name, st), (rc, out) in sorted(run_many(jobs[i:i + 4], 1800).items()):
                if rc is None:
                    raise Inconclusive("capacity-limit scenario timed out")
                if rc == 1:
                    for line in out.splitlines():
                        if line.startswith("FAIL "):
                            d = parse_line(line)
                            dst = os.path.join(found_dir("C12"), "capacity-limit-%s-%d.boundary" % (name, st))
                            shutil.copyfile(os.path.join(work, "%s-%d.boundary" % (name, st)), dst)
                            report_failure(ctx, "capacity-limit", dst, "[%s, start capacity %d] %s" % (name, st, d.get("msg", "")))
                elif rc != 0:
                    if rc in (-9, 137):
                        # killed (memory): never a violation
                        raise Inconclusive("capacity-limit scenario was killed (status %s)" % rc)
                    # SIGILL / SIGSEGV / SIGABRT / a Rust panic outside catch_unwind: the scenario itself crashed
                    dst = os.path.join(found_dir("C12"), "capacity-limit-crash-%s-%d.boundary" % (name, st))
                    with open(dst, "w") as f:
                        f.write("# property C12\n# vh-run boundary died with status %s on the %s build\nworld WOne\nboundary %d\n" % (rc, name, st))
                    report_failure(ctx, "capacity-limit-crash", dst, "[%s, start capacity %d] the scenario process died with status %s: %s" % (name, st, rc, out[-300:]))
                else:
                    boundary.append("%s: %s" % (name, [l for l in out.splitlines() if l.startswith("STATS")][0]))
    finally:
        shutil.rmtree(work, ignore_errors=True)
    if ctx.replay:
        write_evidence(ctx, "exploration", {"evaluations": nfiles + len(boundary), "distinct_nontrivial": 2, "rule": "replay of saved inputs only", "samples": [open(ctx.replay).read()]}, HIST_ASSUMPTIONS)
        return
    agg = hist_search(ctx, hbins)
    cov = hist_coverage(ctx, agg, nfiles, rule_of("C12") + "; plus the capacity-limit scenarios: with_capacity(2^24) accepted and 2^24+1 refused; an archetype filled to exactly 16 777 216 entities from the listed starting capacities (by growth and by with_capacity), every create below the limit succeeds with a fresh handle, capacity never exceeds the limit, create_within_capacity refuses and create panics with 'capacity overflow' at the limit, afterwards len/capacity/handles are intact, a freed position is reused, the representation invariant holds", bins)
    cov["evaluations"] += len(boundary)
    cov["capacity_limit_scenarios"] = boundary
    write_evidence(ctx, "exploration", cov, HIST_ASSUMPTIONS)


def check_c08(ctx):
    import farm
    if ctx.replay and os.path.isdir(ctx.replay):
        r = replay_program_dir(ctx, ctx.replay)
        write_evidence(ctx, "exploration", {"evaluations": 1, "distinct_nontrivial": 2, "rule": "replay of one saved program", "samples": [r.get("file", "")]}, PROG_ASSUMPTIONS)
        return
    bins = {"chk": build_harness("chk"), "rel": build_harness("rel")}
    if ctx.replay and ctx.replay.endswith(".boundary"):
        cov = {"evaluations": 0, "distinct_nontrivial": 2, "rule": "replay of the fill-to-the-capacity-limit scenario", "samples": [open(ctx.replay).read()]}
        limit_scenario_part(ctx, bins, cov, ("already issued", "unexpected handle"), "reissue-while-filling-to-the-limit", "fill_to_capacity_limit_scenarios")
        write_evidence(ctx, "exploration", cov, HIST_ASSUMPTIONS)
        return
    extra = [ctx.replay] if ctx.replay else []
    nfiles, _ = run_replays(ctx, bins, extra)
    if ctx.replay:
        write_evidence(ctx, "exploration", {"evaluations": nfiles, "distinct_nontrivial": 2, "rule": "replay of saved inputs only", "samples": [open(ctx.replay).read()]}, HIST_ASSUMPTIONS)
        return
    # real 2^32 - 1 create/destroy cycles on one position, no hook (about 45 s, runs beside the search)
    cyc_out = os.path.join(VERIF, ".work", "C08-cycles-%d" % os.getpid())
    os.makedirs(os.path.dirname(cyc_out), exist_ok=True)
    cyc = subprocess.Popen([bins["rel"], "cycles", "--fail-out", cyc_out + ".cycles"], cwd=VERIF, stdout=subprocess.PIPE, stderr=subprocess.STDOUT, text=True)
    agg = hist_search(ctx, bins)
    try:
        cout = cyc.communicate(timeout=3600)[0]
    except subprocess.TimeoutExpired:
        cyc.kill()
        raise Inconclusive("the 2^32-cycle run exceeded its watchdog")
    if cyc.returncode == 1:
        for line in cout.splitlines():
            if line.startswith("FAIL "):
                d = parse_line(line)
                dst = os.path.join(found_dir("C08"), "real-cycles.cycles")
                shutil.copyfile(cyc_out + ".cycles", dst)
                report_failure(ctx, "real-cycles", dst, "[rel, 2^32 real cycles] %s" % d.get("msg", ""))
    elif cyc.returncode != 0:
        dst = os.path.join(found_dir("C08"), "real-cycles-crash.cycles")
        with open(dst, "w") as f:
            f.write("# vh-run cycles died with status %s\ncycles\n" % cyc.returncode)
        report_failure(ctx, "crash", dst, "[rel] the 2^32-cycle run died with status %s: %s" % (cyc.returncode, cout[-300:]))
    if os.path.exists(cyc_out + ".cycles"):
        os.remove(cyc_out + ".cycles")
    # "not across archetypes" also rests on ecs_world! refusing two archetypes with one id
    pg = farm.build_pg()
    p = run_engine_p(ctx, pg, "C08", emit_args=["--pairs", "24" if ctx.tier == "quick" else "200"])
    cov = hist_coverage(ctx, agg, nfiles, rule_of("C08") + "; in addition generated ecs_world! declarations in which two archetypes would share an id (explicitly or through an implicit successor) must be rejected by the compiler while their id-free twins compile", bins)
    cov["evaluations"] += p["jobs"]
    cov["distinct_nontrivial"] += p["pairs_ok"]
    cov["archetype_id_collision_programs"] = {k: v for k, v in p.items() if k != "samples"}
    cov["real_cycles_without_hook"] = [l for l in cout.splitlines() if l.startswith("STATS")]
    cov["evaluations"] += 1
    # every one of the 2^24 creations that fill an archetype to the limit returns a position not
    # handed out before (growth clamped at the limit included)
    limit_scenario_part(ctx, bins, cov, ("already issued", "unexpected handle"), "reissue-while-filling-to-the-limit", "fill_to_capacity_limit_scenarios")
    write_evidence(ctx, "exploration", cov, HIST_ASSUMPTIONS + ["rustc for the declaration-level part"])


HANDLERS = {"C07": check_c07, "C19": check_c19, "C12": check_c12, "C08": check_c08, "C17": check_c17, "C14": check_c14, "C03": check_c03, "C10": check_c10, "C11": check_c11, "C05": check_program_prop, "C15": check_program_prop, "C16": check_program_prop, "C18": check_program_prop}
for _p in ("C02", "C06", "C09"):
    HANDLERS[_p] = check_history
for _p in ("C01", "C04", "C13"):
    HANDLERS[_p] = check_history_fuzz
