"""Per-property check handlers."""
import glob
import json
import os
import shutil

from vcommon import (VERIF, Inconclusive, build_harness, found_dir, parse_line, properties, report_failure,
                     run_many, write_evidence)

# ----------------------------------------------------------------------------------------------
# Engine H: generated histories against the reference model
# ----------------------------------------------------------------------------------------------

HIST_BUDGET = {
    # tier: (shards per profile, cases per shard, max history length, watchdog seconds)
    "quick": (8, 1200, 120, 900),
    "thorough": (16, 12000, 400, 7200),
}

HIST_ASSUMPTIONS = [
    "reference model and oracles in /verif/harness/src (written from the documentation, free of gecs code)",
    "proptest 1.11 generators seeded from VERIF_SEED; rustc/cargo",
    "read-only dump hook (cfg gecs_verif) for the representation-invariant oracle only",
    "iteration order and the capacity growth formula are not asserted (unspecified)",
]


def hist_worlds(prop, features):
    worlds = ["WMix", "WMix", "WMix", "WOne"]
    if "wide" in features:
        worlds = ["WMix", "WWide", "WMix", "WOne"]
    return worlds


def run_replays(ctx, bins, extra_files=()):
    """Replays the committed regression inputs of the property on every binary."""
    files = sorted(glob.glob(os.path.join(VERIF, "replays", ctx.prop, "*.ops"))) + list(extra_files)
    jobs = []
    for f in files:
        for name, b in bins.items():
            jobs.append(((f, name), [b, "replay", "--prop", ctx.prop, f]))
    res = run_many(jobs, 600)
    n = 0
    for (f, name), (rc, out) in sorted(res.items()):
        n += 1
        if rc == 0:
            continue
        if rc == 1:
            for line in out.splitlines():
                if line.startswith("FAIL "):
                    d = parse_line(line)
                    report_failure(ctx, d.get("sig", "?"), f, "[%s] %s" % (name, d.get("msg", "")))
        elif rc is None:
            raise Inconclusive("replay of %s timed out" % f)
        else:
            # a crash while replaying a committed input
            report_failure(ctx, "crash", f, "[%s] process died with status %s while replaying: %s" % (name, rc, out[-500:]))
    return len(files), n


def hist_search(ctx, bins, features=(), traces=False, budget=None, prop_for_run=None):
    """Runs the sharded generated search on every binary. Returns aggregated statistics."""
    shards, cases, maxlen, watchdog = budget or HIST_BUDGET[ctx.tier]
    prop_run = prop_for_run or ctx.prop
    work = os.path.join(VERIF, ".work", "%s-%d" % (ctx.prop, os.getpid()))
    os.makedirs(work, exist_ok=True)
    worlds = hist_worlds(ctx.prop, features)
    jobs = []
    for name, b in sorted(bins.items()):
        for s in range(shards):
            world = worlds[s % len(worlds)]
            seed = ctx.sub_seed(name, s)
            base = os.path.join(work, "%s-%d" % (name, s))
            argv = [b, "hist", "--prop", prop_run, "--world", world, "--cases", str(cases), "--len", str(maxlen), "--seed", str(seed),
                    "--out", base + ".json", "--fail-out", base + ".ops", "--last-case", base + ".last"]
            if traces:
                argv.append("--traces")
            jobs.append(((name, s, world, seed), argv))
    res = run_many(jobs, watchdog)
    agg = {"evaluations": 0, "ops_run": 0, "hashes": set(), "labels": {}, "counters": {}, "collateral": {}, "samples": [], "shards": 0,
           "traces": {}, "per_bin": {}}
    try:
        for key in sorted(res.keys()):
            name, s, world, seed = key
            rc, out = res[key]
            base = os.path.join(work, "%s-%d" % (name, s))
            if rc is None:
                raise Inconclusive("shard %s/%d exceeded the watchdog of %ds" % (name, s, watchdog))
            if rc not in (0, 1):
                # crash (signal / abort): the case being executed is in the .last file
                dst = os.path.join(found_dir(ctx.prop), "crash-%s-%d-%d.ops" % (name, s, seed))
                if os.path.exists(base + ".last"):
                    with open(base + ".last") as f:
                        text = f.read()
                    with open(dst, "w") as f:
                        f.write("# property %s\n# process died with status %s while running this case on the %s build\n%s" % (ctx.prop, rc, name, text))
                    report_failure(ctx, "crash", dst, "[%s] shard %d died with status %s; output tail: %s" % (name, s, rc, out[-400:]))
                    continue
                raise Inconclusive("shard %s/%d died with status %s before running a case: %s" % (name, s, rc, out[-400:]))
            if os.path.exists(base + ".json"):
                with open(base + ".json") as f:
                    st = json.load(f)
                agg["shards"] += 1
                agg["evaluations"] += st["evaluations"]
                agg["ops_run"] += st["ops_run"]
                agg["hashes"].update(st["nontrivial_hashes"])
                pb = agg["per_bin"].setdefault(name, {"evaluations": 0, "nontrivial": 0})
                pb["evaluations"] += st["evaluations"]
                pb["nontrivial"] += len(st["nontrivial_hashes"])
                for k, v in st["labels"].items():
                    agg["labels"][k] = agg["labels"].get(k, 0) + v
                for k, v in st["counters"].items():
                    agg["counters"][k] = agg["counters"].get(k, 0) + v
                for k, v in st["collateral"].items():
                    agg["collateral"][k] = agg["collateral"].get(k, 0) + v
                if len(agg["samples"]) < 3:
                    agg["samples"].extend(st["samples"][: 3 - len(agg["samples"])])
                if traces:
                    for h, t in st["traces"]:
                        agg["traces"].setdefault((s, h), {})[name] = t
            if rc == 1:
                for line in out.splitlines():
                    if line.startswith("FAIL "):
                        d = parse_line(line)
                        dst = os.path.join(found_dir(ctx.prop), "%s-%s-%d.ops" % (d.get("sig", "fail"), name, seed))
                        shutil.copyfile(base + ".ops", dst)
                        report_failure(ctx, d.get("sig", "?"), dst, "[%s, %s] %s" % (name, world, d.get("msg", "")))
    finally:
        shutil.rmtree(work, ignore_errors=True)
    return agg


def hist_coverage(ctx, agg, nreplays, rule, bins):
    ev = agg["evaluations"]
    labels = {k: {"cases": v, "fraction": round(v / ev, 4) if ev else 0} for k, v in sorted(agg["labels"].items())}
    return {
        "evaluations": ev,
        "distinct_nontrivial": len(agg["hashes"]),
        "rule": rule,
        "samples": agg["samples"] if agg["samples"] else ["(no non-trivial case short enough to quote)"],
        "exhaustive": False,
        "ops_executed": agg["ops_run"],
        "label_histogram": labels,
        "operation_counters": agg["counters"],
        "collateral": agg["collateral"],
        "builds": sorted(bins.keys()),
        "per_build": agg["per_bin"],
        "shards": agg["shards"],
        "regression_replays": nreplays,
    }


def rule_of(prop):
    # the rule text lives next to the generator profile in the harness; keep a copy for evidence
    return HIST_RULES[prop]


HIST_RULES = {
    "C01": "histories over WMix (6 archetypes, 1..16 columns) and WOne from a churn-biased op mix (create / create_within_capacity / refill / destroy by all four key kinds at both levels aimed at any handle ever issued / ecs_iter_destroy! / clone / drop), every issued handle probed after every step through contains, to_direct, resolve, view, borrow, ecs_find!, ecs_find_borrow! with typed and dynamic keys; non-trivial = the history probes at least one stale handle whose slot is occupied by a later entity; distinct = hash of the decoded op list",
    "C02": "histories with writes through every mutable path (ecs_find!, ecs_find_borrow!, view fields, component_mut, borrow component_mut, get_slice_mut, borrow_slice_mut, get_all_slices_mut, iter_mut, ecs_iter!, ecs_iter_borrow!), every live entity read back through every read path after every step; non-trivial = a non-last entity was swap-removed from an archetype with >= 2 columns, or the storage grew with live entities, or a write through one path was read back through the others; distinct = hash of the decoded op list",
    "C04": "histories over drop-instrumented archetypes (registry of live value ids, zero-sized tracked type counted) incl. failing create_within_capacity, typed and dynamic destroy, ecs_iter_destroy!, growth, clone, world drop at arbitrary points; non-trivial = a tracked value was removed from a non-last position, or a clone was taken with live tracked values, or a world was dropped with live tracked values after churn; distinct = hash of the decoded op list",
    "C06": "histories with iteration through ecs_iter!/ecs_iter_borrow! (typed, dynamic, wildcard entity parameters; single archetype and cross-archetype queries incl. OneOf), Archetype::iter/iter_mut, entities(), get_slice(_mut), borrow_slice(_mut), get_all_slices_mut, with Break at generated positions; non-trivial = an iteration over >= 3 entities after a non-last removal, or a Break strictly inside a multi-archetype query; distinct = hash of the decoded op list",
    "C07": "histories with ecs_iter_destroy! loops (four parameter variants, single- and cross-archetype queries) driven by generated decision tables (2 bits per visit); non-trivial = a loop over >= 3 entities whose decisions contain a destroy followed by a keep, or a BreakDestroy; distinct = hash of the decoded op list",
    "C08": "histories with heavy slot recycling, optionally starting from generations preset (hook) next to u32::MAX with a consistent archetype version; every handle returned by any create path is checked against all handles the world lineage issued before; non-trivial = some slot was reused >= 3 times or the history crossed the overflow boundary; distinct = hash of the decoded op list",
    "C09": "histories minting direct handles through to_direct (all key kinds, both levels) and EntityDirect parameters of all five query macros, using them later through every lookup path and destroy; non-trivial = a direct handle used after >= 1 removal and a later creation in its archetype, or a handle minted inside a query closure and used after the query; distinct = hash of the decoded op list",
    "C12": "histories from all header capacities (new/default/with_capacity) with create_within_capacity and refills to capacity; non-trivial = a refill to capacity after >= 2 removals at distinct positions or after growth that followed churn; distinct = hash of the decoded op list",
    "C13": "histories with clones at arbitrary points followed by ops addressed to either world, refills on both, clones of clones, drops in either order; non-trivial = a clone taken with a free slot in the middle of the slot array in which >= 2 entities were created afterwards, or original and clone diverged by >= 3 ops each; distinct = hash of the decoded op list",
}


def check_history(ctx, features=(), level="exploration"):
    bins = {"chk": build_harness("chk", features), "rel": build_harness("rel", features)}
    extra = [ctx.replay] if ctx.replay else []
    nfiles, _ = run_replays(ctx, bins, extra)
    if ctx.replay:
        agg = {"evaluations": nfiles, "ops_run": 0, "hashes": set(), "labels": {}, "counters": {}, "collateral": {}, "samples": [open(ctx.replay).read()],
               "shards": 0, "traces": {}, "per_bin": {}}
        # replay mode: evidence describes the replay only
        cov = hist_coverage(ctx, agg, nfiles, "replay of saved inputs only (no generation)", bins)
        cov["distinct_nontrivial"] = max(2, nfiles)
        cov["explanation"] = "replay mode"
        write_evidence(ctx, level, cov, HIST_ASSUMPTIONS)
        return
    agg = hist_search(ctx, bins, features)
    write_evidence(ctx, level, hist_coverage(ctx, agg, nfiles, rule_of(ctx.prop), bins), HIST_ASSUMPTIONS)


HANDLERS = {}
for _p in ("C01", "C02", "C04", "C06", "C07", "C08", "C09", "C12", "C13"):
    HANDLERS[_p] = check_history
