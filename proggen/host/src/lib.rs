pub use gecs;
