//! pg: engines M and P for the compile-time properties (C05 C15 C16 C18).
//!
//!   pg m --prop C05 --cases N --seed S [--out stats.json] [--fail-out case.txt]
//!   pg m-replay --prop C05 case.txt
//!   pg emit ...            (engine P: see emit.rs)
//!
//! Exit: 0 held, 1 violation (FAIL line), 2 tool problem (the shape of the macro output could
//! not be interpreted: inconclusive), 3 usage.

#[path = "/repo/macros/src/data.rs"]
pub mod data;
#[path = "/repo/macros/src/generate/mod.rs"]
pub mod generate;
#[path = "/repo/macros/src/parse/mod.rs"]
pub mod parse;

pub mod emit;
pub mod gen;
pub mod mcheck;
pub mod neg18;
pub mod refsem;

use std::cell::RefCell;
use std::collections::{BTreeMap, BTreeSet, HashMap};

use proptest::test_runner::{Config, RngAlgorithm, RngSeed, TestCaseError, TestError, TestRng, TestRunner};

use gen::GenCfg;
use mcheck::MErr;
use refsem::*;

pub fn mix(mut z: u64) -> u64 {
    z = z.wrapping_add(0x9E3779B97F4A7C15);
    z = (z ^ (z >> 30)).wrapping_mul(0xBF58476D1CE4E5B9);
    z = (z ^ (z >> 27)).wrapping_mul(0x94D049BB133111EB);
    z ^ (z >> 31)
}

pub fn fnv(bytes: &[u8]) -> u64 {
    let mut h: u64 = 0xcbf29ce484222325;
    for b in bytes {
        h ^= *b as u64;
        h = h.wrapping_mul(0x100000001b3);
    }
    h
}

pub fn seeded(cases: u32, seed: u64) -> TestRunner {
    let mut bytes = [0u8; 32];
    let mut z = seed;
    for chunk in bytes.chunks_mut(8) {
        z = mix(z);
        chunk.copy_from_slice(&z.to_le_bytes());
    }
    let cfg = Config { cases, failure_persistence: None, max_shrink_iters: 3000, rng_seed: RngSeed::Fixed(seed), ..Config::default() };
    TestRunner::new_with_rng(cfg, TestRng::from_seed(RngAlgorithm::ChaCha, &bytes))
}

pub fn json_str(s: &str) -> String {
    let mut o = String::from("\"");
    for c in s.chars() {
        match c {
            '"' => o.push_str("\\\""),
            '\\' => o.push_str("\\\\"),
            '\n' => o.push_str("\\n"),
            '\t' => o.push_str("\\t"),
            c if (c as u32) < 0x20 => o.push_str(&format!("\\u{:04x}", c as u32)),
            c => o.push(c),
        }
    }
    o.push('"');
    o
}

pub fn gencfg(prop: &str) -> GenCfg {
    match prop {
        "C15" => GenCfg { max_archs: 12, max_comps: 10, pool_used: 10, ids: 2, flags: 2, lits: true },
        "C16" => GenCfg { max_archs: 5, max_comps: 5, pool_used: 7, ids: 1, flags: 4, lits: true },
        "C18" => GenCfg { max_archs: 5, max_comps: 6, pool_used: 7, ids: 1, flags: 2, lits: true },
        _ => GenCfg { max_archs: 6, max_comps: 5, pool_used: 7, ids: 1, flags: 0, lits: false },
    }
}

#[derive(Default)]
pub struct MStats {
    pub cases: u64,
    pub world_checks: u64,
    pub query_checks: u64,
    pub expansions_scanned: u64,
    pub nontrivial: BTreeSet<u64>,
    pub labels: BTreeMap<&'static str, u64>,
    pub samples: Vec<String>,
    pub excluded: u64,
    pub frozen: bool,
}

impl MStats {
    fn bump(&mut self, l: &'static str) {
        *self.labels.entry(l).or_insert(0) += 1;
    }
    pub fn to_json(&self) -> String {
        format!(
            "{{\"cases\":{},\"world_checks\":{},\"query_checks\":{},\"expansions_scanned\":{},\"excluded\":{},\"nontrivial_hashes\":[{}],\"labels\":{{{}}},\"samples\":[{}]}}",
            self.cases,
            self.world_checks,
            self.query_checks,
            self.expansions_scanned,
            self.excluded,
            self.nontrivial.iter().map(|h| format!("\"{:016x}\"", h)).collect::<Vec<_>>().join(","),
            self.labels.iter().map(|(k, v)| format!("\"{}\":{}", k, v)).collect::<Vec<_>>().join(","),
            self.samples.iter().map(|s| json_str(s)).collect::<Vec<_>>().join(",")
        )
    }
}

/// Runs every engine-M oracle on one case under one flag assignment.
/// Returns Err on the first disagreement.
pub fn check_case_m(case: &PCase, flags: u32, prop: &str, st: &mut MStats) -> Result<(), MErr> {
    let count = !st.frozen;
    let dw = mcheck::check_world(&case.world, flags)?;
    if count {
        st.world_checks += 1;
        st.expansions_scanned += 1;
    }
    let rw = match case.world.resolve(flags) {
        Ok(rw) => rw,
        Err(IdError::Degenerate) => {
            if count {
                st.excluded += 1;
            }
            return Ok(());
        }
        Err(e) => {
            if count {
                st.bump("declaration_rejected");
                if prop == "C15" {
                    let h = fnv(format!("{}|{:?}", case.world.body_text(), e).as_bytes());
                    if st.nontrivial.insert(h) && st.samples.len() < 3 {
                        st.samples.push(format!("{}=> {:?}", case.world.body_text(), e));
                    }
                }
            }
            return Ok(());
        }
    };
    let dw = dw.ok_or_else(|| MErr::Tool("world accepted by the reference but no DataWorld".into()))?;
    // C15 non-triviality of an accepted declaration
    if count && prop == "C15" {
        let mut nt = false;
        let live: Vec<&ArchDecl> = case.world.archs.iter().filter(|a| enabled(&a.cfgs, flags)).collect();
        for (i, a) in live.iter().enumerate() {
            if i > 0 && a.id.is_some() && live.get(i + 1).map(|n| n.id.is_none()).unwrap_or(false) {
                nt = true;
            }
            let lc: Vec<&CompDecl> = a.comps.iter().filter(|c| enabled(&c.cfgs, flags)).collect();
            for (j, c) in lc.iter().enumerate() {
                if j > 0 && c.id.is_some() && lc.get(j + 1).map(|n| n.id.is_none()).unwrap_or(false) {
                    nt = true;
                }
            }
        }
        // a disabled item directly before an implicit one
        for w in case.world.archs.windows(2) {
            if !enabled(&w[0].cfgs, flags) && enabled(&w[1].cfgs, flags) && w[1].id.is_none() {
                nt = true;
                st.bump("disabled_before_implicit");
            }
        }
        if nt {
            let h = fnv(format!("{}|{}", case.world.body_text(), flags).as_bytes());
            if st.nontrivial.insert(h) && st.samples.len() < 3 {
                st.samples.push(format!("{}=> {}", case.world.body_text(), rw.archs.iter().map(|a| format!("{}={}", a.name, a.id)).collect::<Vec<_>>().join(" ")));
            }
        }
    }
    for q in &case.queries {
        let want = q.matches(&rw, flags);
        if let Ok(m) = &want {
            if q.self_aliasing(m) {
                // C18 negative, never a C05 positive (soundness decision 6); the macro still expands it
            }
        }
        let r = mcheck::check_query(&dw, &rw, q, flags)?;
        if count {
            st.query_checks += 1;
            match &want {
                Err(QError::NoMatch) => st.bump("query_no_match"),
                Err(QError::Ambiguous { .. }) => st.bump("query_ambiguous"),
                Err(QError::CfgOnOneOf) => st.bump("query_cfg_on_oneof"),
                Err(QError::MutEntity) => st.bump("query_mut_entity"),
                Ok(_) => {
                    st.bump("query_matches");
                    st.expansions_scanned += 1;
                }
            }
            let key = format!("{}|{}|{}|{}", case.world.body_text(), q.kind.macro_name(), q.params_text(), flags);
            let nt = match prop {
                "C05" => {
                    let overlapping = rw.archs.len() >= 2 && rw.archs.iter().enumerate().any(|(i, a)| rw.archs.iter().skip(i + 1).any(|b| a.comps.iter().any(|c| b.comps.iter().any(|d| c.name == d.name))));
                    let rich = q.params.len() >= 2 || q.params.iter().any(|p| matches!(p.ty, ParamTy::OneOf(_)));
                    overlapping && rich && r.map(|n| n > 0 && n < rw.archs.len()).unwrap_or(false)
                }
                "C16" => {
                    let mut preds: BTreeSet<String> = case.world.predicates().iter().map(|p| p.text()).collect();
                    preds.extend(q.predicates().iter().map(|p| p.text()));
                    let truths: BTreeSet<bool> = case.world.predicates().iter().chain(q.predicates().iter()).map(|p| p.eval(flags)).collect();
                    let named: BTreeSet<String> = q.params.iter().flat_map(|p| match &p.ty {
                        ParamTy::Comp(c) => vec![c.clone()],
                        ParamTy::OneOf(v) => v.clone(),
                        _ => vec![],
                    }).collect();
                    let on_named = case.world.archs.iter().any(|a| a.comps.iter().any(|c| !c.cfgs.is_empty() && named.contains(&c.name)));
                    preds.len() >= 2 && truths.len() == 2 && (!q.predicates().is_empty() || on_named)
                }
                "C18" => r.is_some(),
                _ => false,
            };
            if nt {
                let h = fnv(key.as_bytes());
                if st.nontrivial.insert(h) && st.samples.len() < 3 {
                    st.samples.push(format!("{}{}!(world, {}) flags={:#b} => {}", case.world.body_text(), q.kind.macro_name(), q.params_text(), flags, match &want {
                        Ok(m) => format!("matches {}", m.iter().map(|x| x.0.clone()).collect::<Vec<_>>().join(",")),
                        Err(e) => format!("{:?}", e),
                    }));
                }
            }
        }
    }
    // C16 metamorphic relation: the reduced program behaves identically (reference self-check
    // plus the macro on the reduced program)
    if prop == "C16" {
        let reduced = PCase { world: case.world.reduce(flags), queries: case.queries.iter().filter(|q| !q.params.iter().any(|p| matches!(p.ty, ParamTy::OneOf(_)) && !p.cfgs.is_empty())).map(|q| q.reduce(flags)).collect() };
        let dw2 = mcheck::check_world(&reduced.world, 0)?.ok_or_else(|| MErr::Tool("reduced world rejected".into()))?;
        if format!("{:?}", dw2) != format!("{:?}", dw) {
            return Err(MErr::Violation { tags: vec!["C16"], msg: format!("under flags {:#b} the declaration resolves differently from the same declaration with disabled items deleted:\n{}vs\n{}", flags, case.world.body_text(), reduced.world.body_text()) });
        }
        let rw2 = reduced.world.resolve(0).map_err(|e| MErr::Tool(format!("reduced world: {:?}", e)))?;
        for q in &reduced.queries {
            mcheck::check_query(&dw2, &rw2, q, 0)?;
            if count {
                st.query_checks += 1;
            }
        }
    }
    Ok(())
}

fn all_flags(case: &PCase) -> Vec<u32> {
    let n = case.nflags();
    (0..(1u32 << n)).collect()
}

fn run_m(prop: &str, cases: u32, seed: u64, nq: usize) -> (MStats, Option<(PCase, u32, MErr)>) {
    let g = gencfg(prop);
    let strategy = gen::case_strategy(g, nq, "WorldM".to_string());
    let mut runner = seeded(cases, seed);
    let st = RefCell::new(MStats::default());
    let tool_err: RefCell<Option<(PCase, u32, MErr)>> = RefCell::new(None);
    let prop_s: &'static str = Box::leak(prop.to_string().into_boxed_str());
    let result = runner.run(&strategy, |(world, queries)| {
        let case = PCase { world, queries };
        let mut s = st.borrow_mut();
        if !s.frozen {
            s.cases += 1;
        }
        for flags in all_flags(&case) {
            match check_case_m(&case, flags, prop_s, &mut s) {
                Ok(()) => {}
                Err(MErr::Violation { tags, msg }) => {
                    if tags.contains(&prop_s) {
                        s.frozen = true;
                        return Err(TestCaseError::fail(msg));
                    }
                    s.bump("collateral");
                }
                Err(MErr::Tool(m)) => {
                    if tool_err.borrow().is_none() {
                        *tool_err.borrow_mut() = Some((case.clone(), flags, MErr::Tool(m)));
                    }
                }
            }
        }
        Ok(())
    });
    let mut failure = None;
    if let Err(TestError::Fail(_, (world, queries))) = result {
        let case = PCase { world, queries };
        let mut dummy = MStats { frozen: true, ..Default::default() };
        for flags in all_flags(&case) {
            if let Err(e @ MErr::Violation { .. }) = check_case_m(&case, flags, prop_s, &mut dummy) {
                failure = Some((case.clone(), flags, e));
                break;
            }
        }
        if failure.is_none() {
            failure = Some((case, 0, MErr::Violation { tags: vec![prop_s], msg: "shrunk case no longer fails".into() }));
        }
    } else if let Some(t) = tool_err.into_inner() {
        failure = Some(t);
    }
    (st.into_inner(), failure)
}

fn arg_map(args: &[String]) -> (HashMap<String, String>, Vec<String>) {
    let mut m = HashMap::new();
    let mut pos = Vec::new();
    let mut i = 0;
    while i < args.len() {
        if let Some(k) = args[i].strip_prefix("--") {
            if i + 1 < args.len() && !args[i + 1].starts_with("--") {
                m.insert(k.to_string(), args[i + 1].clone());
                i += 2;
            } else {
                m.insert(k.to_string(), "1".to_string());
                i += 1;
            }
        } else {
            pos.push(args[i].clone());
            i += 1;
        }
    }
    (m, pos)
}

fn one_line(s: &str) -> String {
    s.replace('\n', " ")
}

fn main() {
    std::panic::set_hook(Box::new(|_| {}));
    let args: Vec<String> = std::env::args().skip(1).collect();
    if args.is_empty() {
        eprintln!("usage: pg m|m-replay|emit ...");
        std::process::exit(3);
    }
    let (m, pos) = arg_map(&args[1..]);
    let code = match args[0].as_str() {
        "m" => {
            let prop = m.get("prop").cloned().unwrap_or_else(|| "C05".into());
            let cases: u32 = m.get("cases").map(|s| s.parse().unwrap()).unwrap_or(1000);
            let seed: u64 = m.get("seed").map(|s| s.parse().unwrap()).unwrap_or(1);
            let nq: usize = m.get("queries").map(|s| s.parse().unwrap()).unwrap_or(4);
            let (st, failure) = run_m(&prop, cases, seed, nq);
            if let Some(out) = m.get("out") {
                std::fs::write(out, st.to_json()).expect("write stats");
            }
            println!("STATS prop={} cases={} world_checks={} query_checks={} scanned={} nontrivial={}", prop, st.cases, st.world_checks, st.query_checks, st.expansions_scanned, st.nontrivial.len());
            match failure {
                None => 0,
                Some((case, flags, e)) => {
                    let path = m.get("fail-out").cloned().unwrap_or_else(|| format!("fail-{}.pcase", prop));
                    let (code, kind, msg) = match &e {
                        MErr::Violation { msg, .. } => (1, "FAIL", msg.clone()),
                        MErr::Tool(msg) => (2, "TOOL", msg.clone()),
                    };
                    std::fs::write(&path, format!("# property {}\n# {}\nflags {}\n{}", prop, one_line(&msg), flags, case.to_text())).expect("write replay");
                    println!("{} prop={} sig=engine-m tags={} step=0 replay={} msg={}", kind, prop, prop, path, one_line(&msg));
                    code
                }
            }
        }
        "m-replay" => {
            let prop = m.get("prop").cloned().unwrap_or_else(|| "C05".into());
            let path = pos.first().expect("case file");
            let text = std::fs::read_to_string(path).expect("read case");
            match PCase::from_text(&text) {
                Err(e) => {
                    eprintln!("cannot parse {}: {}", path, e);
                    3
                }
                Ok(case) => {
                    let prop_s: &'static str = Box::leak(prop.clone().into_boxed_str());
                    let mut st = MStats::default();
                    let mut code = 0;
                    for flags in all_flags(&case) {
                        match check_case_m(&case, flags, prop_s, &mut st) {
                            Ok(()) => {}
                            Err(MErr::Violation { tags, msg }) => {
                                if tags.contains(&prop_s) {
                                    println!("FAIL prop={} sig=engine-m tags={} step=0 replay={} msg={}", prop, tags.join("+"), path, one_line(&msg));
                                    code = 1;
                                    break;
                                }
                            }
                            Err(MErr::Tool(msg)) => {
                                println!("TOOL prop={} msg={}", prop, one_line(&msg));
                                code = 2;
                                break;
                            }
                        }
                    }
                    if code == 0 {
                        println!("PASS prop={} replay={}", prop, path);
                    }
                    code
                }
            }
        }
        "emit" => emit::main_emit(&m),
        _ => 3,
    };
    std::process::exit(code);
}
