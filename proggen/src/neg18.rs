//! C18(b): grammar of minimal unsound client programs, each paired with a sound twin.
//!
//!   program := prelude ; holder-acquire ; [twin: holder-use] ; structural-change ; [negative: holder-use]
//!
//! plus the families: two mutable accesses in one query, `&mut` entity parameters, Send / Sync
//! of worlds and handles, references smuggled out of query closures, structural change inside a
//! query.

use crate::emit::{Job, Out};

const BORROW_FAMILY: &str = "E0499|E0502|E0503|E0505|E0506|E0521|E0597|E0713|E0716|E0382|E0501";

struct Holder {
    name: &'static str,
    /// statements that acquire the holder `h`
    acquire: &'static str,
    /// expression statement that uses it
    use_it: &'static str,
    /// whether the holder borrows mutably (clone is then a structural conflict too)
    mutable: bool,
}

const HOLDERS: &[Holder] = &[
    Holder { name: "view_component", acquire: "let v = world.view(e0).unwrap(); let h = v.component::<CompA>();", use_it: "use_it(h);", mutable: true },
    Holder { name: "view_component_mut", acquire: "let mut v = world.arch_foo.view(e0).unwrap(); let h = v.component_mut::<CompB>();", use_it: "h.0 += 1;", mutable: true },
    Holder { name: "view_field", acquire: "let v = world.arch_foo.view(e0).unwrap(); let h = &*v.comp_a;", use_it: "use_it(h);", mutable: true },
    Holder { name: "view_entity_field", acquire: "let v = world.view(e0).unwrap(); let h = v.entity;", use_it: "use_it(h);", mutable: true },
    Holder { name: "borrow_component", acquire: "let b = world.borrow(e0).unwrap(); let h = b.component::<CompA>();", use_it: "use_it(&*h);", mutable: false },
    Holder { name: "borrow_component_mut", acquire: "let b = world.arch_foo.borrow(e0).unwrap(); let mut h = b.component_mut::<CompB>();", use_it: "h.0 += 1;", mutable: false },
    Holder { name: "borrow_entity", acquire: "let b = world.arch_foo.borrow(e0).unwrap(); let h = b.entity();", use_it: "use_it(h);", mutable: false },
    Holder { name: "iter_item", acquire: "let mut it = world.arch_foo.iter(); let h = it.next().unwrap();", use_it: "use_it(h.1);", mutable: true },
    Holder { name: "iter_mut_item", acquire: "let mut it = world.archetype_mut::<ArchFoo>().iter_mut(); let h = it.next().unwrap();", use_it: "h.2 .0 += 1;", mutable: true },
    Holder { name: "iterator_itself", acquire: "let mut h = world.arch_foo.iter();", use_it: "let _ = h.next();", mutable: true },
    Holder { name: "get_slice", acquire: "let h = world.arch_foo.get_slice::<CompA>();", use_it: "use_it(&h[0]);", mutable: true },
    Holder { name: "get_slice_mut", acquire: "let h = world.archetype_mut::<ArchFoo>().get_slice_mut::<CompB>();", use_it: "h[0].0 += 1;", mutable: true },
    Holder { name: "borrow_slice", acquire: "let h = world.arch_foo.borrow_slice::<CompA>();", use_it: "use_it(&h[0]);", mutable: false },
    Holder { name: "borrow_slice_mut", acquire: "let mut h = world.archetype::<ArchFoo>().borrow_slice_mut::<CompB>();", use_it: "h[0].0 += 1;", mutable: false },
    Holder { name: "get_all_slices_mut", acquire: "let h = world.arch_foo.get_all_slices_mut();", use_it: "h.comp_a[0].0 += 1;", mutable: true },
    Holder { name: "all_slices_entity", acquire: "let s = world.arch_foo.get_all_slices_mut(); let h = &s.entity[0];", use_it: "use_it(h);", mutable: true },
    Holder { name: "entities", acquire: "let h = world.arch_foo.entities();", use_it: "use_it(&h[0]);", mutable: false },
    Holder { name: "entities_ref_into_any", acquire: "let h: &EntityAny = (&world.arch_foo.entities()[0]).into();", use_it: "use_it(h);", mutable: false },
    Holder { name: "view_entity_ref_into_any", acquire: "let v = world.arch_foo.view(e0).unwrap(); let h: &EntityAny = v.entity.into();", use_it: "use_it(h);", mutable: true },
    Holder { name: "iter_entity_ref_into_any", acquire: "let mut it = world.arch_foo.iter(); let h: &EntityAny = it.next().unwrap().0.into();", use_it: "use_it(h);", mutable: true },
    Holder { name: "borrow_entity_ref_into_any", acquire: "let b = world.borrow(e0).unwrap(); let h: &EntityAny = b.entity().into();", use_it: "use_it(h);", mutable: false },
    Holder { name: "archetype_ref", acquire: "let h = world.archetype::<ArchFoo>();", use_it: "use_it(&h.len());", mutable: false },
    Holder { name: "archetype_mut_ref", acquire: "let h = world.archetype_mut::<ArchFoo>();", use_it: "use_it(&h.len());", mutable: true },
    Holder { name: "view_struct", acquire: "let h = world.view(e0).unwrap();", use_it: "use_it(&h.index());", mutable: true },
    Holder { name: "arch_view_struct_direct_key", acquire: "let h = world.arch_foo.view(d1).unwrap();", use_it: "use_it(&*h.comp_b);", mutable: true },
    Holder { name: "borrow_struct", acquire: "let h = world.borrow(e0).unwrap();", use_it: "use_it(&h.index());", mutable: false },
    Holder { name: "arch_borrow_struct_any_key", acquire: "let h = world.archetype::<ArchFoo>().borrow(e0.into_any()).unwrap();", use_it: "use_it(h.entity());", mutable: false },
    Holder { name: "components_of_view_via_trait", acquire: "let mut v = world.view(e0).unwrap(); let h = View::component_mut::<CompA>(&mut v);", use_it: "h.0 += 1;", mutable: true },
];

struct Change {
    name: &'static str,
    stmt: &'static str,
    /// only a conflict for holders that borrow mutably
    needs_mutable_holder: bool,
}

const CHANGES: &[Change] = &[
    Change { name: "world_create", stmt: "world.create::<ArchFoo>((CompA(9), CompB(9)));", needs_mutable_holder: false },
    Change { name: "arch_create", stmt: "world.arch_foo.create((CompA(9), CompB(9)));", needs_mutable_holder: false },
    Change { name: "world_create_within_capacity", stmt: "let _ = world.create_within_capacity::<ArchFoo>((CompA(9), CompB(9)));", needs_mutable_holder: false },
    Change { name: "arch_create_within_capacity", stmt: "let _ = world.archetype_mut::<ArchFoo>().create_within_capacity((CompA(9), CompB(9)));", needs_mutable_holder: false },
    Change { name: "destroy_entity", stmt: "world.destroy(e1);", needs_mutable_holder: false },
    Change { name: "destroy_entity_any", stmt: "world.destroy(e1.into_any());", needs_mutable_holder: false },
    Change { name: "arch_destroy_entity", stmt: "world.arch_foo.destroy(e1);", needs_mutable_holder: false },
    Change { name: "destroy_direct", stmt: "world.destroy(d1);", needs_mutable_holder: false },
    Change { name: "destroy_direct_any", stmt: "world.arch_foo.destroy(d1.into_any());", needs_mutable_holder: false },
    Change { name: "iter_destroy", stmt: "ecs_iter_destroy!(world, |_a: &CompA| EcsStepDestroy::ContinueDestroy);", needs_mutable_holder: false },
    Change { name: "drop_world", stmt: "drop(world);", needs_mutable_holder: false },
    Change { name: "assign_world", stmt: "world = EcsWorld::new();", needs_mutable_holder: false },
    Change { name: "mem_take_world", stmt: "let _w2 = std::mem::take(&mut world);", needs_mutable_holder: false },
    Change { name: "mem_replace_archetype", stmt: "let _a2 = std::mem::replace(&mut world.arch_foo, ArchFoo::new());", needs_mutable_holder: false },
    Change { name: "clone_world", stmt: "let _c = world.clone();", needs_mutable_holder: true },
    Change { name: "ecs_iter_mut_query", stmt: "ecs_iter!(world, |a: &mut CompA| { a.0 += 1; });", needs_mutable_holder: false },
];

const PRELUDE: &str = r#"#![forbid(unsafe_code)]
#![allow(warnings)]
use gecs::prelude::*;

#[derive(Clone, Debug, Default)]
pub struct CompA(pub u64);
#[derive(Clone, Debug, Default)]
pub struct CompB(pub u64);

ecs_world! {
    ecs_archetype!(ArchFoo, CompA, CompB);
    ecs_archetype!(ArchBar, CompA);
}

fn use_it<T: ?Sized>(_t: &T) {}

fn main() {
    let mut world = EcsWorld::new();
    let e0 = world.create::<ArchFoo>((CompA(1), CompB(2)));
    let e1 = world.create::<ArchFoo>((CompA(3), CompB(4)));
    let _f0 = world.create::<ArchBar>((CompA(5),));
    let d1 = world.to_direct(e1).unwrap();
"#;

fn holder_program(h: &Holder, c: &Change, negative: bool) -> String {
    let mut s = String::from(PRELUDE);
    if negative {
        // holder acquired, structural change, holder used afterwards
        s.push_str(&format!("    {}\n    {}\n    {}\n", h.acquire, c.stmt, h.use_it));
    } else {
        // sound twin: the holder (and everything it was derived from: guards and opaque
        // iterators have drop glue) ends in an inner scope before the change
        s.push_str(&format!("    {{\n        {}\n        {}\n    }}\n    {}\n", h.acquire, h.use_it, c.stmt));
    }
    s.push_str("}\n");
    s
}

fn wrap_main(decls: &str, body: &str) -> String {
    format!("#![forbid(unsafe_code)]\n#![allow(warnings)]\nuse gecs::prelude::*;\n\n{}\nfn use_it<T: ?Sized>(_t: &T) {{}}\nfn assert_send<T: Send>() {{}}\nfn assert_sync<T: Sync>() {{}}\nfn assert_copy<T: Copy>() {{}}\n\nfn main() {{\n{}}}\n", decls, body)
}

const PLAIN_WORLD: &str = "#[derive(Clone, Debug, Default)]\npub struct CompA(pub u64);\n#[derive(Clone, Debug, Default)]\npub struct CompB(pub u64);\n\necs_world! {\n    ecs_archetype!(ArchFoo, CompA, CompB);\n    ecs_archetype!(ArchBar, CompA);\n}\n";

fn setup() -> &'static str {
    "    let mut world = EcsWorld::new();\n    let e0 = world.create::<ArchFoo>((CompA(1), CompB(2)));\n    let e1 = world.create::<ArchFoo>((CompA(3), CompB(4)));\n    let f0 = world.create::<ArchBar>((CompA(5),));\n"
}

/// (id, negative source, expected error family, twin source)
fn families() -> Vec<(String, String, String, String)> {
    let mut v: Vec<(String, String, String, String)> = Vec::new();
    // two mutable accesses to one component in one query
    let twos: [(&str, &str); 4] = [
        ("two_mut", "|a: &mut CompA, b: &mut CompA|"),
        ("mut_and_shared", "|a: &mut CompA, b: &CompA|"),
        ("mut_and_oneof_mut", "|a: &mut CompA, b: &mut OneOf<CompA, CompZ>|"),
        ("oneof_mut_twice", "|a: &mut OneOf<CompB, CompZ>, b: &mut OneOf<CompZ, CompB>|"),
    ];
    for (name, params) in twos {
        for (mname, call) in [("ecs_iter", "ecs_iter!(world, PARAMS { use_it(a); use_it(b); });"), ("ecs_find", "ecs_find!(world, e0, PARAMS { use_it(a); use_it(b); });"), ("ecs_iter_destroy", "ecs_iter_destroy!(world, PARAMS { use_it(a); use_it(b); });")] {
            let decls = format!("{}pub struct CompZ(pub u64);\n", PLAIN_WORLD);
            let neg = wrap_main(&decls, &format!("{}    {}\n", setup(), call.replace("PARAMS", params)));
            let twin = wrap_main(&decls, &format!("{}    {}\n", setup(), call.replace("PARAMS", "|a: &mut CompA, b: &mut CompB|")));
            v.push((format!("alias-{}-{}", name, mname), neg, "E0499|E0502".into(), twin));
        }
    }
    // &mut on entity-handle parameters
    for (tn, ty) in [("entity", "Entity<ArchFoo>"), ("entity_wild", "Entity<_>"), ("entity_any", "EntityAny"), ("direct", "EntityDirect<ArchFoo>"), ("direct_wild", "EntityDirect<_>"), ("direct_any", "EntityDirectAny")] {
        for (mname, call) in [
            ("ecs_iter", "ecs_iter!(world, |e: REF TY| { use_it(e); });"),
            ("ecs_iter_borrow", "ecs_iter_borrow!(world, |e: REF TY| { use_it(e); });"),
            ("ecs_find", "ecs_find!(world, e0, |e: REF TY| { use_it(e); });"),
            ("ecs_find_borrow", "ecs_find_borrow!(world, e0, |e: REF TY| { use_it(e); });"),
            ("ecs_iter_destroy", "ecs_iter_destroy!(world, |e: REF TY| { use_it(e); });"),
        ] {
            let neg = wrap_main(PLAIN_WORLD, &format!("{}    {}\n", setup(), call.replace("REF", "&mut").replace("TY", ty)));
            let twin = wrap_main(PLAIN_WORLD, &format!("{}    {}\n", setup(), call.replace("REF", "&").replace("TY", ty)));
            v.push((format!("mut-entity-{}-{}", tn, mname), neg, "mut entity access is forbidden".into(), twin));
        }
    }
    // references smuggled out of query closures
    for (mname, call_neg, call_twin) in [
        ("ecs_iter", "let mut h: Option<&CompA> = None; ecs_iter!(world, |a: &CompA| { h = Some(a); }); use_it(&h);", "let mut h: Option<u64> = None; ecs_iter!(world, |a: &CompA| { h = Some(a.0); }); use_it(&h);"),
        ("ecs_iter_mut", "let mut h: Vec<&mut CompA> = Vec::new(); ecs_iter!(world, |a: &mut CompA| { h.push(a); }); use_it(&h);", "let mut h: Vec<u64> = Vec::new(); ecs_iter!(world, |a: &mut CompA| { h.push(a.0); }); use_it(&h);"),
        ("ecs_iter_borrow", "let mut h: Option<&CompA> = None; ecs_iter_borrow!(world, |a: &CompA| { h = Some(a); }); use_it(&h);", "let mut h: Option<u64> = None; ecs_iter_borrow!(world, |a: &CompA| { h = Some(a.0); }); use_it(&h);"),
        ("ecs_find", "let h: Option<&CompA> = ecs_find!(world, e0, |a: &CompA| a); use_it(&h);", "let h: Option<u64> = ecs_find!(world, e0, |a: &CompA| a.0); use_it(&h);"),
        ("ecs_find_borrow", "let h: Option<&CompA> = ecs_find_borrow!(world, e0, |a: &CompA| a); use_it(&h);", "let h: Option<u64> = ecs_find_borrow!(world, e0, |a: &CompA| a.0); use_it(&h);"),
        ("ecs_iter_destroy", "let mut h: Option<&CompA> = None; ecs_iter_destroy!(world, |a: &CompA| { h = Some(a); EcsStepDestroy::ContinueDestroy }); use_it(&h);", "let mut h: Option<u64> = None; ecs_iter_destroy!(world, |a: &CompA| { h = Some(a.0); EcsStepDestroy::ContinueDestroy }); use_it(&h);"),
        ("ecs_iter_entity", "let mut h: Option<&Entity<ArchFoo>> = None; ecs_iter!(world, |e: &Entity<ArchFoo>| { h = Some(e); }); world.destroy(e1); use_it(&h);", "let mut h: Option<Entity<ArchFoo>> = None; ecs_iter!(world, |e: &Entity<ArchFoo>| { h = Some(*e); }); world.destroy(e1); use_it(&h);"),
    ] {
        let neg = wrap_main(PLAIN_WORLD, &format!("{}    {}\n", setup(), call_neg));
        let twin = wrap_main(PLAIN_WORLD, &format!("{}    {}\n", setup(), call_twin));
        v.push((format!("smuggle-{}", mname), neg, format!("{}|E0515|lifetime may not live long enough", BORROW_FAMILY), twin));
    }
    // structural change (or mutable query) inside a query on the same world
    for (name, inner_neg, inner_twin, outer) in [
        ("destroy_in_iter_borrow", "world.destroy(e1);", "let _ = world.contains(e1);", "ecs_iter_borrow!(world, |_a: &CompA| { INNER });"),
        ("create_in_iter_borrow", "world.create::<ArchBar>((CompA(9),));", "let _ = world.archetype::<ArchBar>().len();", "ecs_iter_borrow!(world, |_a: &CompA| { INNER });"),
        ("create_in_iter", "world.arch_bar.create((CompA(9),));", "let _ = 1;", "ecs_iter!(world, |_a: &CompA| { INNER });"),
        ("find_mut_in_iter", "ecs_find!(world, e0, |b: &mut CompB| { b.0 += 1; });", "let _ = 1;", "ecs_iter!(world, |_a: &CompA| { INNER });"),
        ("iter_destroy_in_find_borrow", "ecs_iter_destroy!(world, |_a: &CompA| EcsStepDestroy::ContinueDestroy);", "ecs_iter_borrow!(world, |_a: &CompA| {});", "ecs_find_borrow!(world, e0, |_b: &CompB| { INNER });"),
        ("clone_assign_in_iter_borrow", "world = EcsWorld::new();", "let _c = world.clone();", "ecs_iter_borrow!(world, |_b: &CompB| { INNER });"),
    ] {
        let neg = wrap_main(PLAIN_WORLD, &format!("{}    {}\n", setup(), outer.replace("INNER", inner_neg)));
        let twin = wrap_main(PLAIN_WORLD, &format!("{}    {}\n", setup(), outer.replace("INNER", inner_twin)));
        v.push((format!("nested-{}", name), neg, BORROW_FAMILY.into(), twin));
    }
    // Sync: a world is never Sync (whatever its components); handles are
    for (name, comp) in [("plain", "pub struct CompS(pub u64);"), ("atomic", "pub struct CompS(pub std::sync::atomic::AtomicU64);"), ("zst", "pub struct CompS;"), ("mutex", "pub struct CompS(pub std::sync::Mutex<u64>);")] {
        let decls = format!("{}\necs_world! {{\n    ecs_archetype!(ArchS, CompS);\n}}\n", comp);
        let neg = wrap_main(&decls, "    assert_sync::<EcsWorld>();\n");
        let twin = wrap_main(&decls, "    assert_sync::<Entity<ArchS>>(); assert_sync::<EntityAny>(); assert_sync::<EntityDirect<ArchS>>(); assert_sync::<EntityDirectAny>(); assert_send::<EcsWorld>();\n");
        v.push((format!("sync-world-{}", name), neg, "E0277".into(), twin));
        let neg2 = wrap_main(&decls, "    assert_sync::<ArchS>();\n");
        let twin2 = wrap_main(&decls, "    assert_send::<ArchS>();\n");
        v.push((format!("sync-archetype-{}", name), neg2, "E0277".into(), twin2));
    }
    // sharing a world between threads
    {
        let neg = wrap_main(PLAIN_WORLD, &format!("{}    std::thread::scope(|s| {{ s.spawn(|| {{ let _ = world.contains(e0); }}); }});\n", setup()));
        let twin = wrap_main(PLAIN_WORLD, &format!("{}    let t = std::thread::spawn(move || {{ let w = world; w.contains(e0) }}); let _ = t.join();\n", setup()));
        v.push(("share-world-scoped-thread".into(), neg, "E0277".into(), twin));
    }
    // the iterators of the direct API (`Archetype::iter` / `iter_mut`, opaque `impl Iterator`
    // types through which auto traits leak) hand out references into the columns: for a component
    // that is !Send / !Sync they must not be Send / Sync (sending one to another thread would share
    // `&Rc<_>` / `&Cell<_>` items of a world that is itself correctly !Send / !Sync)
    for (cname, comp) in [("rc", "pub struct CompS(pub std::rc::Rc<u64>);"), ("cell", "pub struct CompS(pub std::cell::Cell<u64>);")] {
        let decls = format!("{}\necs_world! {{\n    ecs_archetype!(ArchS, CompS);\n}}\nfn need_send<T: Send>(_t: &T) {{}}\nfn need_sync<T: Sync>(_t: &T) {{}}\n", comp);
        for method in ["iter", "iter_mut"] {
            for tr in ["send", "sync"] {
                // Cell<u64> is Send: an iterator over `&mut Cell` items may be Send, one over `&Cell` items may not
                if cname == "cell" && method == "iter_mut" && tr == "send" {
                    continue;
                }
                let neg = wrap_main(&decls, &format!("    let mut world = EcsWorld::new();\n    need_{}(&world.arch_s.{}());\n", tr, method));
                let twin = wrap_main(&decls, &format!("    let mut world = EcsWorld::new();\n    use_it(&world.arch_s.{}());\n", method));
                v.push((format!("iterator-{}-{}-{}", tr, method, cname), neg, "E0277".into(), twin));
            }
        }
        // actually moving one into a scoped thread
        let neg = wrap_main(&decls, "    let mut world = EcsWorld::new();\n    let it = world.arch_s.iter();\n    std::thread::scope(|s| { s.spawn(move || { let _n = it.count(); }); });\n");
        let twin = wrap_main(&decls, "    let mut world = EcsWorld::new();\n    let it = world.arch_s.iter();\n    std::thread::scope(|s| { s.spawn(move || { let _n = 0; }); });\n    let _n = it.count();\n");
        v.push((format!("iterator-moved-to-thread-{}", cname), neg, "E0277".into(), twin));
    }
    // Send: iff all components are Send
    for (name, bad, good) in [
        ("rc", "pub struct CompS(pub std::rc::Rc<u64>);", "pub struct CompS(pub std::sync::Arc<u64>);"),
        ("mutex_guard", "pub struct CompS(pub std::sync::MutexGuard<'static, u64>);", "pub struct CompS(pub std::cell::Cell<u64>);"),
        ("raw_pointer", "pub struct CompS(pub *const u8);", "pub struct CompS(pub usize);"),
        ("rc_second_column", "pub struct CompT(pub u64);\npub struct CompS(pub std::rc::Rc<u64>);", "pub struct CompT(pub u64);\npub struct CompS(pub Box<u64>);"),
    ] {
        let arch = if name == "rc_second_column" { "ecs_archetype!(ArchS, CompT, CompS);" } else { "ecs_archetype!(ArchS, CompS);" };
        let negd = format!("{}\necs_world! {{\n    ecs_archetype!(ArchP, CompP);\n    {}\n}}\npub struct CompP(pub u64);\n", bad, arch);
        let posd = format!("{}\necs_world! {{\n    ecs_archetype!(ArchP, CompP);\n    {}\n}}\npub struct CompP(pub u64);\n", good, arch);
        let neg = wrap_main(&negd, "    assert_send::<EcsWorld>();\n");
        let twin = wrap_main(&posd, "    assert_send::<EcsWorld>();\n");
        v.push((format!("send-world-{}", name), neg, "E0277".into(), twin));
        // moving such a world to another thread
        let neg2 = wrap_main(&negd, "    let world = EcsWorld::new();\n    let t = std::thread::spawn(move || { let w = world; drop(w); }); let _ = t.join();\n");
        let twin2 = wrap_main(&posd, "    let world = EcsWorld::new();\n    let t = std::thread::spawn(move || { let w = world; drop(w); }); let _ = t.join();\n");
        v.push((format!("send-world-thread-{}", name), neg2, "E0277".into(), twin2));
    }
    v
}

/// Programs that must compile: handles are Copy + Send + Sync regardless of the components.
fn must_compile() -> Vec<(String, String)> {
    let mut v = Vec::new();
    for (name, comp) in [("rc", "pub struct CompS(pub std::rc::Rc<u64>);"), ("raw_pointer", "pub struct CompS(pub *mut u8);"), ("cell", "pub struct CompS(pub std::cell::RefCell<Vec<u8>>);")] {
        let decls = format!("{}\necs_world! {{\n    ecs_archetype!(ArchS, CompS);\n}}\n", comp);
        let body = "    assert_send::<Entity<ArchS>>(); assert_sync::<Entity<ArchS>>(); assert_copy::<Entity<ArchS>>();\n    assert_send::<EntityDirect<ArchS>>(); assert_sync::<EntityDirect<ArchS>>(); assert_copy::<EntityDirect<ArchS>>();\n    assert_send::<EntityAny>(); assert_sync::<EntityAny>(); assert_copy::<EntityAny>();\n    assert_send::<EntityDirectAny>(); assert_sync::<EntityDirectAny>(); assert_copy::<EntityDirectAny>();\n    assert_send::<SelectEntity>(); assert_sync::<SelectEntityDirect>(); assert_copy::<SelectArchetype>();\n";
        v.push((format!("handles-auto-traits-{}", name), wrap_main(&decls, body)));
    }
    v
}

pub fn emit_c18(seed: u64, pairs: usize, out: &mut Out) {
    // enumerate the holder x change grammar
    let mut all: Vec<(String, String, String, String)> = Vec::new();
    for h in HOLDERS {
        for c in CHANGES {
            if c.needs_mutable_holder && !h.mutable {
                continue;
            }
            all.push((format!("hold-{}-across-{}", h.name, c.name), holder_program(h, c, true), BORROW_FAMILY.to_string(), holder_program(h, c, false)));
        }
    }
    let total_grammar = all.len();
    all.extend(families());
    let total = all.len();
    // deterministic selection: everything when `pairs` allows, else a seed-dependent subset that
    // always contains one program per holder and per change
    let mut chosen: Vec<usize> = (0..total).collect();
    if pairs < total {
        let mut keyed: Vec<(u64, usize)> = (0..total).map(|i| (crate::mix(seed ^ (i as u64).wrapping_mul(0x9E37)), i)).collect();
        keyed.sort();
        chosen = keyed.into_iter().take(pairs).map(|k| k.1).collect();
        chosen.sort();
    }
    for i in chosen {
        let (id, neg, pat, twin) = &all[i];
        let nf = format!("n18_{}.rs", id.replace('-', "_"));
        let tf = format!("n18_{}_twin.rs", id.replace('-', "_"));
        out.files.insert(nf.clone(), neg.clone());
        out.files.insert(tf.clone(), twin.clone());
        out.jobs.push(Job { id: format!("C18-{}", id), kind: "reject", file: nf, flags: vec![], expect: pat.clone(), note: id.clone() });
        out.jobs.push(Job { id: format!("C18-{}-twin", id), kind: "accept", file: tf, flags: vec![], expect: "-".into(), note: "sound twin".into() });
    }
    for (id, src) in must_compile() {
        let f = format!("p18_{}.rs", id.replace('-', "_"));
        out.files.insert(f.clone(), src);
        out.jobs.push(Job { id: format!("C18-{}", id), kind: "accept", file: f, flags: vec![], expect: "-".into(), note: "handles are Copy + Send + Sync regardless of the components".into() });
    }
    out.stats.insert("grammar_pairs_total", total_grammar as u64);
    out.stats.insert("family_pairs_total", (total - total_grammar) as u64);
}
