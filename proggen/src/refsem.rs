//! Reference semantics of the compile-time half of gecs, written from the documentation:
//! cfg filtering, the enum-discriminant id rule, and query matching as set computations over
//! component names. Contains no gecs code.

use std::collections::{BTreeMap, BTreeSet};

/// A cfg predicate attached to an item.
#[derive(Clone, Debug, PartialEq, Eq, Hash, PartialOrd, Ord)]
pub enum Pred {
    /// literal form with a fixed truth value: 0 `all()` (true), 1 `any()` (false),
    /// 2 `not(any())` (true), 3 `not(all())` (false), 4 `all(all(), not(any()))` (true),
    /// 5 `any(any(), not(all()))` (false)
    Lit(u8),
    /// named flag `vp_k`, supplied (or not) as `--cfg vp_k`
    Flag(u8),
    /// `not(vp_k)`
    NotFlag(u8),
}

impl Pred {
    pub fn text(&self) -> String {
        match self {
            Pred::Lit(0) => "all()".into(),
            Pred::Lit(1) => "any()".into(),
            Pred::Lit(2) => "not(any())".into(),
            Pred::Lit(3) => "not(all())".into(),
            Pred::Lit(4) => "all(all(), not(any()))".into(),
            Pred::Lit(_) => "any(any(), not(all()))".into(),
            Pred::Flag(k) => format!("vp_{}", k),
            Pred::NotFlag(k) => format!("not(vp_{})", k),
        }
    }
    pub fn eval(&self, flags: u32) -> bool {
        match self {
            Pred::Lit(f) => matches!(f, 0 | 2 | 4),
            Pred::Flag(k) => flags & (1 << k) != 0,
            Pred::NotFlag(k) => flags & (1 << k) == 0,
        }
    }
    pub fn attr(&self) -> String {
        format!("#[cfg({})]", self.text())
    }
}

pub fn enabled(cfgs: &[Pred], flags: u32) -> bool {
    cfgs.iter().all(|p| p.eval(flags))
}

pub fn attrs(cfgs: &[Pred]) -> String {
    cfgs.iter().map(|p| p.attr() + " ").collect()
}

#[derive(Clone, Debug, PartialEq, Eq, Hash)]
pub struct CompDecl {
    pub name: String,
    pub id: Option<u32>,
    pub cfgs: Vec<Pred>,
}

#[derive(Clone, Debug, PartialEq, Eq, Hash)]
pub struct ArchDecl {
    pub name: String,
    pub id: Option<u32>,
    pub cfgs: Vec<Pred>,
    pub comps: Vec<CompDecl>,
}

#[derive(Clone, Debug, PartialEq, Eq, Hash)]
pub struct WorldDecl {
    pub name: String,
    pub archs: Vec<ArchDecl>,
    /// every component struct that exists in the program (also those no archetype uses)
    pub pool: Vec<String>,
}

#[derive(Clone, Debug, PartialEq, Eq, Hash)]
pub enum IdError {
    /// "attribute id N is already assigned to X"
    AlreadyAssigned { id: u8, first: String, second: String },
    /// "attribute id may not exceed 255" (implicit successor of 255)
    Exceeds255 { item: String },
    /// explicit id literal that does not fit a u8 (rejected when the attribute is parsed)
    LiteralTooLarge { item: String },
    /// every archetype disabled / none declared: "ecs world must have at least one archetype"
    /// is a parse-time error only for a textually empty declaration; an all-disabled world is
    /// degenerate and excluded by the generators
    Degenerate,
}

#[derive(Clone, Debug, PartialEq, Eq)]
pub struct RComp {
    pub name: String,
    pub id: u8,
}

#[derive(Clone, Debug, PartialEq, Eq)]
pub struct RArch {
    pub name: String,
    pub id: u8,
    pub comps: Vec<RComp>,
}

#[derive(Clone, Debug, PartialEq, Eq)]
pub struct RWorld {
    pub name: String,
    pub archs: Vec<RArch>,
}

/// The discriminant rule: explicit value, else previous + 1, else 0; reuse and counting past
/// 255 are errors. Disabled items are skipped before anything is assigned.
fn fold_ids<'a>(items: impl Iterator<Item = (&'a str, Option<u32>)>) -> Result<Vec<u8>, IdError> {
    let mut used: BTreeMap<u8, String> = BTreeMap::new();
    let mut last: Option<u8> = None;
    let mut out = Vec::new();
    for (name, explicit) in items {
        let next: u8 = match explicit {
            Some(v) => {
                if v > 255 {
                    return Err(IdError::LiteralTooLarge { item: name.to_string() });
                }
                v as u8
            }
            None => match last {
                None => 0,
                Some(255) => return Err(IdError::Exceeds255 { item: name.to_string() }),
                Some(l) => l + 1,
            },
        };
        if let Some(first) = used.insert(next, name.to_string()) {
            return Err(IdError::AlreadyAssigned { id: next, first, second: name.to_string() });
        }
        last = Some(next);
        out.push(next);
    }
    Ok(out)
}

impl WorldDecl {
    /// An explicit id literal > 255 is rejected while parsing, whether or not the item is
    /// cfg-enabled (the attribute is parsed before cfg evaluation).
    pub fn literal_too_large(&self) -> Option<String> {
        for a in &self.archs {
            if a.id.map(|v| v > 255).unwrap_or(false) {
                return Some(a.name.clone());
            }
            for c in &a.comps {
                if c.id.map(|v| v > 255).unwrap_or(false) {
                    return Some(c.name.clone());
                }
            }
        }
        None
    }

    pub fn resolve(&self, flags: u32) -> Result<RWorld, IdError> {
        if let Some(item) = self.literal_too_large() {
            return Err(IdError::LiteralTooLarge { item });
        }
        // the macro processes archetypes in order and, inside each, its components, reporting
        // the first error it meets
        let live: Vec<&ArchDecl> = self.archs.iter().filter(|a| enabled(&a.cfgs, flags)).collect();
        let mut used: BTreeMap<u8, String> = BTreeMap::new();
        let mut last: Option<u8> = None;
        let mut archs = Vec::new();
        for a in live {
            let next: u8 = match a.id {
                Some(v) => v as u8,
                None => match last {
                    None => 0,
                    Some(255) => return Err(IdError::Exceeds255 { item: a.name.clone() }),
                    Some(l) => l + 1,
                },
            };
            if let Some(first) = used.insert(next, a.name.clone()) {
                return Err(IdError::AlreadyAssigned { id: next, first, second: a.name.clone() });
            }
            last = Some(next);
            let comps: Vec<&CompDecl> = a.comps.iter().filter(|c| enabled(&c.cfgs, flags)).collect();
            let ids = fold_ids(comps.iter().map(|c| (c.name.as_str(), c.id)))?;
            archs.push(RArch { name: a.name.clone(), id: next, comps: comps.iter().zip(ids).map(|(c, id)| RComp { name: c.name.clone(), id }).collect() });
        }
        if archs.is_empty() || archs.iter().any(|a| a.comps.is_empty()) {
            return Err(IdError::Degenerate);
        }
        Ok(RWorld { name: self.name.clone(), archs })
    }

    /// The declaration with disabled items deleted and enabled items unannotated.
    pub fn reduce(&self, flags: u32) -> WorldDecl {
        WorldDecl {
            name: self.name.clone(),
            pool: self.pool.clone(),
            archs: self
                .archs
                .iter()
                .filter(|a| enabled(&a.cfgs, flags))
                .map(|a| ArchDecl {
                    name: a.name.clone(),
                    id: a.id,
                    cfgs: vec![],
                    comps: a.comps.iter().filter(|c| enabled(&c.cfgs, flags)).map(|c| CompDecl { name: c.name.clone(), id: c.id, cfgs: vec![] }).collect(),
                })
                .collect(),
        }
    }

    /// Distinct predicates in order of first appearance (archetype attributes, then its components).
    pub fn predicates(&self) -> Vec<Pred> {
        let mut seen = BTreeSet::new();
        let mut out = Vec::new();
        for a in &self.archs {
            for p in a.cfgs.iter().chain(a.comps.iter().flat_map(|c| c.cfgs.iter())) {
                if seen.insert(p.text()) {
                    out.push(p.clone());
                }
            }
        }
        out
    }

    /// Text of the body of `ecs_world! { ... }`.
    pub fn body_text(&self) -> String {
        let mut s = format!("ecs_name!({});\n", self.name);
        for a in &self.archs {
            s.push_str("    ");
            s.push_str(&attrs(&a.cfgs));
            if let Some(id) = a.id {
                s.push_str(&format!("#[archetype_id({})] ", id));
            }
            s.push_str(&format!("ecs_archetype!({}", a.name));
            for c in &a.comps {
                s.push_str(", ");
                s.push_str(&attrs(&c.cfgs));
                if let Some(id) = c.id {
                    s.push_str(&format!("#[component_id({})] ", id));
                }
                s.push_str(&c.name);
            }
            s.push_str(");\n");
        }
        s
    }
}

// ----------------------------------------------------------------------------------------------
// queries
// ----------------------------------------------------------------------------------------------

#[derive(Clone, Debug, PartialEq, Eq, Hash)]
pub enum ParamTy {
    Comp(String),
    OneOf(Vec<String>),
    Entity(String),
    EntityWild,
    EntityAny,
    EntityDirect(String),
    EntityDirectWild,
    EntityDirectAny,
}

#[derive(Clone, Debug, PartialEq, Eq, Hash)]
pub struct Param {
    pub ty: ParamTy,
    pub is_mut: bool,
    pub cfgs: Vec<Pred>,
}

impl Param {
    pub fn ty_text(&self) -> String {
        let m = if self.is_mut { "&mut " } else { "&" };
        match &self.ty {
            ParamTy::Comp(c) => format!("{}{}", m, c),
            ParamTy::OneOf(v) => format!("{}OneOf<{}>", m, v.join(", ")),
            ParamTy::Entity(a) => format!("{}Entity<{}>", m, a),
            ParamTy::EntityWild => format!("{}Entity<_>", m),
            ParamTy::EntityAny => format!("{}EntityAny", m),
            ParamTy::EntityDirect(a) => format!("{}EntityDirect<{}>", m, a),
            ParamTy::EntityDirectWild => format!("{}EntityDirect<_>", m),
            ParamTy::EntityDirectAny => format!("{}EntityDirectAny", m),
        }
    }
    pub fn is_entity(&self) -> bool {
        !matches!(self.ty, ParamTy::Comp(_) | ParamTy::OneOf(_))
    }
}

#[derive(Clone, Copy, Debug, PartialEq, Eq, Hash, PartialOrd, Ord)]
pub enum QKind {
    Find,
    FindBorrow,
    Iter,
    IterBorrow,
    IterDestroy,
}

impl QKind {
    pub const ALL: [QKind; 5] = [QKind::Find, QKind::FindBorrow, QKind::Iter, QKind::IterBorrow, QKind::IterDestroy];
    pub fn macro_name(&self) -> &'static str {
        match self {
            QKind::Find => "ecs_find",
            QKind::FindBorrow => "ecs_find_borrow",
            QKind::Iter => "ecs_iter",
            QKind::IterBorrow => "ecs_iter_borrow",
            QKind::IterDestroy => "ecs_iter_destroy",
        }
    }
    pub fn is_find(&self) -> bool {
        matches!(self, QKind::Find | QKind::FindBorrow)
    }
    pub fn is_borrow(&self) -> bool {
        matches!(self, QKind::FindBorrow | QKind::IterBorrow)
    }
}

#[derive(Clone, Debug, PartialEq, Eq, Hash)]
pub struct Query {
    pub kind: QKind,
    pub params: Vec<Param>,
}

/// What a parameter is bound to in one matched archetype.
#[derive(Clone, Debug, PartialEq, Eq, Hash)]
pub enum Bound {
    /// a component column of this archetype
    Comp(String),
    /// the archetype's own typed handle / direct handle / the dynamic forms
    Entity(String),
    EntityAny,
    EntityDirect(String),
    EntityDirectAny,
    /// parameter is cfg-disabled: compiled out
    Disabled,
}

#[derive(Clone, Debug, PartialEq, Eq)]
pub enum QError {
    NoMatch,
    Ambiguous { arch: String },
    CfgOnOneOf,
    /// `&mut` on an entity-handle parameter
    MutEntity,
}

impl Query {
    /// The documented matching rule. `flags` decide which parameters are cfg-enabled.
    pub fn matches(&self, w: &RWorld, flags: u32) -> Result<Vec<(String, Vec<Bound>)>, QError> {
        if self.params.iter().any(|p| p.is_entity() && p.is_mut) {
            return Err(QError::MutEntity);
        }
        // cfg on OneOf is unsupported (explicit macro error) as soon as some archetype is examined
        let mut out = Vec::new();
        for a in &w.archs {
            let has = |c: &String| a.comps.iter().any(|x| &x.name == c);
            let mut bound = Vec::new();
            let mut ok = true;
            for p in &self.params {
                let on = enabled(&p.cfgs, flags);
                match &p.ty {
                    ParamTy::EntityAny => bound.push(if on { Bound::EntityAny } else { Bound::Disabled }),
                    ParamTy::EntityDirectAny => bound.push(if on { Bound::EntityDirectAny } else { Bound::Disabled }),
                    ParamTy::EntityWild => bound.push(if on { Bound::Entity(a.name.clone()) } else { Bound::Disabled }),
                    ParamTy::EntityDirectWild => bound.push(if on { Bound::EntityDirect(a.name.clone()) } else { Bound::Disabled }),
                    ParamTy::Comp(c) => {
                        if !on {
                            bound.push(Bound::Disabled);
                        } else if has(c) {
                            bound.push(Bound::Comp(c.clone()));
                        } else {
                            ok = false;
                        }
                    }
                    ParamTy::Entity(n) => {
                        if !on {
                            bound.push(Bound::Disabled);
                        } else if &a.name == n {
                            bound.push(Bound::Entity(n.clone()));
                        } else {
                            ok = false;
                        }
                    }
                    ParamTy::EntityDirect(n) => {
                        if !on {
                            bound.push(Bound::Disabled);
                        } else if &a.name == n {
                            bound.push(Bound::EntityDirect(n.clone()));
                        } else {
                            ok = false;
                        }
                    }
                    ParamTy::OneOf(list) => {
                        if !p.cfgs.is_empty() {
                            return Err(QError::CfgOnOneOf);
                        }
                        let present: Vec<&String> = list.iter().filter(|c| has(c)).collect();
                        match present.len() {
                            0 => ok = false,
                            1 => bound.push(Bound::Comp(present[0].clone())),
                            _ => return Err(QError::Ambiguous { arch: a.name.clone() }),
                        }
                    }
                }
            }
            if ok {
                out.push((a.name.clone(), bound));
            }
        }
        if out.is_empty() {
            return Err(QError::NoMatch);
        }
        Ok(out)
    }

    /// The query with disabled parameters deleted and enabled ones unannotated.
    pub fn reduce(&self, flags: u32) -> Query {
        Query { kind: self.kind, params: self.params.iter().filter(|p| enabled(&p.cfgs, flags)).map(|p| Param { ty: p.ty.clone(), is_mut: p.is_mut, cfgs: vec![] }).collect() }
    }

    pub fn predicates(&self) -> Vec<Pred> {
        let mut seen = BTreeSet::new();
        let mut out = Vec::new();
        for p in &self.params {
            for c in &p.cfgs {
                if seen.insert(c.text()) {
                    out.push(c.clone());
                }
            }
        }
        out
    }

    /// `|p0: &A, #[cfg(x)] p1: &mut B|` (unique names: the generated programs use them in the body)
    pub fn params_text(&self) -> String {
        let ps: Vec<String> = self.params.iter().enumerate().map(|(i, p)| format!("{}p{}: {}", attrs(&p.cfgs), i, p.ty_text())).collect();
        format!("|{}|", ps.join(", "))
    }

    /// Engine M only (the closure body there is empty). The binding names are irrelevant to
    /// matching; a deterministic quarter of the queries each uses `_` for every parameter resp. one
    /// and the same name for every parameter (the `#[cfg(p)] v: &A, #[cfg(not(p))] v: &B` idiom),
    /// so that generators which key anything by the parameter name, or treat placeholders
    /// specially, are exercised.
    pub fn params_text_varied(&self) -> String {
        let mut h: u32 = 2166136261;
        for p in &self.params {
            for b in p.ty_text().bytes() {
                h = (h ^ b as u32).wrapping_mul(16777619);
            }
        }
        let style = (h >> 7) % 4;
        let ps: Vec<String> = self
            .params
            .iter()
            .enumerate()
            .map(|(i, p)| match style {
                2 => format!("{}_: {}", attrs(&p.cfgs), p.ty_text()),
                3 => format!("{}v: {}", attrs(&p.cfgs), p.ty_text()),
                _ => format!("{}p{}: {}", attrs(&p.cfgs), i, p.ty_text()),
            })
            .collect();
        format!("|{}|", ps.join(", "))
    }

    /// Whether rustc's borrow checker (or a RefCell at run time) would object to the closure
    /// call in some matched archetype: the same component bound twice with a `&mut` involved.
    /// Such queries are C18 negatives, never C05 positives (soundness decision 6).
    pub fn self_aliasing(&self, matched: &[(String, Vec<Bound>)]) -> bool {
        for (_, bound) in matched {
            let mut seen: BTreeMap<&String, bool> = BTreeMap::new(); // comp -> any mut so far
            let live: Vec<&Param> = self.params.iter().collect();
            for (b, p) in bound.iter().zip(live.iter()) {
                if let Bound::Comp(c) = b {
                    match seen.get(c) {
                        Some(m) => {
                            if *m || p.is_mut {
                                return true;
                            }
                        }
                        None => {}
                    }
                    let e = seen.entry(c).or_insert(false);
                    *e |= p.is_mut;
                }
            }
        }
        false
    }
}

// ----------------------------------------------------------------------------------------------
// text form of a case (replay files)
// ----------------------------------------------------------------------------------------------

/// A declaration with queries over it.
#[derive(Clone, Debug, PartialEq, Eq, Hash)]
pub struct PCase {
    pub world: WorldDecl,
    pub queries: Vec<Query>,
}

fn pred_code(p: &Pred) -> String {
    match p {
        Pred::Lit(l) => format!("L{}", l),
        Pred::Flag(k) => format!("F{}", k),
        Pred::NotFlag(k) => format!("N{}", k),
    }
}

fn pred_parse(s: &str) -> Result<Pred, String> {
    let n: u8 = s[1..].parse().map_err(|_| format!("bad predicate '{}'", s))?;
    match &s[..1] {
        "L" => Ok(Pred::Lit(n)),
        "F" => Ok(Pred::Flag(n)),
        "N" => Ok(Pred::NotFlag(n)),
        _ => Err(format!("bad predicate '{}'", s)),
    }
}

fn cfgs_code(c: &[Pred]) -> String {
    if c.is_empty() {
        "-".into()
    } else {
        c.iter().map(pred_code).collect::<Vec<_>>().join("+")
    }
}

fn cfgs_parse(s: &str) -> Result<Vec<Pred>, String> {
    if s == "-" {
        Ok(vec![])
    } else {
        s.split('+').map(pred_parse).collect()
    }
}

fn id_code(i: Option<u32>) -> String {
    i.map(|v| v.to_string()).unwrap_or_else(|| "-".into())
}

fn id_parse(s: &str) -> Result<Option<u32>, String> {
    if s == "-" {
        Ok(None)
    } else {
        s.parse().map(Some).map_err(|_| format!("bad id '{}'", s))
    }
}

impl PCase {
    pub fn to_text(&self) -> String {
        let mut s = format!("world {}\n", self.world.name);
        for a in &self.world.archs {
            s.push_str(&format!("arch {} {} {}", a.name, id_code(a.id), cfgs_code(&a.cfgs)));
            for c in &a.comps {
                s.push_str(&format!(" | {} {} {}", c.name, id_code(c.id), cfgs_code(&c.cfgs)));
            }
            s.push('\n');
        }
        for q in &self.queries {
            s.push_str(&format!("query {}", q.kind.macro_name()));
            for p in &q.params {
                let ty = match &p.ty {
                    ParamTy::Comp(c) => format!("comp:{}", c),
                    ParamTy::OneOf(v) => format!("oneof:{}", v.join(",")),
                    ParamTy::Entity(a) => format!("entity:{}", a),
                    ParamTy::EntityWild => "entity_wild".into(),
                    ParamTy::EntityAny => "entity_any".into(),
                    ParamTy::EntityDirect(a) => format!("direct:{}", a),
                    ParamTy::EntityDirectWild => "direct_wild".into(),
                    ParamTy::EntityDirectAny => "direct_any".into(),
                };
                s.push_str(&format!(" | {} {} {}", ty, if p.is_mut { "mut" } else { "ref" }, cfgs_code(&p.cfgs)));
            }
            s.push('\n');
        }
        s
    }

    pub fn from_text(text: &str) -> Result<PCase, String> {
        let mut name = String::from("World");
        let mut archs = Vec::new();
        let mut queries = Vec::new();
        for line in text.lines() {
            let l = line.split('#').next().unwrap().trim();
            if l.is_empty() || l.starts_with("flags") || l.starts_with("expect") {
                continue;
            }
            let parts: Vec<&str> = l.split(" | ").collect();
            let head: Vec<&str> = parts[0].split_whitespace().collect();
            match head[0] {
                "world" => name = head.get(1).ok_or("world name")?.to_string(),
                "arch" => {
                    if head.len() != 4 {
                        return Err(format!("bad arch line '{}'", l));
                    }
                    let mut comps = Vec::new();
                    for p in &parts[1..] {
                        let t: Vec<&str> = p.split_whitespace().collect();
                        if t.len() != 3 {
                            return Err(format!("bad component '{}'", p));
                        }
                        comps.push(CompDecl { name: t[0].to_string(), id: id_parse(t[1])?, cfgs: cfgs_parse(t[2])? });
                    }
                    archs.push(ArchDecl { name: head[1].to_string(), id: id_parse(head[2])?, cfgs: cfgs_parse(head[3])?, comps });
                }
                "query" => {
                    let kind = QKind::ALL.iter().copied().find(|k| k.macro_name() == head[1]).ok_or_else(|| format!("bad query kind '{}'", head[1]))?;
                    let mut params = Vec::new();
                    for p in &parts[1..] {
                        let t: Vec<&str> = p.split_whitespace().collect();
                        if t.len() != 3 {
                            return Err(format!("bad parameter '{}'", p));
                        }
                        let ty = if let Some(c) = t[0].strip_prefix("comp:") {
                            ParamTy::Comp(c.to_string())
                        } else if let Some(v) = t[0].strip_prefix("oneof:") {
                            ParamTy::OneOf(v.split(',').map(|s| s.to_string()).collect())
                        } else if let Some(a) = t[0].strip_prefix("entity:") {
                            ParamTy::Entity(a.to_string())
                        } else if let Some(a) = t[0].strip_prefix("direct:") {
                            ParamTy::EntityDirect(a.to_string())
                        } else {
                            match t[0] {
                                "entity_wild" => ParamTy::EntityWild,
                                "entity_any" => ParamTy::EntityAny,
                                "direct_wild" => ParamTy::EntityDirectWild,
                                "direct_any" => ParamTy::EntityDirectAny,
                                other => return Err(format!("bad parameter type '{}'", other)),
                            }
                        };
                        params.push(Param { ty, is_mut: t[1] == "mut", cfgs: cfgs_parse(t[2])? });
                    }
                    queries.push(Query { kind, params });
                }
                other => return Err(format!("unknown line kind '{}'", other)),
            }
        }
        let pool = crate::gen::POOL.iter().map(|s| s.to_string()).collect();
        Ok(PCase { world: WorldDecl { name, archs, pool }, queries })
    }

    /// Highest flag index used anywhere + 1.
    pub fn nflags(&self) -> u8 {
        let mut n = 0u8;
        let mut see = |p: &Pred| {
            if let Pred::Flag(k) | Pred::NotFlag(k) = p {
                n = n.max(k + 1);
            }
        };
        for a in &self.world.archs {
            a.cfgs.iter().for_each(&mut see);
            for c in &a.comps {
                c.cfgs.iter().for_each(&mut see);
            }
        }
        for q in &self.queries {
            for p in &q.params {
                p.cfgs.iter().for_each(&mut see);
            }
        }
        n
    }
}
