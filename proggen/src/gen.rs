//! proptest strategies for world declarations and queries.

use proptest::collection::vec;
use proptest::prelude::*;
use proptest::sample::subsequence;

use crate::refsem::*;

pub const POOL: [&str; 10] = ["CompA", "CompB", "CompC", "CompD", "CompE", "CompF", "CompG", "CompH", "CompI", "CompJ"];

pub fn arch_name(i: usize) -> String {
    if i < 26 {
        format!("Arch{}", (b'A' + i as u8) as char)
    } else {
        format!("Arch{}{}", (b'A' + (i / 26 - 1) as u8) as char, (b'a' + (i % 26) as u8) as char)
    }
}

#[derive(Clone, Copy, Debug)]
pub struct GenCfg {
    pub max_archs: usize,
    pub max_comps: usize,
    /// number of pool components archetypes may use (queries may name all of POOL)
    pub pool_used: usize,
    /// explicit ids: 0 none, 1 valid-biased, 2 anything (incl. collisions / overflow / > 255)
    pub ids: u8,
    /// number of named cfg flags available (0 = no cfg decoration at all)
    pub flags: u8,
    /// also use literal cfg forms
    pub lits: bool,
}

fn pred_strategy(g: GenCfg) -> BoxedStrategy<Pred> {
    let mut opts: Vec<BoxedStrategy<Pred>> = Vec::new();
    if g.flags > 0 {
        opts.push((0..g.flags).prop_map(Pred::Flag).boxed());
        opts.push((0..g.flags).prop_map(Pred::Flag).boxed());
        opts.push((0..g.flags).prop_map(Pred::NotFlag).boxed());
    }
    if g.lits {
        opts.push((0u8..6).prop_map(Pred::Lit).boxed());
    }
    if opts.is_empty() {
        return Just(Pred::Lit(0)).boxed();
    }
    proptest::strategy::Union::new(opts).boxed()
}

fn cfgs_strategy(g: GenCfg) -> BoxedStrategy<Vec<Pred>> {
    if g.flags == 0 && !g.lits {
        return Just(vec![]).boxed();
    }
    prop_oneof![
        6 => Just(vec![]),
        3 => vec(pred_strategy(g), 1),
        1 => vec(pred_strategy(g), 2),
    ]
    .boxed()
}

fn id_strategy(mode: u8) -> BoxedStrategy<Option<u32>> {
    match mode {
        0 => Just(None).boxed(),
        1 => prop_oneof![8 => Just(None), 3 => (0u32..40).prop_map(Some), 1 => (200u32..=255).prop_map(Some)].boxed(),
        _ => prop_oneof![10 => Just(None), 5 => (0u32..12).prop_map(Some), 2 => (250u32..=255).prop_map(Some), 1 => (0u32..=255).prop_map(Some), 1 => (256u32..300).prop_map(Some)].boxed(),
    }
}

pub fn arch_strategy(g: GenCfg, name: String) -> impl Strategy<Value = ArchDecl> {
    let pool: Vec<&'static str> = POOL[..g.pool_used].to_vec();
    let ncomp = 1..=g.max_comps.min(pool.len());
    (subsequence(pool, ncomp).prop_shuffle(), cfgs_strategy(g), id_strategy(g.ids)).prop_flat_map(move |(comps, acfgs, aid)| {
        let name = name.clone();
        let n = comps.len();
        (vec(cfgs_strategy(g), n), vec(id_strategy(g.ids), n)).prop_map(move |(ccfgs, cids)| ArchDecl {
            name: name.clone(),
            id: aid,
            cfgs: acfgs.clone(),
            comps: comps.iter().zip(ccfgs.into_iter().zip(cids)).map(|(c, (cfgs, id))| CompDecl { name: c.to_string(), id, cfgs }).collect(),
        })
    })
}

pub fn world_strategy(g: GenCfg, name: String) -> impl Strategy<Value = WorldDecl> {
    (1..=g.max_archs)
        .prop_flat_map(move |n| (0..n).map(|i| arch_strategy(g, arch_name(i))).collect::<Vec<_>>())
        .prop_map(move |archs| WorldDecl { name: name.clone(), archs, pool: POOL.iter().map(|s| s.to_string()).collect() })
        // one declaration in six (when explicit ids are generated at all) uses a permutation of
        // 0..N as its archetype ids: a dense id space in which position and id still differ
        .prop_flat_map(move |w| {
            let n = w.archs.len() as u32;
            (Just(w), 0u8..6, Just((0..n).collect::<Vec<u32>>()).prop_shuffle(), any::<u8>())
        })
        .prop_map(move |(mut w, sel, perm, drop_one)| {
            if g.ids != 0 && sel == 0 && w.archs.len() > 1 {
                for (a, p) in w.archs.iter_mut().zip(perm.iter()) {
                    a.id = Some(*p);
                }
                // sometimes leave one id implicit where the rule yields the same value anyway
                let k = drop_one as usize % w.archs.len();
                if k > 0 && perm[k] == perm[k - 1] + 1 {
                    w.archs[k].id = None;
                }
            }
            w
        })
}

fn comp_name_strategy() -> impl Strategy<Value = String> {
    (0..POOL.len()).prop_map(|i| POOL[i].to_string())
}

pub fn param_strategy(g: GenCfg, narchs: usize, allow_mut_entity: bool) -> impl Strategy<Value = Param> {
    let an = move || (0..narchs.max(1)).prop_map(arch_name);
    let ty = prop_oneof![
        8 => comp_name_strategy().prop_map(ParamTy::Comp),
        3 => vec(comp_name_strategy(), 1..=4).prop_map(ParamTy::OneOf),
        1 => an().prop_map(ParamTy::Entity),
        1 => Just(ParamTy::EntityWild),
        1 => Just(ParamTy::EntityAny),
        1 => an().prop_map(ParamTy::EntityDirect),
        1 => Just(ParamTy::EntityDirectWild),
        1 => Just(ParamTy::EntityDirectAny),
    ];
    (ty, any::<bool>(), cfgs_strategy(g), 0u8..40).prop_map(move |(ty, m, cfgs, r)| {
        let entity = !matches!(ty, ParamTy::Comp(_) | ParamTy::OneOf(_));
        let is_mut = if entity { allow_mut_entity && r == 0 } else { m };
        // cfg on OneOf is an explicit "not supported" error: keep it rare
        let cfgs = if matches!(ty, ParamTy::OneOf(_)) && r % 8 != 1 { vec![] } else { cfgs };
        Param { ty, is_mut, cfgs }
    })
}

pub fn query_strategy(g: GenCfg, narchs: usize, allow_mut_entity: bool) -> impl Strategy<Value = Query> {
    (0..5usize, vec(param_strategy(g, narchs, allow_mut_entity), 0..=5)).prop_map(|(k, params)| Query { kind: QKind::ALL[k], params })
}

/// A world together with queries over it.
pub fn case_strategy(g: GenCfg, nqueries: usize, name: String) -> impl Strategy<Value = (WorldDecl, Vec<Query>)> {
    world_strategy(g, name).prop_flat_map(move |w| {
        let n = w.archs.len();
        (Just(w), vec(query_strategy(g, n, true), nqueries))
    })
}
