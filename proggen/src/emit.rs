//! Engine P: emission of complete client programs plus expectation files.
//!
//!   pg emit --prop C05|C15|C16 --seed S --programs N --worlds K --queries Q --out DIR
//!   pg emit --prop C18 --seed S --out DIR [--pairs N]
//!   pg emit --from-case FILE --prop Cxx --out DIR        (replay of one saved case)
//!
//! DIR receives `*.rs` programs and `index.tsv` with one line per compile job:
//!   id \t kind \t file \t flags(comma separated vp_k or -) \t expect-file or error patterns \t note
//! kind: `run` (must compile with #![forbid(unsafe_code)] and print exactly the expectation),
//!       `reject` (must NOT compile; an error matching one of the `|`-separated patterns is the
//!       expected family), `accept` (twin: must compile).

use std::collections::{BTreeMap, HashMap};
use std::fmt::Write as _;

use proptest::strategy::{Strategy, ValueTree};
use proptest::test_runner::TestRunner;

use crate::gen::{self, GenCfg, POOL};
use crate::refsem::*;

pub struct Job {
    pub id: String,
    pub kind: &'static str,
    pub file: String,
    pub flags: Vec<u8>,
    /// expectation file (run) or error patterns (reject)
    pub expect: String,
    pub note: String,
}

#[derive(Default)]
pub struct Out {
    pub files: BTreeMap<String, String>,
    pub jobs: Vec<Job>,
    pub stats: BTreeMap<&'static str, u64>,
}

impl Out {
    fn bump(&mut self, k: &'static str, n: u64) {
        *self.stats.entry(k).or_insert(0) += n;
    }
    pub fn write(&self, dir: &str) -> std::io::Result<()> {
        std::fs::create_dir_all(dir)?;
        for (name, text) in &self.files {
            std::fs::write(format!("{}/{}", dir, name), text)?;
        }
        let mut idx = String::new();
        for j in &self.jobs {
            let flags = if j.flags.is_empty() { "-".to_string() } else { j.flags.iter().map(|k| format!("vp_{}", k)).collect::<Vec<_>>().join(",") };
            let _ = writeln!(idx, "{}\t{}\t{}\t{}\t{}\t{}", j.id, j.kind, j.file, flags, j.expect, j.note.replace(['\t', '\n'], " "));
        }
        std::fs::write(format!("{}/index.tsv", dir), idx)?;
        let st = format!("{{{}}}", self.stats.iter().map(|(k, v)| format!("\"{}\":{}", k, v)).collect::<Vec<_>>().join(","));
        std::fs::write(format!("{}/stats.json", dir), st)
    }
}

/// One world inside a program: declaration, population (entities per archetype), queries.
#[derive(Clone, Debug)]
pub struct WorldProg {
    pub modname: String,
    pub decl: WorldDecl,
    pub pops: Vec<u8>,
    pub queries: Vec<Query>,
    /// print the id tables (C15 / C16)
    pub ids: bool,
}

/// Index of an archetype derived from its NAME (stable when disabled archetypes are deleted).
fn aidx(name: &str) -> usize {
    let t = name.trim_start_matches("Arch").as_bytes();
    match t.len() {
        1 => (t[0] - b'A') as usize,
        2 => ((t[0] - b'A') as usize + 1) * 26 + (t[1] - b'a') as usize,
        _ => 999,
    }
}

fn pool_index(c: &str) -> usize {
    POOL.iter().position(|p| *p == c).unwrap_or(99)
}

fn value(ai: usize, ei: usize, comp: &str) -> u64 {
    ((ai as u64 + 1) * 10_000) + ((ei as u64 + 1) * 100) + pool_index(comp) as u64
}

fn all_cfgs(a: &[Pred], b: &[Pred]) -> String {
    let v: Vec<String> = a.iter().chain(b.iter()).map(|p| p.text()).collect();
    if v.is_empty() {
        String::new()
    } else {
        format!("#[cfg(all({}))] ", v.join(", "))
    }
}

impl WorldProg {
    /// Rust source of the module.
    pub fn source(&self) -> String {
        let m = &self.modname;
        let mut s = String::new();
        let _ = writeln!(s, "pub mod {} {{\n    use gecs::prelude::*;\n    use super::comps::*;\n\n    ecs_world! {{\n    {}    }}\n", m, self.decl.body_text().replace('\n', "\n    "));
        let _ = writeln!(s, "    pub fn run(out: &mut Vec<String>) {{\n        let mut world = {}::new();", self.decl.name);
        // population
        for (pi, a) in self.decl.archs.iter().enumerate() {
            let ai = aidx(&a.name);
            for ei in 0..self.pops[pi] as usize {
                let comps: Vec<String> = a.comps.iter().map(|c| format!("{}{}({})", attrs(&c.cfgs), c.name, value(ai, ei, &c.name))).collect();
                let _ = writeln!(s, "        {}let e_{}_{} = world.create::<{}>(({},));", attrs(&a.cfgs), ai, ei, a.name, comps.join(", "));
            }
        }
        if self.ids {
            for (pi, a) in self.decl.archs.iter().enumerate() {
                let ai = aidx(&a.name);
                let ac = attrs(&a.cfgs);
                let _ = writeln!(s, "        {}out.push(format!(\"{} id {} {{}}\", <{} as Archetype>::ARCHETYPE_ID));", ac, m, a.name, a.name);
                for c in &a.comps {
                    let cc = all_cfgs(&a.cfgs, &c.cfgs);
                    let _ = writeln!(s, "        {}out.push(format!(\"{} cid {} {} {{}} {{}}\", <{} as ArchetypeHas<{}>>::COMPONENT_ID, ecs_component_id!({}, {})));", cc, m, a.name, c.name, a.name, c.name, c.name, a.name);
                    if self.pops[pi] > 0 {
                        // inside a query body, through MatchedArchetype
                        let _ = writeln!(s, "        {}{{ let mut seen = false; ecs_iter!(world, |_c: &{}, _e: &Entity<{}>| {{ if !seen {{ seen = true; out.push(format!(\"{} qcid {} {} {{}}\", ecs_component_id!({}))); }} }}); }}", cc, c.name, a.name, m, a.name, c.name, c.name);
                    }
                }
                for ei in 0..self.pops[pi] as usize {
                    let _ = writeln!(s, "        {}out.push(format!(\"{} hid {} {{}} {{}}\", e_{}_{}.archetype_id(), e_{}_{}.into_any().archetype_id()));", ac, m, a.name, ai, ei, ai, ei);
                }
                let _ = writeln!(s, "        {}out.push(format!(\"{} len {} {{}}\", world.archetype::<{}>().len()));", ac, m, a.name, a.name);
            }
            let _ = writeln!(s, "        for id in 0..=255u8 {{ if let Ok(sel) = SelectArchetype::try_from(id) {{ out.push(format!(\"{} sel {{}} {{}}\", id, sel.archetype_id())); }} }}", m);
        }
        // queries
        for (qi, q) in self.queries.iter().enumerate() {
            let params = q.params_text();
            let mut body = String::from("{ let mut line = String::new(); ");
            for (pi, p) in q.params.iter().enumerate() {
                let c = attrs(&p.cfgs);
                // no parameter numbers in the output: deleting disabled parameters must not change it
                if p.is_entity() {
                    let _ = write!(body, "{}line.push_str(&format!(\"id{{}} \", p{}.archetype_id())); ", c, pi);
                } else {
                    let _ = write!(body, "{}line.push_str(&format!(\"c{{}} \", p{}.0)); ", c, pi);
                }
            }
            if q.kind.is_find() {
                for (pi, a) in self.decl.archs.iter().enumerate() {
                    let ai = aidx(&a.name);
                    for ei in 0..self.pops[pi] as usize {
                        let kk = (ai + ei + qi) % 4;
                        let key = match kk {
                            0 => format!("e_{}_{}", ai, ei),
                            1 => format!("e_{}_{}.into_any()", ai, ei),
                            2 => format!("world.to_direct(e_{}_{}).unwrap()", ai, ei),
                            _ => format!("world.to_direct(e_{}_{}.into_any()).unwrap()", ai, ei),
                        };
                        let _ = writeln!(
                            s,
                            "        {}{{ let key = {}; let r = {}!(world, key, {} {} out.push(format!(\"{} q{} call a{}e{} {{}}\", line)); }}); out.push(format!(\"{} q{} find a{}e{} k{} {{}}\", r.is_some())); }}",
                            attrs(&a.cfgs), key, q.kind.macro_name(), params, body, m, qi, ai, ei, m, qi, ai, ei, kk
                        );
                    }
                }
            } else {
                let _ = writeln!(s, "        {}!(world, {} {} out.push(format!(\"{} q{} visit {{}}\", line)); }});", q.kind.macro_name(), params, body, m, qi);
            }
        }
        let _ = writeln!(s, "        let _ = &mut world;\n    }}\n}}");
        s
    }

    /// Expected output lines under a flag assignment (None if the program is not valid there).
    pub fn expect(&self, flags: u32) -> Option<Vec<String>> {
        let m = &self.modname;
        let rw = self.decl.resolve(flags).ok()?;
        let mut out = Vec::new();
        // map declared archetype index -> resolved archetype
        let find_r = |name: &str| rw.archs.iter().find(|a| a.name == name);
        if self.ids {
            for (pi, a) in self.decl.archs.iter().enumerate() {
                if let Some(ra) = find_r(&a.name) {
                    out.push(format!("{} id {} {}", m, a.name, ra.id));
                    for rc in &ra.comps {
                        out.push(format!("{} cid {} {} {} {}", m, a.name, rc.name, rc.id, rc.id));
                        if self.pops[pi] > 0 {
                            out.push(format!("{} qcid {} {} {}", m, a.name, rc.name, rc.id));
                        }
                    }
                    for _ in 0..self.pops[pi] {
                        out.push(format!("{} hid {} {} {}", m, a.name, ra.id, ra.id));
                    }
                    out.push(format!("{} len {} {}", m, a.name, self.pops[pi]));
                }
            }
            for ra in &rw.archs {
                out.push(format!("{} sel {} {}", m, ra.id, ra.id));
            }
        }
        for (qi, q) in self.queries.iter().enumerate() {
            let matched = q.matches(&rw, flags).ok()?;
            if q.self_aliasing(&matched) {
                return None;
            }
            let line_for = |pi: usize, ei: usize, bound: &Vec<Bound>| -> String {
                let mut line = String::new();
                let a = &self.decl.archs[pi];
                let ai = aidx(&a.name);
                let ra = find_r(&a.name).unwrap();
                for b in bound.iter() {
                    match b {
                        Bound::Comp(c) => {
                            let _ = write!(line, "c{} ", value(ai, ei, c));
                        }
                        Bound::Disabled => {}
                        _ => {
                            let _ = write!(line, "id{} ", ra.id);
                        }
                    }
                }
                line
            };
            for (pi, a) in self.decl.archs.iter().enumerate() {
                if find_r(&a.name).is_none() {
                    continue;
                }
                let ai = aidx(&a.name);
                let mm = matched.iter().find(|x| x.0 == a.name);
                for ei in 0..self.pops[pi] as usize {
                    if q.kind.is_find() {
                        let kk = (ai + ei + qi) % 4;
                        if let Some((_, bound)) = mm {
                            out.push(format!("{} q{} call a{}e{} {}", m, qi, ai, ei, line_for(pi, ei, bound)));
                        }
                        out.push(format!("{} q{} find a{}e{} k{} {}", m, qi, ai, ei, kk, mm.is_some()));
                    } else if let Some((_, bound)) = mm {
                        out.push(format!("{} q{} visit {}", m, qi, line_for(pi, ei, bound)));
                    }
                }
            }
        }
        Some(out)
    }
}

pub fn comps_module() -> String {
    let mut s = String::from("pub mod comps {\n");
    for c in POOL {
        let _ = writeln!(s, "    #[derive(Clone, Debug)] pub struct {}(pub u64);", c);
    }
    s.push_str("}\n");
    s
}

pub fn program(worlds: &[WorldProg]) -> String {
    let mut s = String::from("#![forbid(unsafe_code)]\n#![allow(warnings)]\n\n");
    s.push_str(&comps_module());
    for w in worlds {
        s.push_str(&w.source());
        s.push('\n');
    }
    s.push_str("fn main() {\n    let mut out: Vec<String> = Vec::new();\n");
    for w in worlds {
        let _ = writeln!(s, "    {}::run(&mut out);", w.modname);
    }
    s.push_str("    for l in out { println!(\"{}\", l.trim_end()); }\n}\n");
    s
}

fn expect_text(worlds: &[WorldProg], flags: u32) -> Option<String> {
    let mut lines = Vec::new();
    for w in worlds {
        lines.extend(w.expect(flags)?);
    }
    let mut lines: Vec<String> = lines.iter().map(|l| l.trim_end().to_string()).collect();
    lines.sort();
    Some(lines.join("\n") + "\n")
}

fn flags_vec(bits: u32) -> Vec<u8> {
    (0..8).filter(|k| bits & (1 << k) != 0).collect()
}

fn sample<S: Strategy>(runner: &mut TestRunner, s: &S) -> S::Value {
    s.new_tree(runner).expect("generation").current()
}

fn world_name(pi: usize, wi: usize) -> String {
    format!("World{}{}", (b'A' + (pi % 26) as u8) as char, (b'a' + (wi % 26) as u8) as char)
}

/// Keeps only the queries that are valid (match something, not self-aliasing) under every
/// assignment of the case's flags.
fn valid_everywhere(decl: &WorldDecl, q: &Query, nflags: u8) -> bool {
    (0..(1u32 << nflags)).all(|f| match decl.resolve(f) {
        Ok(rw) => match q.matches(&rw, f) {
            Ok(m) => !q.self_aliasing(&m),
            Err(_) => false,
        },
        Err(_) => false,
    })
}

fn decl_valid_everywhere(decl: &WorldDecl, nflags: u8) -> bool {
    (0..(1u32 << nflags)).all(|f| decl.resolve(f).is_ok())
}

pub fn emit_positive(prop: &str, g: GenCfg, seed: u64, programs: usize, worlds: usize, queries: usize, out: &mut Out) {
    let mut runner = crate::seeded(1, seed);
    for pi in 0..programs {
        let mut ws: Vec<WorldProg> = Vec::new();
        let mut tries = 0;
        while ws.len() < worlds && tries < worlds * 40 {
            tries += 1;
            let name = world_name(pi, ws.len());
            let (decl, qs) = sample(&mut runner, &gen::case_strategy(g, queries * 3, name));
            let case = PCase { world: decl.clone(), queries: vec![] };
            let nflags = case.nflags().max(PCase { world: decl.clone(), queries: qs.clone() }.nflags());
            if !decl_valid_everywhere(&decl, nflags) {
                out.bump("excluded_declarations", 1);
                continue;
            }
            let good: Vec<Query> = qs.into_iter().filter(|q| valid_everywhere(&decl, q, nflags)).take(queries).collect();
            out.bump("excluded_queries", (queries * 3 - good.len().min(queries * 3)) as u64);
            if good.is_empty() && prop != "C15" {
                continue;
            }
            let pops: Vec<u8> = decl.archs.iter().enumerate().map(|(i, _)| ((crate::mix(seed ^ (pi * 131 + ws.len() * 17 + i) as u64) % 4) as u8).min(2)).collect();
            ws.push(WorldProg { modname: format!("w{}", ws.len()), decl, pops, queries: good, ids: prop != "C05" });
        }
        if ws.is_empty() {
            continue;
        }
        let nflags = ws.iter().map(|w| PCase { world: w.decl.clone(), queries: w.queries.clone() }.nflags()).max().unwrap_or(0);
        let file = format!("p{}_{}.rs", prop.to_lowercase(), pi);
        out.files.insert(file.clone(), program(&ws));
        out.bump("programs", 1);
        out.bump("worlds", ws.len() as u64);
        out.bump("queries", ws.iter().map(|w| w.queries.len() as u64).sum());
        for bits in 0..(1u32 << nflags) {
            let exp = match expect_text(&ws, bits) {
                Some(e) => e,
                None => continue,
            };
            let efile = format!("p{}_{}_f{}.expect", prop.to_lowercase(), pi, bits);
            out.bump("expected_lines", exp.lines().count() as u64);
            out.files.insert(efile.clone(), exp.clone());
            out.jobs.push(Job { id: format!("{}-p{}-f{}", prop, pi, bits), kind: "run", file: file.clone(), flags: flags_vec(bits), expect: efile.clone(), note: format!("{} worlds, flags {:#b}", ws.len(), bits) });
            if nflags > 0 {
                // the cfg-free twin P|s: disabled items deleted, enabled ones unannotated
                let reduced: Vec<WorldProg> = ws.iter().map(|w| {
                    let keep: Vec<usize> = (0..w.decl.archs.len()).filter(|i| enabled(&w.decl.archs[*i].cfgs, bits)).collect();
                    WorldProg { modname: w.modname.clone(), decl: w.decl.reduce(bits), pops: keep.iter().map(|i| w.pops[*i]).collect(), queries: w.queries.iter().map(|q| q.reduce(bits)).collect(), ids: w.ids }
                }).collect();
                // the reduced program prints archetype/entity indices of ITS declaration: compare through values only
                let rfile = format!("p{}_{}_r{}.rs", prop.to_lowercase(), pi, bits);
                out.files.insert(rfile.clone(), program(&reduced));
                let rexp = expect_text(&reduced, 0).unwrap_or_default();
                if rexp != exp {
                    // the reference semantics itself must satisfy the metamorphic relation
                    eprintln!("generator self-check failed: reduced expectation differs for program {} flags {:#b}", pi, bits);
                    std::process::exit(3);
                }
                let refile = format!("p{}_{}_r{}.expect", prop.to_lowercase(), pi, bits);
                out.files.insert(refile.clone(), rexp);
                out.jobs.push(Job { id: format!("{}-p{}-r{}", prop, pi, bits), kind: "run", file: rfile, flags: vec![], expect: refile, note: format!("cfg-free twin of p{} under flags {:#b}; output must equal the decorated program's after normalisation (twin_of={})", pi, bits, efile) });
                out.bump("cfg_twins", 1);
            }
        }
    }
}

/// Negative programs with sound twins for C05 (no match / ambiguous OneOf) and C15 (ids).
pub fn emit_negative(prop: &str, g: GenCfg, seed: u64, pairs: usize, out: &mut Out) {
    let mut runner = crate::seeded(1, seed ^ 0xBAD);
    let mut made = 0;
    let mut tries = 0;
    while made < pairs && tries < pairs * 200 {
        tries += 1;
        let name = world_name(made, 0);
        let (decl, qs) = sample(&mut runner, &gen::case_strategy(g, 6, name));
        match prop {
            "C15" => {
                let err = match decl.resolve(0) {
                    Err(e @ IdError::AlreadyAssigned { .. }) | Err(e @ IdError::Exceeds255 { .. }) | Err(e @ IdError::LiteralTooLarge { .. }) => e,
                    _ => continue,
                };
                // twin: the same declaration with every explicit id removed is valid
                let mut twin = decl.clone();
                for a in twin.archs.iter_mut() {
                    a.id = None;
                    for c in a.comps.iter_mut() {
                        c.id = None;
                    }
                }
                if twin.resolve(0).is_err() {
                    continue;
                }
                let pats = match err {
                    IdError::AlreadyAssigned { .. } => "is already assigned to",
                    IdError::Exceeds255 { .. } => "attribute id may not exceed 255",
                    _ => "number too large to fit in target type|literal out of range",
                };
                let pops = vec![1u8; decl.archs.len()];
                let neg = WorldProg { modname: "w0".into(), decl: decl.clone(), pops: pops.clone(), queries: vec![], ids: false };
                let pos = WorldProg { modname: "w0".into(), decl: twin, pops, queries: vec![], ids: false };
                let (nf, tf) = (format!("n{}_{}.rs", prop.to_lowercase(), made), format!("n{}_{}_twin.rs", prop.to_lowercase(), made));
                out.files.insert(nf.clone(), program(&[neg]));
                out.files.insert(tf.clone(), program(&[pos]));
                out.jobs.push(Job { id: format!("{}-n{}", prop, made), kind: "reject", file: nf, flags: vec![], expect: pats.into(), note: format!("{:?}", err) });
                out.jobs.push(Job { id: format!("{}-n{}-twin", prop, made), kind: "accept", file: tf, flags: vec![], expect: "-".into(), note: "twin without explicit ids".into() });
                made += 1;
            }
            _ => {
                let rw = match decl.resolve(0) {
                    Ok(rw) => rw,
                    Err(_) => continue,
                };
                for q in qs {
                    if made >= pairs {
                        break;
                    }
                    let e = match q.matches(&rw, 0) {
                        Err(e @ QError::NoMatch) | Err(e @ QError::Ambiguous { .. }) => e,
                        _ => continue,
                    };
                    // twin: delete parameters from the end until the query is valid
                    let mut twin = q.clone();
                    let mut ok = false;
                    for _ in 0..8 {
                        if let Ok(m) = twin.matches(&rw, 0) {
                            if !twin.self_aliasing(&m) {
                                ok = true;
                                break;
                            }
                        }
                        // drop the first parameter that prevents matching: try each
                        let mut improved = false;
                        for i in 0..twin.params.len() {
                            let mut t2 = twin.clone();
                            t2.params.remove(i);
                            if let Ok(m) = t2.matches(&rw, 0) {
                                if !t2.self_aliasing(&m) {
                                    twin = t2;
                                    improved = true;
                                    break;
                                }
                            }
                        }
                        if !improved {
                            if twin.params.is_empty() {
                                break;
                            }
                            twin.params.pop();
                        }
                    }
                    if !ok {
                        continue;
                    }
                    // the negative must be free of *other* defects: no self-aliasing in what would match
                    let pats = match e {
                        QError::NoMatch => "query matched no archetypes in world",
                        _ => "OneOf parameter is ambiguous",
                    };
                    let pops = vec![1u8; decl.archs.len()];
                    let neg = WorldProg { modname: "w0".into(), decl: decl.clone(), pops: pops.clone(), queries: vec![q.clone()], ids: false };
                    let pos = WorldProg { modname: "w0".into(), decl: decl.clone(), pops, queries: vec![twin.clone()], ids: false };
                    let (nf, tf) = (format!("n{}_{}.rs", prop.to_lowercase(), made), format!("n{}_{}_twin.rs", prop.to_lowercase(), made));
                    out.files.insert(nf.clone(), program(&[neg]));
                    out.files.insert(tf.clone(), program(&[pos]));
                    out.jobs.push(Job { id: format!("{}-n{}", prop, made), kind: "reject", file: nf, flags: vec![], expect: pats.into(), note: format!("{:?}: {}!(.., {})", e, q.kind.macro_name(), q.params_text()) });
                    out.jobs.push(Job { id: format!("{}-n{}-twin", prop, made), kind: "accept", file: tf, flags: vec![], expect: "-".into(), note: format!("twin: {}", twin.params_text()) });
                    made += 1;
                }
            }
        }
    }
    out.bump("negative_pairs", made as u64);
}

/// Negative programs whose declaration gives two archetypes the same id (explicitly or through
/// an implicit successor), each with the id-free twin.
pub fn emit_arch_collisions(g: GenCfg, seed: u64, pairs: usize, out: &mut Out) {
    let mut runner = crate::seeded(1, seed ^ 0xC08);
    let mut made = 0;
    let mut tries = 0;
    while made < pairs && tries < pairs * 400 {
        tries += 1;
        let (mut decl, _) = sample(&mut runner, &gen::case_strategy(g, 0, world_name(made, 0)));
        for a in decl.archs.iter_mut() {
            for c in a.comps.iter_mut() {
                c.id = None;
            }
        }
        let first = match decl.resolve(0) {
            Err(IdError::AlreadyAssigned { first, .. }) => first,
            _ => continue,
        };
        if !first.starts_with("Arch") {
            continue;
        }
        let mut twin = decl.clone();
        for a in twin.archs.iter_mut() {
            a.id = None;
        }
        let pops = vec![1u8; decl.archs.len()];
        let neg = WorldProg { modname: "w0".into(), decl: decl.clone(), pops: pops.clone(), queries: vec![], ids: true };
        let pos = WorldProg { modname: "w0".into(), decl: twin, pops, queries: vec![], ids: true };
        let (nf, tf) = (format!("nc08_{}.rs", made), format!("nc08_{}_twin.rs", made));
        out.files.insert(nf.clone(), program(&[neg]));
        out.files.insert(tf.clone(), program(&[pos]));
        out.jobs.push(Job { id: format!("C08-n{}", made), kind: "reject", file: nf, flags: vec![], expect: "is already assigned to".into(), note: format!("two archetypes share an id: {}", decl.archs.iter().map(|a| format!("{}:{:?}", a.name, a.id)).collect::<Vec<_>>().join(" ")) });
        out.jobs.push(Job { id: format!("C08-n{}-twin", made), kind: "accept", file: tf, flags: vec![], expect: "-".into(), note: "twin without explicit archetype ids".into() });
        made += 1;
    }
    out.bump("negative_pairs", made as u64);
}

pub fn main_emit(m: &HashMap<String, String>) -> i32 {
    let prop = m.get("prop").cloned().unwrap_or_else(|| "C05".into());
    let seed: u64 = m.get("seed").map(|s| s.parse().unwrap()).unwrap_or(1);
    let programs: usize = m.get("programs").map(|s| s.parse().unwrap()).unwrap_or(4);
    let worlds: usize = m.get("worlds").map(|s| s.parse().unwrap()).unwrap_or(10);
    let queries: usize = m.get("queries").map(|s| s.parse().unwrap()).unwrap_or(8);
    let pairs: usize = m.get("pairs").map(|s| s.parse().unwrap()).unwrap_or(20);
    let dir = match m.get("out") {
        Some(d) => d.clone(),
        None => {
            eprintln!("--out DIR required");
            return 3;
        }
    };
    let mut out = Out::default();
    if let Some(f) = m.get("from-case") {
        let text = std::fs::read_to_string(f).expect("read case");
        let case = match PCase::from_text(&text) {
            Ok(c) => c,
            Err(e) => {
                eprintln!("{}", e);
                return 3;
            }
        };
        let nflags = case.nflags();
        let pops = vec![2u8; case.world.archs.len()];
        let w = WorldProg { modname: "w0".into(), decl: case.world.clone(), pops, queries: case.queries.clone(), ids: prop != "C05" };
        out.files.insert("case.rs".into(), program(&[w.clone()]));
        for bits in 0..(1u32 << nflags) {
            if let Some(exp) = expect_text(&[w.clone()], bits) {
                let ef = format!("case_f{}.expect", bits);
                out.files.insert(ef.clone(), exp);
                out.jobs.push(Job { id: format!("{}-case-f{}", prop, bits), kind: "run", file: "case.rs".into(), flags: flags_vec(bits), expect: ef, note: "replay".into() });
            }
        }
    } else {
        let mut g = crate::gencfg(&prop);
        match prop.as_str() {
            "C05" => {
                emit_positive("C05", g, seed, programs, worlds, queries, &mut out);
                emit_negative("C05", g, seed, pairs, &mut out);
            }
            "C15" => {
                g.flags = 0;
                g.lits = true;
                let mut gp = g;
                gp.ids = 1;
                emit_positive("C15", gp, seed, programs, worlds, queries.min(2), &mut out);
                emit_negative("C15", g, seed, pairs, &mut out);
            }
            "C16" => {
                g.flags = m.get("flags").map(|s| s.parse().unwrap()).unwrap_or(3);
                emit_positive("C16", g, seed, programs, worlds, queries, &mut out);
            }
            "C18" => {
                crate::neg18::emit_c18(seed, pairs, &mut out);
            }
            "C08" => {
                // declarations in which two ARCHETYPES would share an id: if such a world compiled,
                // both archetypes would issue equal handles (C08 "not across archetypes")
                g.flags = 0;
                g.lits = false;
                g.ids = 2;
                g.max_comps = 3;
                emit_arch_collisions(g, seed, pairs, &mut out);
            }
            _ => return 3,
        }
    }
    if let Err(e) = out.write(&dir) {
        eprintln!("cannot write {}: {}", dir, e);
        return 3;
    }
    println!("EMIT prop={} files={} jobs={} {}", prop, out.files.len(), out.jobs.len(), out.stats.iter().map(|(k, v)| format!("{}={}", k, v)).collect::<Vec<_>>().join(" "));
    0
}
