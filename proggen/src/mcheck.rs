//! Engine M: the macro crate's parse / data / generate modules (included from /repo/macros/src
//! by #[path]) driven in-process and compared with the reference semantics.

use std::collections::BTreeSet;

use proc_macro2::{Delimiter, TokenStream, TokenTree};

use crate::data::DataWorld;
use crate::generate::{self, FetchMode};
use crate::parse::{HasCfgPredicates, ParseCfgDecorated, ParseEcsWorld, ParseQueryFind, ParseQueryIter, ParseQueryIterDestroy};
use crate::refsem::*;

/// A disagreement between the macro code and the reference (a property violation), or a
/// problem of this tool with the shape of the macro's output (inconclusive).
#[derive(Clone, Debug)]
pub enum MErr {
    Violation { tags: Vec<&'static str>, msg: String },
    Tool(String),
}

fn viol(tags: &[&'static str], msg: String) -> MErr {
    MErr::Violation { tags: tags.to_vec(), msg }
}

fn squeeze(s: &str) -> String {
    s.chars().filter(|c| !c.is_whitespace()).collect()
}

/// Truth value of a predicate token stream the way rustc's cfg would evaluate it.
fn eval_pred_text(text: &str, flags: u32) -> Option<bool> {
    let t = squeeze(text);
    for l in 0u8..6 {
        if squeeze(&Pred::Lit(l).text()) == t {
            return Some(Pred::Lit(l).eval(flags));
        }
    }
    for k in 0u8..16 {
        if squeeze(&Pred::Flag(k).text()) == t {
            return Some(Pred::Flag(k).eval(flags));
        }
        if squeeze(&Pred::NotFlag(k).text()) == t {
            return Some(Pred::NotFlag(k).eval(flags));
        }
    }
    None
}

fn bools_text(preds: &[TokenStream], flags: u32) -> Result<String, MErr> {
    let mut v = Vec::new();
    for p in preds {
        match eval_pred_text(&p.to_string(), flags) {
            Some(b) => v.push(b.to_string()),
            None => return Err(MErr::Tool(format!("cannot evaluate predicate '{}'", p))),
        }
    }
    Ok(v.join(", "))
}

/// Interprets the cfg-probing `macro_rules!` chain emitted by `generate_cfg_checks_*` (which the
/// real pipeline hands to rustc): starting from `()`, each step macro has one definition under
/// `#[cfg(p)]` and one under `#[cfg(not(p))]`; the active one rewrites the boolean list according to
/// its transcriber and calls the next step. Returns the list that reaches `__impl_ecs_*`.
pub fn interpret_probing_chain(chain: &TokenStream, name: &str, flags: u32) -> Result<Vec<bool>, MErr> {
    let mut toks = Vec::new();
    flatten(chain, &mut toks);
    // collect definitions: (macro name, predicate text, negated, bool-list template tokens, next macro name)
    struct Def {
        name: String,
        pred: String,
        template: Vec<String>,
        next: String,
    }
    let mut defs: Vec<Def> = Vec::new();
    let mut i = 0;
    while i + 3 < toks.len() {
        if toks[i] == "#" && toks[i + 1] == "[" && toks[i + 2] == "cfg" && toks[i + 3] == "(" {
            let close = matching(&toks, i + 3).ok_or_else(|| MErr::Tool("unbalanced cfg attribute in probing chain".into()))?;
            let pred = toks[i + 4..close].join("");
            // find the macro_rules! that follows
            let mut j = close;
            while j + 2 < toks.len() && !(toks[j] == "macro_rules" && toks[j + 1] == "!") {
                j += 1;
            }
            if j + 3 >= toks.len() {
                break;
            }
            let mname = toks[j + 2].clone();
            let body_open = j + 3;
            let body_close = matching(&toks, body_open).ok_or_else(|| MErr::Tool("unbalanced macro body in probing chain".into()))?;
            // transcriber: after `=>` `{` ... NEXT ! ( ( template ) , ...
            let arrow = (body_open..body_close).find(|k| toks[*k] == "=" && toks[*k + 1] == ">").ok_or_else(|| MErr::Tool("no => in probing macro".into()))?;
            let bang = (arrow..body_close).find(|k| toks[*k] == "!" && toks[*k + 1] == "(" && toks[*k + 2] == "(").ok_or_else(|| MErr::Tool("no next-step invocation in probing macro".into()))?;
            let next = toks[bang - 1].clone();
            let t_open = bang + 2;
            let t_close = matching(&toks, t_open).ok_or_else(|| MErr::Tool("unbalanced template".into()))?;
            defs.push(Def { name: mname, pred, template: toks[t_open + 1..t_close].to_vec(), next });
            i = body_close;
        } else {
            i += 1;
        }
    }
    let mut bools: Vec<bool> = Vec::new();
    let mut cur = format!("__cfg_ecs_{}_0", name);
    let finish = format!("__impl_ecs_{}", name);
    let mut steps = 0;
    while cur != finish {
        steps += 1;
        if steps > 64 {
            return Err(MErr::Tool("probing chain does not terminate".into()));
        }
        // exactly one definition of `cur` is active under the assignment
        let mut active: Vec<&Def> = Vec::new();
        for d in defs.iter().filter(|d| d.name == cur) {
            let (neg, inner) = if d.pred.starts_with("not(") && d.pred.ends_with(')') && eval_pred_text(&d.pred, flags).is_none() {
                (true, d.pred[4..d.pred.len() - 1].to_string())
            } else {
                (false, d.pred.clone())
            };
            // `not(p)` definitions: p itself may be one of our `not(..)` forms, so try the whole text first
            let truth = match eval_pred_text(&d.pred, flags) {
                Some(t) if !neg => t,
                _ => !eval_pred_text(&inner, flags).ok_or_else(|| MErr::Tool(format!("cannot evaluate predicate '{}' in probing chain", d.pred)))?,
            };
            if truth {
                active.push(d);
            }
        }
        if active.len() != 1 {
            return Err(viol(&["C16"], format!("cfg probing chain: step {} has {} active definitions under flags {:#b}", cur, active.len(), flags)));
        }
        let d = active[0];
        // expand the template: `$ ( $ bools , ) *`, `$ ( , $ bools ) *`, literals
        let mut out: Vec<bool> = Vec::new();
        let t = &d.template;
        let mut k = 0;
        while k < t.len() {
            if t[k] == "$" && k + 1 < t.len() && t[k + 1] == "(" {
                let c = matching(t, k + 1).ok_or_else(|| MErr::Tool("unbalanced repetition in template".into()))?;
                if !t[k + 2..c].iter().any(|x| x == "bools") {
                    return Err(MErr::Tool("unknown repetition in probing template".into()));
                }
                out.extend(bools.iter().copied());
                k = c + 1;
                if k < t.len() && (t[k] == "*" || t[k] == "+") {
                    k += 1;
                }
            } else if t[k] == "true" {
                out.push(true);
                k += 1;
            } else if t[k] == "false" {
                out.push(false);
                k += 1;
            } else if t[k] == "," {
                k += 1;
            } else {
                return Err(MErr::Tool(format!("unknown token '{}' in probing template", t[k])));
            }
        }
        bools = out;
        cur = d.next.clone();
    }
    Ok(bools)
}

/// The boolean list the real pipeline would deliver: through the generated probing chain.
fn chain_bools(chain: &TokenStream, name: &str, preds: &[TokenStream], flags: u32) -> Result<String, MErr> {
    if preds.is_empty() {
        return Ok(String::new());
    }
    let got = interpret_probing_chain(chain, name, flags)?;
    if got.len() != preds.len() {
        return Err(viol(&["C16"], format!("cfg probing chain delivers {} states for {} distinct predicates", got.len(), preds.len())));
    }
    Ok(got.iter().map(|b| b.to_string()).collect::<Vec<_>>().join(", "))
}

fn parse_ts(s: &str) -> Result<TokenStream, MErr> {
    s.parse::<TokenStream>().map_err(|e| MErr::Tool(format!("cannot tokenize generated input: {} in `{}`", e, s)))
}

/// Runs the world half of the pipeline exactly as the proc macros do: first parse, predicate
/// collection, (emulated) cfg probing, second parse, DataWorld::new.
pub fn run_world(decl: &WorldDecl, flags: u32) -> Result<Result<DataWorld, String>, MErr> {
    let body = parse_ts(&decl.body_text())?;
    let first = match syn::parse2::<ParseEcsWorld>(body.clone()) {
        Ok(p) => p,
        Err(e) => return Ok(Err(e.to_string())),
    };
    let preds = first.collect_all_cfg_predicates();
    // the expansion of the probing chain is scanned too (C18a)
    let probing = generate::generate_cfg_checks_outer("world", &first, body.clone());
    scan_unsafe(&probing, "cfg probing chain of ecs_world!")?;
    // the states travel through the generated macro_rules! chain, exactly as under rustc
    let _ = bools_text(&preds, flags)?;
    let decorated = parse_ts(&format!("({}), {{ {} }}", chain_bools(&probing, "world", &preds, flags)?, body))?;
    let second = match syn::parse2::<ParseCfgDecorated<ParseEcsWorld>>(decorated) {
        Ok(p) => p,
        Err(e) => return Ok(Err(e.to_string())),
    };
    match DataWorld::new(second) {
        Ok(w) => Ok(Ok(w)),
        Err(e) => Ok(Err(e.to_string())),
    }
}

/// C15 / C16 (declaration half): ids and filtering against the reference.
pub fn check_world(decl: &WorldDecl, flags: u32) -> Result<Option<DataWorld>, MErr> {
    let want = decl.resolve(flags);
    let got = run_world(decl, flags)?;
    match (want, got) {
        (Ok(rw), Ok(dw)) => {
            let same = dw.name == rw.name
                && dw.archetypes.len() == rw.archs.len()
                && dw.archetypes.iter().zip(rw.archs.iter()).all(|(d, r)| d.name == r.name && d.id == r.id && d.components.len() == r.comps.len() && d.components.iter().zip(r.comps.iter()).all(|(dc, rc)| dc.name == rc.name && dc.id == rc.id));
            if !same {
                let show = |dw: &DataWorld| dw.archetypes.iter().map(|a| format!("{}={}({})", a.name, a.id, a.components.iter().map(|c| format!("{}={}", c.name, c.id)).collect::<Vec<_>>().join(","))).collect::<Vec<_>>().join(" ");
                let showr = rw.archs.iter().map(|a| format!("{}={}({})", a.name, a.id, a.comps.iter().map(|c| format!("{}={}", c.name, c.id)).collect::<Vec<_>>().join(","))).collect::<Vec<_>>().join(" ");
                return Err(viol(&["C15", "C16"], format!("declaration resolves to [{}] but the discriminant rule / cfg filtering gives [{}] (flags {:#b})\n{}", show(&dw), showr, flags, decl.body_text())));
            }
            // generated code of the world itself is scanned for unsafe (C18a)
            let tokens = generate::generate_world(&dw, &decl.body_text());
            scan_unsafe(&tokens, "expansion of ecs_world!")?;
            // round trip of the serialized world data handed to the query macros
            let back = DataWorld::from_base64(&dw.to_base64());
            if format!("{:?}", back) != format!("{:?}", dw) {
                return Err(viol(&["C05"], "world data does not survive the base64 round trip to the query macros".into()));
            }
            Ok(Some(dw))
        }
        (Err(IdError::Degenerate), _) => Ok(None), // excluded by the generators (soundness decision 6)
        (Err(e), Err(msg)) => {
            let ok = match &e {
                IdError::AlreadyAssigned { id, first, .. } => msg.contains("already assigned") && msg.contains(&format!("attribute id {} ", id)) && msg.contains(first.as_str()),
                IdError::Exceeds255 { .. } => msg.contains("may not exceed 255"),
                IdError::LiteralTooLarge { .. } => msg.contains("too large") || msg.contains("number"),
                IdError::Degenerate => true,
            };
            if !ok {
                return Err(viol(&["C15"], format!("declaration is rejected with '{}' but the reference expects {:?}\n{}", msg, e, decl.body_text())));
            }
            Ok(None)
        }
        (Err(e), Ok(dw)) => Err(viol(&["C15"], format!("declaration must be rejected ({:?}) but resolves to ids [{}]\n{}", e, dw.archetypes.iter().map(|a| format!("{}={}", a.name, a.id)).collect::<Vec<_>>().join(" "), decl.body_text()))),
        (Ok(_), Err(msg)) => Err(viol(&["C15", "C16"], format!("valid declaration is rejected with '{}' (flags {:#b})\n{}", msg, flags, decl.body_text()))),
    }
}

// ----------------------------------------------------------------------------------------------
// token walking
// ----------------------------------------------------------------------------------------------

pub fn flatten(ts: &TokenStream, out: &mut Vec<String>) {
    for t in ts.clone() {
        match t {
            TokenTree::Group(g) => {
                let (o, c) = match g.delimiter() {
                    Delimiter::Parenthesis => ("(", ")"),
                    Delimiter::Brace => ("{", "}"),
                    Delimiter::Bracket => ("[", "]"),
                    Delimiter::None => ("", ""),
                };
                if !o.is_empty() {
                    out.push(o.to_string());
                }
                flatten(&g.stream(), out);
                if !c.is_empty() {
                    out.push(c.to_string());
                }
            }
            TokenTree::Ident(i) => out.push(i.to_string()),
            TokenTree::Punct(p) => out.push(p.as_char().to_string()),
            TokenTree::Literal(l) => out.push(l.to_string()),
        }
    }
}

/// C18a: no `unsafe` token in anything the generators emit.
pub fn scan_unsafe(ts: &TokenStream, what: &str) -> Result<(), MErr> {
    let mut toks = Vec::new();
    flatten(ts, &mut toks);
    for (i, t) in toks.iter().enumerate() {
        if t == "unsafe" {
            let ctx = toks[i.saturating_sub(6)..(i + 8).min(toks.len())].join(" ");
            return Err(viol(&["C18"], format!("the {} contains the `unsafe` keyword: ... {} ...", what, ctx)));
        }
        // attributes forbid(unsafe_code) would also reject
        if (t == "no_mangle" || t == "export_name" || t == "link_section") && i >= 2 && toks[i - 1] == "[" {
            return Err(viol(&["C18"], format!("the {} contains an attribute rejected under forbid(unsafe_code): {}", what, t)));
        }
    }
    Ok(())
}

/// One matched archetype as observed in an expansion.
#[derive(Clone, Debug, PartialEq, Eq)]
pub struct ObsMatch {
    pub arch: String,
    /// (is cfg-decorated, is_mut, type text without spaces) per closure parameter
    pub params: Vec<(bool, bool, String)>,
    /// argument expressions of the closure call, without spaces
    pub args: Vec<String>,
}

fn split_top(tokens: &[String]) -> Vec<Vec<String>> {
    let mut out = vec![Vec::new()];
    let mut depth = 0i32;
    let mut angle = 0i32;
    for t in tokens {
        match t.as_str() {
            "(" | "[" | "{" => depth += 1,
            ")" | "]" | "}" => depth -= 1,
            "<" => angle += 1,
            ">" => angle -= 1,
            _ => {}
        }
        if t == "," && depth == 0 && angle <= 0 {
            out.push(Vec::new());
        } else {
            out.last_mut().unwrap().push(t.clone());
        }
    }
    if out.last().map(|v| v.is_empty()).unwrap_or(false) {
        out.pop();
    }
    out
}

fn matching(tokens: &[String], open_at: usize) -> Option<usize> {
    let (o, c) = match tokens[open_at].as_str() {
        "(" => ("(", ")"),
        "{" => ("{", "}"),
        "[" => ("[", "]"),
        _ => return None,
    };
    let mut d = 0;
    for i in open_at..tokens.len() {
        if tokens[i] == o {
            d += 1;
        } else if tokens[i] == c {
            d -= 1;
            if d == 0 {
                return Some(i);
            }
        }
    }
    None
}

/// Extracts the matched archetypes, closure parameter types and call arguments.
pub fn observe_query(ts: &TokenStream, nparams: usize) -> Result<Vec<ObsMatch>, MErr> {
    let mut toks = Vec::new();
    flatten(ts, &mut toks);
    let mut out: Vec<ObsMatch> = Vec::new();
    let mut i = 0;
    while i + 4 < toks.len() {
        if toks[i] == "type" && toks[i + 1] == "MatchedArchetype" && toks[i + 2] == "=" {
            let arch = toks[i + 3].clone();
            // closure definition: let mut closure = | ... |
            let mut j = i + 4;
            while j + 3 < toks.len() && !(toks[j] == "closure" && toks[j + 1] == "=" && toks[j + 2] == "|") {
                j += 1;
            }
            if j + 3 >= toks.len() {
                return Err(MErr::Tool("closure definition not found after MatchedArchetype".into()));
            }
            let pstart = j + 3;
            let mut pend = pstart;
            // the parameter list contains no `|` of its own
            while pend < toks.len() && toks[pend] != "|" {
                pend += 1;
            }
            let params_t = split_top(&toks[pstart..pend]);
            let mut params = Vec::new();
            for p in &params_t {
                let has_cfg = p.first().map(|t| t == "#").unwrap_or(false);
                let colon = p.iter().position(|t| t == ":").ok_or_else(|| MErr::Tool(format!("closure parameter without ':' : {}", p.join(" "))))?;
                let mut ty: Vec<String> = p[colon + 1..].to_vec();
                if ty.first().map(|t| t == "&").unwrap_or(false) {
                    ty.remove(0);
                }
                let is_mut = ty.first().map(|t| t == "mut").unwrap_or(false);
                if is_mut {
                    ty.remove(0);
                }
                params.push((has_cfg, is_mut, ty.join("")));
            }
            // closure call: closure ( ... )
            let mut k = pend;
            while k + 1 < toks.len() && !(toks[k] == "closure" && toks[k + 1] == "(") {
                k += 1;
            }
            if k + 1 >= toks.len() {
                return Err(MErr::Tool("closure call not found".into()));
            }
            let close = matching(&toks, k + 1).ok_or_else(|| MErr::Tool("unbalanced closure call".into()))?;
            let args: Vec<String> = split_top(&toks[k + 2..close]).iter().map(|a| a.join("")).collect();
            if params.len() != nparams || args.len() != nparams {
                return Err(MErr::Tool(format!("expected {} parameters, found {} in the closure and {} in its call", nparams, params.len(), args.len())));
            }
            let m = ObsMatch { arch, params, args };
            if !out.contains(&m) {
                // find queries emit two identical blocks per archetype (typed and direct key)
                if out.iter().any(|o| o.arch == m.arch) {
                    return Err(viol(&["C05"], format!("two different expansions for archetype {}", m.arch)));
                }
                out.push(m);
            }
            i = close;
        } else {
            i += 1;
        }
    }
    Ok(out)
}

fn snake(name: &str) -> String {
    // independent re-implementation for PascalCase identifiers made of letters
    let mut s = String::new();
    for (i, c) in name.chars().enumerate() {
        if c.is_ascii_uppercase() {
            if i > 0 {
                s.push('_');
            }
            s.push(c.to_ascii_lowercase());
        } else {
            s.push(c);
        }
    }
    s
}

/// Runs the query half of the pipeline as the proc macros do and compares with the reference.
/// Returns the number of matched archetypes (None when the query is a rejected one).
pub fn check_query(dw: &DataWorld, rw: &RWorld, q: &Query, flags: u32) -> Result<Option<usize>, MErr> {
    let b64 = dw.to_base64();
    let body = "{ }";
    let raw = if q.kind.is_find() { format!("\"{}\", world, entity, {} {}", b64, q.params_text_varied(), body) } else { format!("\"{}\", world, {} {}", b64, q.params_text_varied(), body) };
    let raw_ts = parse_ts(&raw)?;
    // first parse + predicate collection + probing chain
    let (preds, probing): (Vec<TokenStream>, TokenStream) = match q.kind {
        QKind::Find | QKind::FindBorrow => match syn::parse2::<ParseQueryFind>(raw_ts.clone()) {
            Ok(p) => (p.collect_all_cfg_predicates(), generate::generate_cfg_checks_inner("find", &p, raw_ts.clone())),
            Err(e) => return judge_parse_error(q, rw, flags, &e.to_string()),
        },
        QKind::Iter | QKind::IterBorrow => match syn::parse2::<ParseQueryIter>(raw_ts.clone()) {
            Ok(p) => (p.collect_all_cfg_predicates(), generate::generate_cfg_checks_inner("iter", &p, raw_ts.clone())),
            Err(e) => return judge_parse_error(q, rw, flags, &e.to_string()),
        },
        QKind::IterDestroy => match syn::parse2::<ParseQueryIterDestroy>(raw_ts.clone()) {
            Ok(p) => (p.collect_all_cfg_predicates(), generate::generate_cfg_checks_inner("iter_destroy", &p, raw_ts.clone())),
            Err(e) => return judge_parse_error(q, rw, flags, &e.to_string()),
        },
    };
    scan_unsafe(&probing, "cfg probing chain of a query macro")?;
    let chain_name = match q.kind {
        QKind::Find | QKind::FindBorrow => "find",
        QKind::Iter | QKind::IterBorrow => "iter",
        QKind::IterDestroy => "iter_destroy",
    };
    let decorated = parse_ts(&format!("({}), {{ {} }}", chain_bools(&probing, chain_name, &preds, flags)?, raw))?;
    let result: Result<TokenStream, String> = match q.kind {
        QKind::Find => syn::parse2::<ParseCfgDecorated<ParseQueryFind>>(decorated).and_then(|p| generate::generate_query_find(FetchMode::Mut, p)),
        QKind::FindBorrow => syn::parse2::<ParseCfgDecorated<ParseQueryFind>>(decorated).and_then(|p| generate::generate_query_find(FetchMode::Borrow, p)),
        QKind::Iter => syn::parse2::<ParseCfgDecorated<ParseQueryIter>>(decorated).and_then(|p| generate::generate_query_iter(FetchMode::Mut, p)),
        QKind::IterBorrow => syn::parse2::<ParseCfgDecorated<ParseQueryIter>>(decorated).and_then(|p| generate::generate_query_iter(FetchMode::Borrow, p)),
        QKind::IterDestroy => syn::parse2::<ParseCfgDecorated<ParseQueryIterDestroy>>(decorated).and_then(|p| generate::generate_query_iter_destroy(FetchMode::Mut, p)),
    }
    .map_err(|e| e.to_string());
    let want = q.matches(rw, flags);
    let desc = || format!("{}!(.., {}) over [{}] (flags {:#b})", q.kind.macro_name(), q.params_text_varied(), rw.archs.iter().map(|a| format!("{}({})", a.name, a.comps.iter().map(|c| c.name.clone()).collect::<Vec<_>>().join(","))).collect::<Vec<_>>().join(" "), flags);
    match (want, result) {
        (Err(e), Err(msg)) => {
            let ok = match e {
                QError::NoMatch => msg.contains("matched no archetypes"),
                QError::Ambiguous { .. } => msg.contains("ambiguous"),
                QError::CfgOnOneOf => msg.contains("not currently supported"),
                QError::MutEntity => msg.contains("mut entity access is forbidden"),
            };
            if !ok {
                return Err(viol(&["C05"], format!("{} is rejected with '{}', expected {:?}", desc(), msg, e)));
            }
            Ok(None)
        }
        (Err(e), Ok(_)) => {
            // a query that only expands because some parameter carries a #[cfg] attribute does not
            // behave "as if the attribute were absent" / "as if the parameter had not been written"
            // (its cfg-free reduction is rejected): that is C16's violation as well as C05's
            let tags: &[&'static str] = if e == QError::MutEntity {
                &["C18"]
            } else if q.params.iter().any(|p| !p.cfgs.is_empty()) {
                &["C05", "C16"]
            } else {
                &["C05"]
            };
            Err(viol(tags, format!("{} must be rejected ({:?}) but expands", desc(), e)))
        }
        (Ok(m), Err(msg)) => Err(viol(&["C05", "C16"], format!("{} matches [{}] but is rejected with '{}'", desc(), m.iter().map(|x| x.0.clone()).collect::<Vec<_>>().join(","), msg))),
        (Ok(want), Ok(ts)) => {
            scan_unsafe(&ts, "expansion of a query macro")?;
            let got = observe_query(&ts, q.params.len())?;
            let got_set: BTreeSet<&String> = got.iter().map(|g| &g.arch).collect();
            let want_set: BTreeSet<&String> = want.iter().map(|w| &w.0).collect();
            if got_set != want_set {
                return Err(viol(&["C05", "C16"], format!("{} acts on archetypes {:?} but exactly {:?} satisfy it", desc(), got_set, want_set)));
            }
            for (arch, bound) in &want {
                let g = got.iter().find(|g| &g.arch == arch).unwrap();
                for (i, (b, p)) in bound.iter().zip(q.params.iter()).enumerate() {
                    let (has_cfg, is_mut, ty) = &g.params[i];
                    let arg = &g.args[i];
                    let want_ty = match (b, &p.ty) {
                        (Bound::Comp(c), _) => c.clone(),
                        (Bound::Entity(a), _) => format!("Entity<{}>", a),
                        (Bound::EntityAny, _) => "EntityAny".into(),
                        (Bound::EntityDirect(a), _) => format!("EntityDirect<{}>", a),
                        (Bound::EntityDirectAny, _) => "EntityDirectAny".into(),
                        // a disabled parameter keeps its written type and is compiled out by its cfg attribute
                        (Bound::Disabled, ParamTy::Comp(c)) => c.clone(),
                        (Bound::Disabled, ParamTy::Entity(a)) => format!("Entity<{}>", a),
                        (Bound::Disabled, ParamTy::EntityDirect(a)) => format!("EntityDirect<{}>", a),
                        (Bound::Disabled, ParamTy::EntityWild) => format!("Entity<{}>", arch),
                        (Bound::Disabled, ParamTy::EntityDirectWild) => format!("EntityDirect<{}>", arch),
                        (Bound::Disabled, ParamTy::EntityAny) => "EntityAny".into(),
                        (Bound::Disabled, ParamTy::EntityDirectAny) => "EntityDirectAny".into(),
                        (Bound::Disabled, ParamTy::OneOf(_)) => return Err(MErr::Tool("disabled OneOf".into())),
                    };
                    if *ty != want_ty {
                        return Err(viol(&["C05", "C16"], format!("{}: in archetype {} parameter {} is bound to type {} but must be {}", desc(), arch, i, ty, want_ty)));
                    }
                    if *is_mut != p.is_mut {
                        return Err(viol(&["C05"], format!("{}: mutability of parameter {} changed", desc(), i)));
                    }
                    if *has_cfg != !p.cfgs.is_empty() {
                        return Err(viol(&["C16"], format!("{}: parameter {} {} its cfg attribute in the expansion", desc(), i, if *has_cfg { "gained" } else { "lost" })));
                    }
                    // which column the argument reads
                    if let Bound::Comp(c) = b {
                        let ok = if q.kind.is_borrow() {
                            arg.contains(&format!("::<{}>()", c))
                        } else if q.kind.is_find() {
                            arg.ends_with(&format!("found.{}", snake(c)))
                        } else {
                            arg.contains(&format!("slices.{}[idx]", snake(c)))
                        };
                        if !ok {
                            return Err(viol(&["C05"], format!("{}: in archetype {} parameter {} ({}) is fed from `{}`", desc(), arch, i, c, arg)));
                        }
                    }
                }
            }
            Ok(Some(want.len()))
        }
    }
}

fn judge_parse_error(q: &Query, rw: &RWorld, flags: u32, msg: &str) -> Result<Option<usize>, MErr> {
    match q.matches(rw, flags) {
        Err(QError::MutEntity) if msg.contains("mut entity access is forbidden") => Ok(None),
        other => Err(viol(&["C05"], format!("query {} fails to parse with '{}' (reference: {:?})", q.params_text(), msg, other.map(|m| m.len())))),
    }
}
