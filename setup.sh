#!/bin/bash
# setup_cmd: warm builds of every harness profile, offline, from files on disk only.
set -e
cd "$(dirname "$0")"
export CARGO_NET_OFFLINE=true
unset RUSTFLAGS
(cd harness && cargo build --profile chk --bin vh-run --target-dir target >/dev/null 2>&1 && cargo build --profile rel --bin vh-run --target-dir target >/dev/null 2>&1)
echo "setup ok"
