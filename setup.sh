#!/bin/bash
# setup_cmd: warm builds of every harness profile, offline, from files on disk only.
cd "$(dirname "$0")"
export CARGO_NET_OFFLINE=true
unset RUSTFLAGS
(
  cd harness
  cargo build --profile chk --bin vh-run --target-dir target >/dev/null 2>&1
  cargo build --profile rel --bin vh-run --target-dir target >/dev/null 2>&1
  cargo build --profile chk --bin vh-run --target-dir target-events --features events >/dev/null 2>&1
  cargo build --profile rel --bin vh-run --target-dir target-events --features events >/dev/null 2>&1
  for f in wide wrapping events,wide events,wrapping wide,wrapping events,wide,wrapping; do
    d=target-$(echo $f | tr ',' '-')
    cargo build --profile chk --bin vh-run --target-dir $d --features $f >/dev/null 2>&1 &
  done
  wait
  for f in wide wrapping events,wide events,wrapping wide,wrapping events,wide,wrapping; do
    d=target-$(echo $f | tr ',' '-')
    cargo build --profile rel --bin vh-run --target-dir $d --features $f >/dev/null 2>&1 &
  done
  wait
  RUSTFLAGS="--cfg gecs_verif -Zsanitizer=address" cargo +nightly build --profile rel --bin vh-run --target x86_64-unknown-linux-gnu --target-dir target-asan >/dev/null 2>&1
)
(cd proggen && cargo build --release --target-dir target >/dev/null 2>&1; cargo build --release --target-dir target-events --features events >/dev/null 2>&1)
(cd proggen/host && cargo build >/dev/null 2>&1; cargo build --target-dir target-events --features gecs/events >/dev/null 2>&1; cargo build --target-dir target-32_components --features gecs/32_components >/dev/null 2>&1)
echo "setup ok"
