//! Property specifications (generator profile, non-triviality rule) and the proptest front end.

use std::collections::{BTreeMap, BTreeSet};
use std::fmt::Write as _;

use proptest::collection::vec;
use proptest::prelude::*;
use proptest::test_runner::{Config, RngAlgorithm, RngSeed, TestCaseError, TestError, TestRng, TestRunner};

use crate::driver::WorldDriver;
use crate::interp::*;
use crate::ops::*;

pub struct PropSpec {
    pub id: &'static str,
    pub weights: Vec<(Kind, u32)>,
    /// labels of which at least one must be present ...
    pub any_of: Vec<&'static str>,
    /// ... together with all of these
    pub all_of: Vec<&'static str>,
    pub rule: &'static str,
}

impl PropSpec {
    pub fn nontrivial(&self, labels: &BTreeSet<&'static str>) -> bool {
        (self.any_of.is_empty() || self.any_of.iter().any(|l| labels.contains(l))) && self.all_of.iter().all(|l| labels.contains(l))
    }
    pub fn profile(&self) -> Profile {
        Profile { name: self.id, weights: self.weights.clone() }
    }
}

pub fn spec(id: &str) -> Option<PropSpec> {
    use Kind::*;
    Some(match id {
        "C01" => PropSpec {
            id: "C01",
            weights: vec![(Create, 22), (Destroy, 30), (Burst, 6), (Refill, 4), (DestroyDirect, 4), (IterDestroy, 6), (XIterDestroy, 3), (CloneWorld, 3), (Mint, 4), (Write, 2), (Iterate, 2), (DropWorld, 1), (Swap, 1), (Probe, 1)],
            any_of: vec!["stale_probe_reused_slot"],
            all_of: vec![],
            rule: "history over WMix/WOne drawn from a churn-biased op mix; non-trivial = it probes at least one stale handle whose storage slot is occupied by a later entity; distinct = hash of the decoded op list",
        },
        "C02" => PropSpec {
            id: "C02",
            weights: vec![(Create, 18), (Write, 28), (Destroy, 18), (Burst, 6), (Refill, 3), (IterDestroy, 4), (XIterDestroy, 2), (CloneWorld, 3), (DestroyDirect, 2), (Iterate, 6), (XIterate, 3), (Mint, 2), (DropWorld, 1), (Swap, 1), (Probe, 1)],
            any_of: vec!["nonlast_removal_multicol", "growth_with_live", "write_cross_path"],
            all_of: vec![],
            rule: "history with writes through every mutable path; non-trivial = a non-last entity was swap-removed from an archetype with >= 2 columns, or the storage grew with live entities, or a write through one path was read back through the others",
        },
        "C04" => PropSpec {
            id: "C04",
            weights: vec![(Create, 22), (Destroy, 24), (Burst, 6), (Refill, 6), (IterDestroy, 8), (XIterDestroy, 4), (CloneWorld, 7), (DropWorld, 5), (DestroyDirect, 4), (Write, 3), (Mint, 2), (Swap, 1), (Iterate, 1)],
            any_of: vec!["tracked_nonlast_removal", "clone_with_live_tracked", "drop_world_live_tracked_after_churn"],
            all_of: vec![],
            rule: "history over the drop-instrumented archetypes; non-trivial = a tracked value was removed from a non-last position, or a clone was taken with live tracked values, or a world was dropped with live tracked values after churn",
        },
        "C06" => PropSpec {
            id: "C06",
            weights: vec![(Create, 20), (Iterate, 22), (XIterate, 12), (Destroy, 18), (Burst, 8), (Refill, 4), (IterDestroy, 4), (XIterDestroy, 2), (Write, 4), (CloneWorld, 2), (DestroyDirect, 2), (Swap, 1)],
            any_of: vec!["iterate_ge3_after_nonlast_removal", "break_inside_multi_arch"],
            all_of: vec![],
            rule: "history with iteration through every iteration path; non-trivial = an iteration over >= 3 entities after a non-last removal, or a Break strictly inside a multi-archetype query",
        },
        "C07" => PropSpec {
            id: "C07",
            weights: vec![(Create, 20), (Burst, 14), (IterDestroy, 20), (XIterDestroy, 14), (Destroy, 10), (Refill, 3), (Write, 4), (CloneWorld, 2), (Mint, 3), (DestroyDirect, 2), (Iterate, 4), (XIterate, 2)],
            any_of: vec!["iter_destroy_nontrivial"],
            all_of: vec![],
            rule: "history with ecs_iter_destroy! loops driven by generated decision tables; non-trivial = a loop over >= 3 entities whose decisions contain a destroy followed by a keep, or a BreakDestroy",
        },
        "C08" => PropSpec {
            id: "C08",
            weights: vec![(Create, 26), (Destroy, 34), (Preset, 8), (Burst, 4), (Refill, 6), (IterDestroy, 8), (XIterDestroy, 3), (CloneWorld, 3), (DestroyDirect, 3), (DropWorld, 1), (Mint, 2), (Probe, 1)],
            any_of: vec!["slot_reused_ge3", "overflow_panic", "wrap_reuse", "generation_wrapped"],
            all_of: vec![],
            rule: "history with heavy slot recycling, optionally starting from generations preset next to u32::MAX; non-trivial = some slot was reused >= 3 times or the history crossed the overflow boundary",
        },
        "C09" => PropSpec {
            id: "C09",
            weights: vec![(Create, 20), (Mint, 20), (Destroy, 20), (DestroyDirect, 10), (Iterate, 6), (XIterate, 4), (IterDestroy, 5), (XIterDestroy, 3), (Burst, 4), (Refill, 2), (CloneWorld, 3), (Write, 2), (Swap, 1)],
            any_of: vec!["direct_used_after_removal_and_creation", "closure_direct_used_after_query"],
            all_of: vec![],
            rule: "history minting direct handles through to_direct and all query macros and using them later; non-trivial = a direct handle used after >= 1 removal and a later creation in its archetype, or a handle minted inside a query closure and used after the query",
        },
        "C12" => PropSpec {
            id: "C12",
            weights: vec![(Create, 18), (Refill, 16), (Destroy, 28), (Burst, 10), (IterDestroy, 6), (XIterDestroy, 3), (CloneWorld, 3), (DestroyDirect, 3), (DropWorld, 1), (Iterate, 2), (Probe, 1)],
            any_of: vec!["refill_after_scattered_removals_or_growth_after_churn"],
            all_of: vec![],
            rule: "history from all header capacities with create_within_capacity and refills; non-trivial = a refill to capacity after >= 2 removals at distinct positions or after growth that followed churn",
        },
        "C13" => PropSpec {
            id: "C13",
            weights: vec![(Create, 22), (Destroy, 22), (CloneWorld, 12), (Refill, 8), (Burst, 6), (Write, 8), (DropWorld, 4), (Swap, 3), (IterDestroy, 4), (XIterDestroy, 2), (Mint, 4), (DestroyDirect, 2), (Iterate, 2), (ClearEvents, 1)],
            any_of: vec!["clone_midfree_then_created2", "diverged3"],
            all_of: vec![],
            rule: "history with clones at arbitrary points followed by ops on either world; non-trivial = a clone taken with a free slot in the middle of the slot array in which >= 2 entities were created afterwards, or original and clone diverged by >= 3 ops each",
        },
        "C17" => PropSpec {
            id: "C17",
            weights: vec![(Create, 24), (Destroy, 24), (ClearEvents, 12), (Refill, 6), (Burst, 6), (IterDestroy, 8), (XIterDestroy, 4), (CloneWorld, 4), (DestroyDirect, 4), (DropWorld, 1), (Swap, 1), (Mint, 1)],
            any_of: vec!["destroy_dynamic_key", "iter_destroy_destroyed"],
            all_of: vec!["events_mixed_empty_nonempty", "clear_events"],
            rule: "history (feature events) with both creation paths, all destroy key kinds, ecs_iter_destroy! and clears; non-trivial = an observation with >= 2 archetypes with non-empty and >= 1 with empty logs, a destroy through a dynamic key or ecs_iter_destroy!, and a clear",
        },
        "C19" => PropSpec {
            id: "C19",
            weights: vec![(Create, 22), (Destroy, 22), (Write, 8), (Burst, 6), (Refill, 5), (IterDestroy, 6), (XIterDestroy, 3), (CloneWorld, 5), (Mint, 5), (DestroyDirect, 4), (Iterate, 5), (XIterate, 3), (DropWorld, 2), (Swap, 1), (ClearEvents, 2), (Probe, 1)],
            any_of: vec![],
            all_of: vec!["growth_with_live", "reuse_depth_ge2", "clone"],
            rule: "mixed history run identically under every feature/profile configuration; non-trivial = it contains growth with live entities, slot reuse of depth >= 2 and a clone",
        },
        "C14" => PropSpec {
            id: "C14",
            weights: vec![(Create, 30), (Destroy, 24), (Burst, 8), (Refill, 6), (CloneWorld, 4), (IterDestroy, 5), (Mint, 6), (Preset, 4), (DestroyDirect, 2), (Iterate, 2)],
            any_of: vec!["reuse_depth_ge2"],
            all_of: vec![],
            rule: "history part of C14: every handle returned by a create call must carry the ARCHETYPE_ID of the archetype that created it; non-trivial = slot reuse of depth >= 2",
        },
        "C19F" => PropSpec {
            id: "C19",
            weights: vec![(Create, 20), (Forge, 40), (Destroy, 18), (Burst, 6), (Refill, 4), (CloneWorld, 3), (IterDestroy, 3), (Mint, 3), (DestroyDirect, 2), (DropWorld, 1)],
            any_of: vec!["forge_dangerous"],
            all_of: vec![],
            rule: "forged-handle histories (C03 oracle) under every configuration",
        },
        "C19W" => PropSpec {
            id: "C19",
            weights: vec![(Create, 26), (Destroy, 34), (Preset, 10), (Burst, 4), (Refill, 6), (IterDestroy, 8), (XIterDestroy, 3), (CloneWorld, 3), (DestroyDirect, 3), (DropWorld, 1), (Mint, 2), (Probe, 1)],
            any_of: vec!["slot_reused_ge3", "overflow_panic", "wrap_reuse", "generation_wrapped"],
            all_of: vec![],
            rule: "boundary-crossing histories (generation presets next to u32::MAX) under the wrapping_version configurations",
        },
        "C03" => PropSpec {
            id: "C03",
            weights: vec![(Create, 20), (Forge, 40), (Destroy, 18), (Burst, 6), (Refill, 4), (CloneWorld, 3), (IterDestroy, 3), (Mint, 3), (DestroyDirect, 2), (DropWorld, 1)],
            any_of: vec!["forge_dangerous"],
            all_of: vec![],
            rule: "history followed/interleaved by forged-handle probes constructed for boundary classes; non-trivial = it contains a probe in a dangerous class (free slot with matching generation, index == capacity, direct index == len with matching version, cross-world direct handle with matching version, undeclared archetype id)",
        },
        "C10" => PropSpec {
            id: "C10",
            weights: vec![(Create, 20), (Destroy, 20), (Preset, 6), (Burst, 6), (IterDestroy, 8), (XIterDestroy, 4), (Iterate, 6), (XIterate, 4), (Write, 6), (Mint, 4), (CloneWorld, 6), (DropWorld, 3), (Refill, 3), (DestroyDirect, 3)],
            any_of: vec!["injected_fired_ge2_live", "overflow_panic"],
            all_of: vec![],
            rule: "history re-run once per injection point (k-th closure call / Clone / Drop, generation overflow via preset); non-trivial = the injected or documented panic fired with >= 2 live entities in the world",
        },
        _ => return None,
    })
}

#[derive(Default)]
pub struct Stats {
    pub evaluations: u64,
    pub nontrivial_hashes: BTreeSet<u64>,
    pub label_hist: BTreeMap<&'static str, u64>,
    pub counters: BTreeMap<&'static str, u64>,
    pub collateral: BTreeMap<String, u64>,
    pub samples: Vec<String>,
    pub ops_run: u64,
    pub traces: Vec<(u64, u64)>,
    pub frozen: bool,
}

impl Stats {
    pub fn record(&mut self, spec: &PropSpec, case: &Case, out: &Outcome) {
        if self.frozen {
            return;
        }
        self.evaluations += 1;
        self.ops_run += out.ops_run as u64;
        for l in &out.labels {
            *self.label_hist.entry(l).or_insert(0) += 1;
        }
        for (k, v) in &out.counters {
            *self.counters.entry(k).or_insert(0) += v;
        }
        if spec.nontrivial(&out.labels) {
            let h = case.hash();
            if self.nontrivial_hashes.insert(h) && self.samples.len() < 2 && case.ops.len() <= 40 {
                self.samples.push(case.to_text());
            }
        }
        if let Some(f) = &out.fail {
            if !f.tags.contains(&spec.id) {
                *self.collateral.entry(format!("{}:{}", f.tags.join("+"), f.sig)).or_insert(0) += 1;
            }
        }
    }

    pub fn to_json(&self) -> String {
        let mut s = String::from("{");
        let _ = write!(s, "\"evaluations\":{},\"ops_run\":{},", self.evaluations, self.ops_run);
        let _ = write!(s, "\"nontrivial_hashes\":[{}],", self.nontrivial_hashes.iter().map(|h| format!("\"{:016x}\"", h)).collect::<Vec<_>>().join(","));
        let _ = write!(s, "\"labels\":{{{}}},", self.label_hist.iter().map(|(k, v)| format!("\"{}\":{}", k, v)).collect::<Vec<_>>().join(","));
        let _ = write!(s, "\"counters\":{{{}}},", self.counters.iter().map(|(k, v)| format!("\"{}\":{}", k, v)).collect::<Vec<_>>().join(","));
        let _ = write!(s, "\"collateral\":{{{}}},", self.collateral.iter().map(|(k, v)| format!("{}:{}", json_str(k), v)).collect::<Vec<_>>().join(","));
        let _ = write!(s, "\"traces\":[{}],", self.traces.iter().map(|(h, t)| format!("[\"{:016x}\",\"{:016x}\"]", h, t)).collect::<Vec<_>>().join(","));
        let _ = write!(s, "\"samples\":[{}]", self.samples.iter().map(|t| json_str(t)).collect::<Vec<_>>().join(","));
        s.push('}');
        s
    }
}

pub fn json_str(s: &str) -> String {
    let mut o = String::with_capacity(s.len() + 2);
    o.push('"');
    for c in s.chars() {
        match c {
            '"' => o.push_str("\\\""),
            '\\' => o.push_str("\\\\"),
            '\n' => o.push_str("\\n"),
            '\r' => o.push_str("\\r"),
            '\t' => o.push_str("\\t"),
            c if (c as u32) < 0x20 => {
                let _ = write!(o, "\\u{:04x}", c as u32);
            }
            c => o.push(c),
        }
    }
    o.push('"');
    o
}

/// Result of a generated search.
pub struct Search {
    pub stats: Stats,
    /// shrunk failing case and its failure, if any
    pub failure: Option<(Case, Fail)>,
}

pub fn make_case<W: WorldDriver>(spec: &PropSpec, hdr: &[u8], recs: &[Rec]) -> Case {
    let narch = W::archs().len();
    let mut ops = spec.profile().decode_all(recs);
    if let Some((arch, k)) = PREFILL.with(|p| p.get()) {
        // every second prefilled case (a header bit, so that deleting ops while shrinking does not
        // toggle it) drains the large archetype completely through `ecs_iter_destroy!` a third of
        // the way in and creates in it again: "a large archetype becomes empty and is refilled" is
        // a state no random destroy sequence reaches (storage that is released or rebuilt when an
        // archetype empties would lose its slot generations / shrink its capacity there)
        // (mid-size prefills only: with ~100 000 tracked entities one drain costs many seconds)
        if k <= 16 && hdr.first().map_or(false, |b| b & 0x10 != 0) {
            let at = ops.len() / 3;
            ops.insert(at, Op::Burst { sim: 0, arch, path: 0, n: 24 });
            ops.insert(at, Op::IterDestroy { sim: 0, arch, variant: hdr[0] >> 5, seed: 0x5555 });
        }
        ops.insert(0, Op::Prefill { sim: 0, arch, k });
    }
    Case { world: W::NAME.to_string(), header: Header::decode(hdr, narch), ops }
}

pub fn seeded_config(cases: u32, seed: u64) -> (Config, TestRng) {
    let mut bytes = [0u8; 32];
    let mut z = seed;
    for chunk in bytes.chunks_mut(8) {
        z = crate::util::mix(z);
        chunk.copy_from_slice(&z.to_le_bytes());
    }
    // every evaluation of a prefilled case costs about a second: bound the shrinking effort there
    let max_shrink_iters = if PREFILL.with(|p| p.get()).is_some() { 48 } else { 4000 };
    let cfg = Config { cases, failure_persistence: None, max_shrink_iters, rng_seed: RngSeed::Fixed(seed), ..Config::default() };
    (cfg, TestRng::from_seed(RngAlgorithm::ChaCha, &bytes))
}

/// Generated search for one property over world `W`.
thread_local! {
    /// (hash to look for, file to write the case to): used to recover a case from its hash
    pub static DUMP: std::cell::RefCell<Option<(u64, String)>> = std::cell::RefCell::new(None);
}

thread_local! {
    /// `--prefill arch,k`: every generated case starts with `Op::Prefill` (k * 1024 creations)
    pub static PREFILL: std::cell::Cell<Option<(u8, u8)>> = std::cell::Cell::new(None);
}

pub fn search<W: WorldDriver>(spec: &PropSpec, cfg: &Cfg, cases: u32, max_len: usize, seed: u64, record_traces: bool, last_case: Option<&str>) -> Search {
    let narch = W::archs().len();
    let strategy = (vec(any::<u8>(), 1 + narch), vec(any::<Rec>(), 0..=max_len));
    let (config, rng) = seeded_config(cases, seed);
    let mut runner = TestRunner::new_with_rng(config, rng);
    let stats = std::cell::RefCell::new(Stats::default());
    let result = runner.run(&strategy, |(hdr, recs)| {
        let case = make_case::<W>(spec, &hdr, &recs);
        DUMP.with(|d| {
            if let Some((h, path)) = d.borrow().as_ref() {
                if case.hash() == *h {
                    let _ = std::fs::write(path, case.to_text());
                }
            }
        });
        if let Some(p) = last_case {
            // so that a crash (signal, abort) of this process can be attributed to a case
            let _ = std::fs::write(p, case.to_text());
        }
        let out = Session::<W>::run(&case, cfg);
        let mut st = stats.borrow_mut();
        st.record(spec, &case, &out);
        if record_traces && !st.frozen {
            let h = case.hash();
            st.traces.push((h, out.trace));
        }
        match &out.fail {
            Some(f) if f.tags.contains(&spec.id) => {
                st.frozen = true; // shrinking re-runs the closure: stop counting
                Err(TestCaseError::fail(f.sig.clone()))
            }
            _ => Ok(()),
        }
    });
    let mut failure = None;
    if let Err(TestError::Fail(_, (hdr, recs))) = result {
        let mut case = make_case::<W>(spec, &hdr, &recs);
        // proptest shrinks the records; finish with a greedy pass deleting whole ops
        let fails = |c: &Case| Session::<W>::run(c, cfg).fail.map(|f| f.tags.contains(&spec.id)).unwrap_or(false);
        let mut changed = true;
        let mut passes = 0;
        while changed && (passes < 2 || PREFILL.with(|p| p.get()).is_none()) {
            passes += 1;
            changed = false;
            let mut i = 0;
            while i < case.ops.len() {
                let mut c2 = case.clone();
                c2.ops.remove(i);
                if fails(&c2) {
                    case = c2;
                    changed = true;
                } else {
                    i += 1;
                }
            }
        }
        let strict = cfg.clone();
        let out = Session::<W>::run(&case, &strict);
        if let Some(f) = out.fail {
            failure = Some((case, f));
        } else {
            failure = Some((case, Fail { tags: vec![spec.id], msg: "shrunk case no longer fails when re-run (non-deterministic?)".into(), step: 0, sig: "flaky".into(), parts: Vec::new() }));
        }
    }
    Search { stats: stats.into_inner(), failure }
}
