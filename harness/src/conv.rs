//! C14: conversion / Eq / Hash laws of the four handle types and the generated Select* enums,
//! over generated raw values, pairs of raw values and direct handles.

use std::collections::{BTreeSet, HashMap, HashSet};

use gecs::prelude::*;
use proptest::prelude::*;
use proptest::test_runner::{TestCaseError, TestError, TestRunner};

use crate::driver::{hash2, WorldDriver};
use crate::run::{seeded_config, Stats};
use crate::types::{any as mk_any, Ctor, Raw};
use crate::util::catch;

/// One generated input of the conversion laws.
#[derive(Clone, Debug, PartialEq, Eq, Hash)]
pub enum ConvCase {
    /// a raw (key, generation) pair, generation possibly 0
    Raw(u32, u32),
    /// two raw pairs (non-zero generations)
    Pair((u32, u32), (u32, u32)),
    /// a set of raw pairs put into hash collections
    Set(Vec<(u32, u32)>),
    /// direct handles built for archetype `a` (index) at dense index `idx` and archetype version
    /// `version`, twice (to compare two of them)
    Direct { a: u8, idx: u32, version: u32, a2: u8, idx2: u32, version2: u32 },
}

impl ConvCase {
    pub fn to_line(&self) -> String {
        match self {
            ConvCase::Raw(k, g) => format!("raw {} {}", k, g),
            ConvCase::Pair(a, b) => format!("pair {} {} {} {}", a.0, a.1, b.0, b.1),
            ConvCase::Set(v) => format!("set {}", v.iter().map(|r| format!("{} {}", r.0, r.1)).collect::<Vec<_>>().join(" ")),
            ConvCase::Direct { a, idx, version, a2, idx2, version2 } => format!("direct {} {} {} {} {} {}", a, idx, version, a2, idx2, version2),
        }
    }

    pub fn from_line(line: &str) -> Result<ConvCase, String> {
        let line = line.split('#').next().unwrap().trim();
        let mut it = line.split_whitespace();
        let name = it.next().ok_or("empty")?;
        let a: Vec<u32> = it.map(|t| t.parse::<u32>().map_err(|e| e.to_string())).collect::<Result<_, _>>()?;
        match (name, a.len()) {
            ("raw", 2) => Ok(ConvCase::Raw(a[0], a[1])),
            ("pair", 4) => Ok(ConvCase::Pair((a[0], a[1]), (a[2], a[3]))),
            ("set", n) if n % 2 == 0 => Ok(ConvCase::Set(a.chunks(2).map(|c| (c[0], c[1])).collect())),
            ("direct", 6) => Ok(ConvCase::Direct { a: a[0] as u8, idx: a[1], version: a[2], a2: a[3] as u8, idx2: a[4], version2: a[5] }),
            _ => Err(format!("cannot parse '{}'", line)),
        }
    }
}

fn declared<W: WorldDriver>() -> Vec<u8> {
    W::archs().iter().map(|a| a.id).collect()
}

/// Checks all laws for one raw value with non-zero generation.
fn check_raw<W: WorldDriver>(raw: Raw) -> Result<(), String> {
    let infos = W::archs();
    let byte = raw.0 as u8;
    let e = EntityAny::from_raw(raw).map_err(|_| format!("from_raw({:?}) rejected a non-zero generation", raw))?;
    if e.raw() != raw {
        return Err(format!("from_raw({:?}).raw() == {:?}", raw, e.raw()));
    }
    if e.archetype_id() != byte {
        return Err(format!("from_raw({:?}).archetype_id() == {} (low byte is {})", raw, e.archetype_id(), byte));
    }
    if e.into_any() != e || e.into_any().raw() != raw {
        return Err(format!("EntityAny::into_any changed {:?}", raw));
    }
    let copy = e;
    if !(copy == e) || hash2(&copy) != hash2(&e) {
        return Err(format!("a copy of {:?} is not equal / does not hash equally", raw));
    }
    for (a, info) in infos.iter().enumerate() {
        let c = W::typed_roundtrip(a, raw);
        let m = info.id == byte;
        match (m, &c.try_from) {
            (true, Some(r)) if *r == raw => {}
            (true, other) => return Err(format!("Entity::<{}>::try_from({:?}) gave {:?}, expected Ok with the same bits", info.name, raw, other)),
            (false, None) => {}
            (false, Some(r)) => return Err(format!("Entity::<{}>::try_from({:?}) succeeded ({:?}) although the archetype id is {} not {}", info.name, raw, r, byte, info.id)),
        }
        match (m, &c.from_any) {
            (true, Ok(r)) if *r == raw => {}
            (false, Err(msg)) if msg.contains("invalid entity conversion") => {}
            (_, other) => return Err(format!("Entity::<{}>::from_any({:?}) gave {:?} (archetype id matches: {})", info.name, raw, other, m)),
        }
        if m {
            if c.typed_arch_id != Some(info.id) {
                return Err(format!("typed handle of {} reports archetype_id {:?}", info.name, c.typed_arch_id));
            }
            if !c.ref_views_ok {
                return Err(format!("reference conversion of Entity<{}> {:?} does not see the same bits", info.name, raw));
            }
            if !c.hash_agrees {
                return Err(format!("Entity<{}> {:?} and its EntityAny form hash differently", info.name, raw));
            }
            if !c.eq_reflexive {
                return Err(format!("Entity<{}> {:?}: Eq / From / Clone disagree", info.name, raw));
            }
        }
    }
    let decl = declared::<W>().contains(&byte);
    match (decl, W::select_entity(raw)) {
        (true, Some((id, r))) if id == byte && r == raw => {}
        (false, None) => {}
        (_, other) => return Err(format!("SelectEntity::try_from({:?}) gave {:?} (declared: {})", raw, other, decl)),
    }
    match (decl, W::select_archetype_from_any(raw)) {
        (true, Some(id)) if id == byte => {}
        (false, None) => {}
        (_, other) => return Err(format!("SelectArchetype::try_from(EntityAny {:?}) gave {:?} (declared: {})", raw, other, decl)),
    }
    match (decl, W::select_archetype_from_id(byte)) {
        (true, Some(id)) if id == byte => {}
        (false, None) => {}
        (_, other) => return Err(format!("SelectArchetype::try_from({}u8) gave {:?} (declared: {})", byte, other, decl)),
    }
    // "fails as documented": a conversion refused because of the archetype id reports
    // `EcsError::InvalidEntityType` (`InvalidRawEntity` is `from_raw`'s error for malformed raw data)
    if let Some(m) = W::select_error_variants(byte, raw) {
        return Err(format!("{}, expected EcsError::InvalidEntityType", m));
    }
    Ok(())
}

fn parse_direct_debug(d: &EntityDirectAny) -> Option<(u8, u32, u32)> {
    // "EntityDirectAny { archetype_id: 0, dense_index: 0, version: 1 }"
    let s = format!("{:?}", d);
    let nums: Vec<u64> = s.split(|c: char| !c.is_ascii_digit()).filter(|t| !t.is_empty()).filter_map(|t| t.parse().ok()).collect();
    if nums.len() == 3 {
        Some((nums[0] as u8, nums[1] as u32, nums[2] as u32))
    } else {
        None
    }
}

/// Builds a direct handle for archetype index `a` with the given dense index and version,
/// through the public (hidden) constructor and a real archetype's version.
fn make_direct<W: WorldDriver>(a: usize, idx: u32, version: u32) -> EntityDirectAny {
    let n = W::archs().len();
    let mut caps = vec![0usize; n];
    caps[a] = 1;
    let mut w = W::construct(Ctor::WithCapacity, &caps);
    W::preset(&mut w, a, &[1], version);
    let v = W::arch_version(&w, a);
    W::new_direct(a, idx as usize, v)
}

fn check_direct<W: WorldDriver>(a: usize, idx: u32, version: u32) -> Result<EntityDirectAny, String> {
    let infos = W::archs();
    let d = make_direct::<W>(a, idx, version);
    let me = &infos[a];
    if d.archetype_id() != me.id {
        return Err(format!("direct handle built for {} reports archetype_id {}", me.name, d.archetype_id()));
    }
    // the Debug format is not a contract: only judged when it still has the three-number shape
    if parse_direct_debug(&d).map(|p| p != (me.id, idx, version)).unwrap_or(false) {
        return Err(format!("direct handle built from (arch {}, index {}, version {}) prints as {:?}", me.id, idx, version, d));
    }
    if d.into_any() != d {
        return Err("EntityDirectAny::into_any changed the handle".into());
    }
    for (b, info) in infos.iter().enumerate() {
        let c = W::typed_direct_roundtrip(b, d);
        let m = info.id == me.id;
        match (m, &c.try_from) {
            (true, Some(r)) if *r == d => {}
            (false, None) => {}
            (_, other) => return Err(format!("EntityDirect::<{}>::try_from({:?}) gave {:?}", info.name, d, other)),
        }
        match (m, &c.from_any) {
            (true, Ok(r)) if *r == d => {}
            (false, Err(msg)) if msg.contains("invalid entity conversion") => {}
            (_, other) => return Err(format!("EntityDirect::<{}>::from_any({:?}) gave {:?}", info.name, d, other)),
        }
        if m && (c.typed_arch_id != Some(info.id) || !c.ref_views_ok || !c.hash_agrees) {
            return Err(format!("EntityDirect<{}> {:?}: archetype_id {:?}, reference views ok {}, hash agrees {}", info.name, d, c.typed_arch_id, c.ref_views_ok, c.hash_agrees));
        }
    }
    match W::select_direct(d) {
        Some((id, r)) if id == me.id && r == d => {}
        other => return Err(format!("SelectEntityDirect::try_from({:?}) gave {:?}", d, other)),
    }
    match W::select_archetype_from_direct(d) {
        Some(id) if id == me.id => {}
        other => return Err(format!("SelectArchetype::from(EntityDirect {:?}) reports {:?}", d, other)),
    }
    Ok(d)
}

pub fn check_case<W: WorldDriver>(case: &ConvCase) -> Result<(), String> {
    let r = catch(|| check_case_inner::<W>(case));
    match r {
        Ok(r) => r,
        Err(m) => Err(format!("a conversion panicked unexpectedly: {}", m)),
    }
}

fn check_case_inner<W: WorldDriver>(case: &ConvCase) -> Result<(), String> {
    match case {
        ConvCase::Raw(k, g) => {
            if *g == 0 {
                return match EntityAny::from_raw((*k, 0)) {
                    Err(e) if format!("{:?}", e) == "InvalidRawEntity" => Ok(()),
                    Err(e) => Err(format!("from_raw(({}, 0)) failed with {:?}, expected InvalidRawEntity", k, e)),
                    Ok(e) => Err(format!("from_raw(({}, 0)) accepted a zero generation: {:?}", k, e)),
                };
            }
            check_raw::<W>((*k, *g))
        }
        ConvCase::Pair(r1, r2) => {
            check_raw::<W>(*r1)?;
            check_raw::<W>(*r2)?;
            let (e1, e2) = (mk_any(*r1), mk_any(*r2));
            if (e1 == e2) != (r1 == r2) {
                return Err(format!("EntityAny {:?} == {:?} is {}", r1, r2, e1 == e2));
            }
            if (e1 != e2) != (r1 != r2) {
                return Err(format!("EntityAny {:?} != {:?} is {}", r1, r2, e1 != e2));
            }
            if e1 == e2 && hash2(&e1) != hash2(&e2) {
                return Err(format!("equal handles {:?} and {:?} hash differently", r1, r2));
            }
            // typed form, when both belong to the same declared archetype
            let infos = W::archs();
            for (a, info) in infos.iter().enumerate() {
                if info.id == r1.0 as u8 && info.id == r2.0 as u8 {
                    let (c1, c2) = (W::typed_roundtrip(a, *r1), W::typed_roundtrip(a, *r2));
                    if c1.try_from.is_none() || c2.try_from.is_none() {
                        return Err("typed conversion failed for matching archetype".into());
                    }
                }
            }
            Ok(())
        }
        ConvCase::Set(v) => {
            let distinct: BTreeSet<Raw> = v.iter().copied().filter(|r| r.1 != 0).collect();
            let mut hs: HashSet<EntityAny> = HashSet::new();
            let mut hm: HashMap<EntityAny, Raw> = HashMap::new();
            for r in v.iter().filter(|r| r.1 != 0) {
                hs.insert(mk_any(*r));
                hm.insert(mk_any(*r), *r);
            }
            if hs.len() != distinct.len() || hm.len() != distinct.len() {
                return Err(format!("{} distinct handles make a HashSet of {} and a HashMap of {} entries", distinct.len(), hs.len(), hm.len()));
            }
            for r in &distinct {
                if !hs.contains(&mk_any(*r)) || hm.get(&mk_any(*r)) != Some(r) {
                    return Err(format!("handle {:?} not found again in a hash collection it was inserted into", r));
                }
            }
            Ok(())
        }
        ConvCase::Direct { a, idx, version, a2, idx2, version2 } => {
            let n = W::archs().len();
            let (a, a2) = (*a as usize % n, *a2 as usize % n);
            let (idx, idx2) = (idx & 0xff_ffff, idx2 & 0xff_ffff);
            let (version, version2) = ((*version).max(1), (*version2).max(1));
            let d1 = check_direct::<W>(a, idx, version)?;
            let d2 = check_direct::<W>(a2, idx2, version2)?;
            let same = (a, idx, version) == (a2, idx2, version2);
            if (d1 == d2) != same {
                return Err(format!("direct handles {:?} and {:?}: == is {}", d1, d2, d1 == d2));
            }
            if d1 == d2 && hash2(&d1) != hash2(&d2) {
                return Err(format!("equal direct handles {:?} and {:?} hash differently", d1, d2));
            }
            let mut hs = HashSet::new();
            hs.insert(d1);
            hs.insert(d2);
            if hs.len() != if same { 1 } else { 2 } || !hs.contains(&d1) || !hs.contains(&d2) {
                return Err(format!("HashSet of direct handles {:?}, {:?} has {} entries", d1, d2, hs.len()));
            }
            Ok(())
        }
    }
}

fn nontrivial<W: WorldDriver>(case: &ConvCase) -> bool {
    let decl = declared::<W>();
    let edge_pos = |k: u32| matches!(k >> 8, 0 | 1 | 0xff_ffff);
    let edge_gen = |g: u32| matches!(g, 0 | 1 | 2 | u32::MAX);
    match case {
        ConvCase::Raw(k, g) => !decl.contains(&(*k as u8)) || edge_pos(*k) || edge_gen(*g),
        ConvCase::Pair(a, b) => {
            let diffs = [(a.0 as u8) != (b.0 as u8), (a.0 >> 8) != (b.0 >> 8), a.1 != b.1];
            diffs.iter().filter(|d| **d).count() == 1 || (a.0 ^ b.0).count_ones() + (a.1 ^ b.1).count_ones() == 1
        }
        ConvCase::Set(v) => v.len() >= 2,
        ConvCase::Direct { a, idx, version, a2, idx2, version2 } => {
            let diffs = [a != a2, idx != idx2, version != version2];
            diffs.iter().filter(|d| **d).count() <= 1
        }
    }
}

fn raw_strategy(ids: Vec<u8>) -> impl Strategy<Value = (u32, u32)> {
    let id = prop_oneof![3 => proptest::sample::select(ids), 2 => any::<u8>()];
    let pos = prop_oneof![Just(0u32), Just(1u32), Just(0xff_ffffu32), 0u32..0x100_0000];
    let gen = prop_oneof![2 => Just(1u32), 1 => Just(2u32), 1 => Just(u32::MAX), 3 => any::<u32>(), 1 => Just(0u32)];
    (id, pos, gen).prop_map(|(id, pos, gen)| ((pos << 8) | id as u32, gen))
}

fn nz(r: (u32, u32)) -> (u32, u32) {
    (r.0, r.1.max(1))
}

pub fn strategy<W: WorldDriver>() -> impl Strategy<Value = ConvCase> {
    let ids = declared::<W>();
    let narch = ids.len() as u8;
    let raw = raw_strategy(ids.clone());
    // pairs: independent, equal, or differing in exactly one bit / one field
    let pair = (raw_strategy(ids.clone()), raw_strategy(ids.clone()), 0u8..6, 0u32..64).prop_map(|(a, b, mode, bit)| {
        let a = nz(a);
        let b = nz(b);
        match mode {
            0 => ConvCase::Pair(a, b),
            1 => ConvCase::Pair(a, a),
            2 => {
                // flip one bit
                let (mut k, mut g) = a;
                if bit < 32 {
                    k ^= 1 << bit;
                } else {
                    g ^= 1 << (bit - 32);
                }
                ConvCase::Pair(a, nz((k, g)))
            }
            3 => ConvCase::Pair(a, ((a.0 & !0xff) | (b.0 & 0xff), a.1)), // only the archetype byte differs
            4 => ConvCase::Pair(a, (a.0, b.1)),                         // only the generation differs
            _ => ConvCase::Pair(a, ((b.0 & !0xff) | (a.0 & 0xff), a.1)), // only the position differs
        }
    });
    let set = proptest::collection::vec(raw_strategy(ids), 0..12).prop_map(|v| ConvCase::Set(v.into_iter().map(nz).collect()));
    let idx = prop_oneof![Just(0u32), Just(1u32), Just(0xff_ffffu32), 0u32..0x100_0000];
    let ver = prop_oneof![Just(1u32), Just(2u32), Just(u32::MAX), any::<u32>()];
    let direct = (0..narch, idx.clone(), ver.clone(), 0..narch, idx, ver, 0u8..5).prop_map(|(a, idx, version, a2, idx2, version2, mode)| match mode {
        0 => ConvCase::Direct { a, idx, version, a2: a, idx2: idx, version2: version },
        1 => ConvCase::Direct { a, idx, version, a2, idx2: idx, version2: version },
        2 => ConvCase::Direct { a, idx, version, a2: a, idx2, version2: version },
        3 => ConvCase::Direct { a, idx, version, a2: a, idx2: idx, version2 },
        _ => ConvCase::Direct { a, idx, version, a2, idx2, version2 },
    });
    prop_oneof![4 => raw.prop_map(|(k, g)| ConvCase::Raw(k, g)), 3 => pair, 1 => set, 2 => direct]
}

pub struct ConvSearch {
    pub stats: Stats,
    pub failure: Option<(ConvCase, String)>,
}

pub fn search<W: WorldDriver>(cases: u32, seed: u64) -> ConvSearch {
    let (config, rng) = seeded_config(cases, seed);
    let mut runner = TestRunner::new_with_rng(config, rng);
    let stats = std::cell::RefCell::new(Stats::default());
    let result = runner.run(&strategy::<W>(), |case| {
        let r = check_case::<W>(&case);
        let mut st = stats.borrow_mut();
        if !st.frozen {
            st.evaluations += 1;
            let kind = match &case {
                ConvCase::Raw(..) => "raw",
                ConvCase::Pair(..) => "pair",
                ConvCase::Set(..) => "set",
                ConvCase::Direct { .. } => "direct",
            };
            *st.label_hist.entry(kind).or_insert(0) += 1;
            if nontrivial::<W>(&case) {
                let h = crate::util::fnv(case.to_line().as_bytes());
                if st.nontrivial_hashes.insert(h) && st.samples.len() < 6 {
                    st.samples.push(case.to_line());
                }
            }
        }
        match r {
            Ok(()) => Ok(()),
            Err(m) => {
                st.frozen = true;
                Err(TestCaseError::fail(m))
            }
        }
    });
    let mut failure = None;
    if let Err(TestError::Fail(_, case)) = result {
        let msg = check_case::<W>(&case).err().unwrap_or_else(|| "shrunk case no longer fails".into());
        failure = Some((case, msg));
    }
    ConvSearch { stats: stats.into_inner(), failure }
}
