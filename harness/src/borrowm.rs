//! Engine B (C11): the runtime-borrow matrix. Nestings of runtime-borrowed accesses are run on a
//! shared `&World` under `catch_unwind` and compared with a model of one reader/writer cell per
//! (archetype, column): an access takes its borrow only if it actually executes, holds it while
//! the nested accesses run, and the nesting must panic iff the model reports a conflict.

use std::cell::RefCell;
use std::collections::{BTreeMap, BTreeSet};

use proptest::prelude::{any, Strategy};
use proptest::test_runner::{TestCaseError, TestError, TestRunner};

use crate::driver::WorldDriver;
use crate::run::{seeded_config, Stats};
use crate::types::*;
use crate::util::{catch, stamp};

/// A world state for the matrix: live entities per archetype in creation order, one stale
/// handle per archetype (when a removal happened).
pub struct BWorld<W: WorldDriver> {
    pub w: W,
    pub infos: Vec<ArchInfo>,
    /// per archetype: live entities with their stamps (model)
    pub live: Vec<BTreeMap<Raw, Vec<u64>>>,
    /// per archetype: dense order as reported by entities()
    pub order: Vec<Vec<Raw>>,
    pub stale: Vec<Option<Raw>>,
    pub writes: u64,
}

/// `pops[a]` = (entities to create, index to destroy afterwards or none)
pub fn build_world<W: WorldDriver>(pops: &[(u8, Option<u8>)]) -> BWorld<W> {
    crate::comps::reg_reset();
    crate::comps::suspend();
    let infos = W::archs();
    let n = infos.len();
    let mut w = W::construct(Ctor::New, &vec![0; n]);
    let mut live = vec![BTreeMap::new(); n];
    let mut stale = vec![None; n];
    let mut uid = 1u64;
    for a in 0..n {
        let (cnt, kill) = pops.get(a).copied().unwrap_or((0, None));
        let mut made = Vec::new();
        for _ in 0..cnt {
            let vals: Vec<u64> = (0..infos[a].ncols()).map(|c| stamp(uid, c, 0)).collect();
            uid += 1;
            if let CreateOut::Created { raw, .. } = W::create(&mut w, a, CreatePath::WCreate, &vals) {
                let masked: Vec<u64> = vals.iter().zip(infos[a].masks.iter()).map(|(v, m)| v & m).collect();
                live[a].insert(raw, masked);
                made.push(raw);
            }
        }
        if let Some(k) = kill {
            if !made.is_empty() {
                let r = made[k as usize % made.len()];
                W::destroy(&mut w, a, Level::World, Key::Any(r));
                live[a].remove(&r);
                stale[a] = Some(r);
            }
        }
    }
    // every archetype gets a legitimate stale handle (a "missing entity" that is not a forgery)
    for a in 0..n {
        if stale[a].is_none() {
            let vals: Vec<u64> = (0..infos[a].ncols()).map(|c| stamp(uid, c, 0)).collect();
            uid += 1;
            if let CreateOut::Created { raw, .. } = W::create(&mut w, a, CreatePath::ACreate, &vals) {
                W::destroy(&mut w, a, Level::Arch, Key::Ent(raw));
                stale[a] = Some(raw);
            }
        }
    }
    let mut order = Vec::new();
    for a in 0..n {
        order.push(W::iterate(&mut w, a, IterPath::Entities, None).iter().filter_map(|o| o.raw).collect());
    }
    BWorld { w, infos, live, order, stale, writes: 0 }
}

#[derive(Clone, Debug, PartialEq)]
pub struct Entered {
    pub index: usize,
    pub obs: BObs,
}

/// What the model expects of one nesting.
#[derive(Clone, Debug, PartialEq)]
pub struct Expect {
    /// accesses that execute (acquire their borrow), in order, with what they must observe
    pub entered: Vec<Entered>,
    /// index of the access whose borrow conflicts (the nesting must panic there), if any
    pub conflict_at: Option<usize>,
}

#[derive(Default, Clone, Copy)]
struct Cell {
    readers: u32,
    writer: bool,
}

impl<W: WorldDriver> BWorld<W> {
    /// Computes the expectation for a nesting and applies its writes to the model.
    pub fn expect(&mut self, nest: &[BAccess], hints: &BTreeMap<usize, Raw>) -> Expect {
        let mut cells: BTreeMap<(usize, usize), Cell> = BTreeMap::new();
        let mut entered = Vec::new();
        let mut conflict_at = None;
        // writes of a nesting that ends in a panic still happened before the panic
        for (i, acc) in nest.iter().enumerate() {
            if acc.kind.is_clone() {
                let world_level = acc.kind.clone_is_world_level();
                if cells.iter().any(|((a, _), c)| c.writer && (world_level || *a == acc.arch)) {
                    conflict_at = Some(i);
                    break;
                }
                entered.push(Entered { index: i, obs: BObs::default() });
                continue;
            }
            let a = acc.arch;
            // does it execute at all?
            let target: Option<Raw> = match acc.kind {
                k if k.needs_entity() => match acc.key {
                    Some(r) if self.live[a].contains_key(&r) => Some(r),
                    _ => {
                        break; // entity absent: no borrow, nothing nested runs
                    }
                },
                k if k.is_iter() => {
                    // iteration order is unspecified: take the first visited entity from the
                    // observation when it is a live entity of this archetype
                    let hinted = hints.get(&i).copied().filter(|r| self.live[a].contains_key(r));
                    match hinted.or(self.order[a].first().copied()) {
                        Some(r) => Some(r),
                        None => break, // empty archetype: closure never runs
                    }
                }
                _ => None,
            };
            let cell = cells.entry((a, acc.col)).or_default();
            let ok = if acc.kind.mutable() { !cell.writer && cell.readers == 0 } else { !cell.writer };
            if !ok {
                conflict_at = Some(i);
                break;
            }
            if acc.kind.mutable() {
                cell.writer = true;
            } else {
                cell.readers += 1;
            }
            let mask = self.infos[a].masks[acc.col];
            let obs = match acc.kind {
                BKind::SliceS | BKind::SliceM => {
                    let vals: Vec<u64> = self.order[a].iter().map(|r| self.live[a][r][acc.col]).collect();
                    if acc.kind == BKind::SliceM {
                        if let Some(first) = self.order[a].first().copied() {
                            self.live[a].get_mut(&first).unwrap()[acc.col] = acc.write & mask;
                        }
                    }
                    BObs { raw: None, vals }
                }
                k if !k.reads_value() => BObs { raw: target, vals: vec![] },
                _ => {
                    let r = target.unwrap();
                    let old = self.live[a][&r][acc.col];
                    if acc.kind.mutable() {
                        self.live[a].get_mut(&r).unwrap()[acc.col] = acc.write & mask;
                    }
                    BObs { raw: Some(r), vals: vec![old] }
                }
            };
            entered.push(Entered { index: i, obs });
        }
        Expect { entered, conflict_at }
    }

    /// Runs the nesting for real.
    pub fn run_nest(&self, nest: &[BAccess]) -> (Vec<Entered>, Result<(), String>) {
        let log: RefCell<Vec<Entered>> = RefCell::new(Vec::new());
        fn go<W: WorldDriver>(w: &W, nest: &[BAccess], i: usize, log: &RefCell<Vec<Entered>>) {
            if i == nest.len() {
                return;
            }
            w.baccess(&nest[i], &mut |obs| {
                log.borrow_mut().push(Entered { index: i, obs });
                go(w, nest, i + 1, log);
            });
        }
        let r = catch(|| go(&self.w, nest, 0, &log));
        (log.into_inner(), r)
    }

    /// After a nesting (finished or unwound) every column must be mutably borrowable again.
    pub fn all_released(&self) -> Result<(), String> {
        for a in 0..self.infos.len() {
            for c in 0..self.infos[a].ncols() {
                let mut got = false;
                let acc = BAccess { kind: BKind::SliceS, arch: a, col: c, key: None, write: 0 };
                // a shared borrow would be refused by a leaked writer, a mutable one by any leaked guard;
                // use the mutable one but without changing values: SliceM writes position 0, so read first
                let r = catch(|| self.w.baccess(&acc, &mut |_| got = true));
                if r.is_err() || !got {
                    return Err(format!("column {} of {} cannot be borrowed after the nesting ended: {:?}", self.infos[a].col_names[c], self.infos[a].name, r.err()));
                }
                let cur = {
                    let mut v = Vec::new();
                    let _ = catch(|| self.w.baccess(&acc, &mut |o| v = o.vals.clone()));
                    v
                };
                let rewrite = cur.first().copied().unwrap_or(0);
                let accm = BAccess { kind: BKind::SliceM, arch: a, col: c, key: None, write: rewrite };
                let mut gotm = false;
                let r = catch(|| self.w.baccess(&accm, &mut |_| gotm = true));
                if r.is_err() || !gotm {
                    return Err(format!("column {} of {} cannot be mutably borrowed after the nesting ended (a borrow leaked): {:?}", self.infos[a].col_names[c], self.infos[a].name, r.err()));
                }
            }
        }
        Ok(())
    }

    /// Runs one nesting against the model. Returns Err(message) on disagreement.
    pub fn check_nest(&mut self, nest: &[BAccess]) -> Result<bool, String> {
        let (entered, res) = self.run_nest(nest);
        let hints: BTreeMap<usize, Raw> = entered.iter().filter_map(|e| e.obs.raw.map(|r| (e.index, r))).collect();
        let exp = self.expect(nest, &hints);
        let desc = || nest.iter().map(|a| format!("{}[{}.{}{}]", a.kind.name(), self.infos[a.arch].name, self.infos[a.arch].col_names.get(a.col).copied().unwrap_or("-"), a.key.map(|k| format!(" {:?}", k)).unwrap_or_default())).collect::<Vec<_>>().join(" > ");
        match (&exp.conflict_at, &res) {
            (Some(i), Ok(())) => return Err(format!("nesting {} must panic at access {} (it aliases a {} borrow of the same column) but ran to completion", desc(), i, if nest[*i].kind.mutable() { "live" } else { "mutable" })),
            (None, Err(m)) => return Err(format!("nesting {} has no conflicting borrow but panicked: {}", desc(), m)),
            (Some(_), Err(m)) => {
                if !m.contains("borrowed") {
                    return Err(format!("nesting {} panicked with an unexpected message: {}", desc(), m));
                }
            }
            (None, Ok(())) => {}
        }
        if entered != exp.entered {
            return Err(format!("nesting {}: accesses that executed / what they observed differ from the model: got {:?}, expected {:?}", desc(), entered, exp.entered));
        }
        self.all_released().map_err(|m| format!("after nesting {}: {}", desc(), m))?;
        Ok(exp.conflict_at.is_some())
    }
}

// ----------------------------------------------------------------------------------------------
// accesses made from inside a clone (a component's `Clone` impl that reaches the world again)
// ----------------------------------------------------------------------------------------------

/// While gecs copies an archetype it holds a shared borrow of every column of that archetype
/// (anchor of C11: "Clone takes a shared borrow of every column first"), and it reads the columns
/// for the whole duration of the copy. User code runs in the middle of the copy: every component's
/// `Clone::clone`. An access made from there (the world is reachable through an `Rc` or a
/// thread-local in safe code) must be refused iff it wants a column of the archetype being copied
/// mutably; shared accesses, and accesses to an archetype that is not being copied, must be granted.
/// Enumerated: every archetype with an instrumented `Clone` column x {Archetype::clone,
/// World::clone with only that archetype populated} x inner kind x every column (+ one column of
/// another archetype) on the given populations. Returns (combinations run, must-panic ones).
pub fn clone_reentrancy<W: WorldDriver>(pops: &[(u8, Option<u8>)]) -> Result<(u64, u64), (String, String)> {
    let infos = W::archs();
    let n = infos.len();
    let inner_kinds = [BKind::SliceS, BKind::SliceM, BKind::CompS, BKind::CompM, BKind::FindBorrowS, BKind::FindBorrowM, BKind::IterBorrowS, BKind::IterBorrowM];
    let mut combos = 0u64;
    let mut must_panic = 0u64;
    for a in 0..n {
        let has_hooked_clone = infos[a].tracked.iter().any(|t| *t) || infos[a].tok_cols > 0 || infos[a].zst_tracked > 0;
        if !has_hooked_clone || pops.get(a).map_or(true, |p| p.0 == 0) {
            continue;
        }
        for world_level in [false, true] {
            // world level: only archetype `a` is populated, so the first instrumented Clone that
            // runs belongs to `a` (archetypes are copied one after the other)
            let pp: Vec<(u8, Option<u8>)> = (0..n).map(|i| if world_level && i != a { (0, None) } else { pops.get(i).copied().unwrap_or((0, None)) }).collect();
            let other = (0..n).find(|b| *b != a && pp.get(*b).map_or(false, |p| p.0 > 0));
            let mut targets: Vec<(usize, usize)> = (0..infos[a].ncols()).map(|c| (a, c)).collect();
            if let Some(b) = other {
                targets.push((b, 0));
            }
            for (ta, tc) in targets {
                for kind in inner_kinds {
                    let bw = build_world::<W>(&pp);
                    let key = bw.order[ta].first().copied();
                    if key.is_none() {
                        continue;
                    }
                    let acc = BAccess { kind, arch: ta, col: tc, key, write: 0x5151_5151_5151_5151 };
                    let mut outcome: Option<Result<bool, String>> = None;
                    let r = {
                        let w = &bw.w;
                        let outcome = &mut outcome;
                        let mut hook = || {
                            let mut ran = false;
                            let r = catch(|| w.baccess(&acc, &mut |_| ran = true));
                            *outcome = Some(r.map(|()| ran));
                        };
                        catch(|| w.reentrant_clone(a, world_level, &mut hook))
                    };
                    let desc = format!(
                        "{} of {} with {}[{}.{}] made from inside a component's Clone::clone during the copy",
                        if world_level { "World::clone" } else { "Archetype::clone" },
                        infos[a].name,
                        kind.name(),
                        infos[ta].name,
                        infos[ta].col_names[tc]
                    );
                    let text = format!("clone_reentrancy world_level={} arch={} kind={} target={}.{} pops={:?}", world_level, a, kind.name(), ta, tc, pp);
                    combos += 1;
                    if let Err(m) = r {
                        return Err((text, format!("{}: the clone itself panicked although the inner access was contained: {}", desc, m)));
                    }
                    let conflict = kind.mutable() && ta == a;
                    if conflict {
                        must_panic += 1;
                    }
                    match outcome {
                        None => return Err((text, format!("{}: harness: no instrumented Clone ran", desc))),
                        Some(Ok(_)) if conflict => {
                            return Err((text, format!("{}: a mutable borrow of a column that the clone is reading was granted (must panic instead of aliasing)", desc)))
                        }
                        Some(Err(m)) if conflict => {
                            if !m.contains("borrowed") {
                                return Err((text, format!("{}: refused with an unexpected message: {}", desc, m)));
                            }
                        }
                        Some(Err(m)) => return Err((text, format!("{}: refused although nothing conflicts (shared access, or another archetype): {}", desc, m))),
                        Some(Ok(ran)) => {
                            if !ran {
                                return Err((text, format!("{}: the access did not execute", desc)));
                            }
                        }
                    }
                    bw.all_released().map_err(|m| (text.clone(), format!("after {}: {}", desc, m)))?;
                }
            }
        }
    }
    Ok((combos, must_panic))
}

// ----------------------------------------------------------------------------------------------
// exhaustive pair matrix
// ----------------------------------------------------------------------------------------------

/// Archetype pairs sharing a component type: (arch1, col1, other col of arch1, arch2, col2 of the same type).
pub fn shared_type_pairs(infos: &[ArchInfo]) -> Vec<(usize, usize, usize, usize, usize)> {
    let mut out = Vec::new();
    for a in 0..infos.len() {
        for b in 0..infos.len() {
            if a == b {
                continue;
            }
            for (ca, na) in infos[a].col_names.iter().enumerate() {
                if infos[a].ncols() < 2 {
                    continue;
                }
                for (cb, nb) in infos[b].col_names.iter().enumerate() {
                    if na == nb {
                        let other = (ca + 1) % infos[a].ncols();
                        out.push((a, ca, other, b, cb));
                    }
                }
            }
        }
    }
    out
}

pub struct MatrixResult {
    pub combos: u64,
    pub conflicts: u64,
    pub neighbours: u64,
    pub failure: Option<(String, String)>,
    pub samples: Vec<String>,
}

/// Enumerates outer x inner x {same, other column} x {same, other archetype} x
/// {same entity, other entity, missing entity / empty archetype} on the given populations.
pub fn pair_matrix<W: WorldDriver>(pops: &[(u8, Option<u8>)], max_pairs: usize) -> MatrixResult {
    let infos = W::archs();
    let mut res = MatrixResult { combos: 0, conflicts: 0, neighbours: 0, failure: None, samples: Vec::new() };
    let pairs = shared_type_pairs(&infos);
    let mut wcount = 1u64;
    for (pi, (a1, c1, c1o, a2, c2)) in pairs.iter().enumerate() {
        if pi >= max_pairs {
            break;
        }
        for outer in BKind::ALL {
            for inner in BKind::ALL {
                if inner.is_cross() {
                    continue; // a cross-archetype iteration is only modelled as the outermost access
                }
                for same_col in [true, false] {
                    for same_arch in [true, false] {
                        for ent_rel in 0..3 {
                            // fresh world per combination: state never leaks between cases
                            let mut bw = build_world::<W>(pops);
                            let ents1: Vec<Raw> = bw.order[*a1].clone();
                            let (ia, ic) = if same_arch { (*a1, if same_col { *c1 } else { *c1o }) } else { (*a2, if same_col { *c2 } else { (*c2 + 1) % infos[*a2].ncols() }) };
                            let ents_i: Vec<Raw> = bw.order[ia].clone();
                            let okey = ents1.first().copied().or(bw.stale[*a1]);
                            let ikey = match ent_rel {
                                0 => {
                                    if same_arch {
                                        okey
                                    } else {
                                        ents_i.first().copied().or(bw.stale[ia])
                                    }
                                }
                                1 => ents_i.get(1).copied().or(ents_i.first().copied()).or(bw.stale[ia]),
                                _ => bw.stale[ia],
                            };
                            wcount += 1;
                            let nest = vec![
                                BAccess { kind: outer, arch: *a1, col: *c1, key: okey, write: stamp(wcount, *c1, 1) },
                                BAccess { kind: inner, arch: ia, col: ic, key: ikey, write: stamp(wcount, ic, 2) },
                            ];
                            res.combos += 1;
                            match bw.check_nest(&nest) {
                                Ok(conflict) => {
                                    if conflict {
                                        res.conflicts += 1;
                                    } else if (same_arch && !same_col) || (!same_arch && same_col) || (!outer.mutable() && !inner.mutable()) {
                                        res.neighbours += 1;
                                    }
                                    if res.samples.len() < 4 && (conflict || res.combos % 97 == 0) {
                                        res.samples.push(format!("{} > {} same_col={} same_arch={} entity_relation={} -> {}", outer.name(), inner.name(), same_col, same_arch, ent_rel, if conflict { "must panic" } else { "must succeed" }));
                                    }
                                }
                                Err(m) => {
                                    let text = nest_to_text::<W>(pops, &[nest.clone()]);
                                    res.failure = Some((text, m));
                                    return res;
                                }
                            }
                        }
                    }
                }
            }
        }
    }
    res
}

// ----------------------------------------------------------------------------------------------
// random nestings and sequences (proptest)
// ----------------------------------------------------------------------------------------------

/// Soft description of an access: indices are resolved against the built world.
pub type SoftAccess = (u8, u8, u8, u8); // kind, arch, col, entity selector (0..: live index, 250.. stale)

pub fn resolve<W: WorldDriver>(bw: &BWorld<W>, s: &SoftAccess, wcount: u64, depth: usize) -> BAccess {
    let mut kind = BKind::ALL[s.0 as usize % BKind::ALL.len()];
    if depth > 0 && kind.is_cross() {
        kind = if kind.mutable() { BKind::IterBorrowM } else { BKind::IterBorrowS };
    }
    let arch = s.1 as usize % bw.infos.len();
    let col = s.2 as usize % bw.infos[arch].ncols();
    let key = if s.3 >= 250 || bw.order[arch].is_empty() {
        bw.stale[arch]
    } else {
        Some(bw.order[arch][s.3 as usize % bw.order[arch].len()])
    };
    BAccess { kind, arch, col, key, write: stamp(wcount, col, 3) }
}

pub fn nest_to_text<W: WorldDriver>(pops: &[(u8, Option<u8>)], nests: &[Vec<BAccess>]) -> String {
    let mut s = format!("world {}\npops {}\n", W::NAME, pops.iter().map(|(c, k)| format!("{}:{}", c, k.map(|k| k as i32).unwrap_or(-1))).collect::<Vec<_>>().join(" "));
    for n in nests {
        s.push_str("nest");
        for a in n {
            let ki = BKind::ALL.iter().position(|k| *k == a.kind).unwrap();
            let (k0, k1) = a.key.unwrap_or((0, 0));
            s.push_str(&format!(" {} {} {} {} {} {}", ki, a.arch, a.col, k0, k1, a.write));
        }
        s.push('\n');
    }
    s
}

pub fn text_to_nests(text: &str) -> Result<(String, Vec<(u8, Option<u8>)>, Vec<Vec<BAccess>>), String> {
    let mut world = String::from("WMix");
    let mut pops = Vec::new();
    let mut nests = Vec::new();
    for l in text.lines() {
        let l = l.split('#').next().unwrap().trim();
        if let Some(r) = l.strip_prefix("world ") {
            world = r.trim().to_string();
        } else if let Some(r) = l.strip_prefix("pops ") {
            for t in r.split_whitespace() {
                let (c, k) = t.split_once(':').ok_or("pops")?;
                let k: i32 = k.parse().map_err(|_| "pops")?;
                pops.push((c.parse::<u8>().map_err(|_| "pops")?, if k < 0 { None } else { Some(k as u8) }));
            }
        } else if let Some(r) = l.strip_prefix("nest") {
            let v: Vec<u64> = r.split_whitespace().map(|t| t.parse::<u64>().map_err(|e| e.to_string())).collect::<Result<_, _>>()?;
            if v.len() % 6 != 0 {
                return Err("nest line".into());
            }
            nests.push(v.chunks(6).map(|c| BAccess { kind: BKind::ALL[c[0] as usize % BKind::ALL.len()], arch: c[1] as usize, col: c[2] as usize, key: if c[4] == 0 { None } else { Some((c[3] as u32, c[4] as u32)) }, write: c[5] }).collect());
        }
    }
    Ok((world, pops, nests))
}

/// Runs a sequence of nestings on one world (state carries over: "conflict, then later access").
pub fn check_sequence<W: WorldDriver>(pops: &[(u8, Option<u8>)], nests: &[Vec<BAccess>]) -> Result<(u64, u64), String> {
    let mut bw = build_world::<W>(pops);
    let mut conflicts = 0;
    let mut after_conflict = 0;
    for n in nests {
        if conflicts > 0 {
            after_conflict += 1;
        }
        if bw.check_nest(n)? {
            conflicts += 1;
        }
    }
    Ok((conflicts, after_conflict))
}

pub struct BSearch {
    pub stats: Stats,
    pub failure: Option<(String, String)>,
}

pub fn search<W: WorldDriver>(cases: u32, seed: u64) -> BSearch {
    let narch = W::archs().len();
    let pops_s = proptest::collection::vec((0u8..4, proptest::option::of(0u8..4)), narch);
    let nest_s = proptest::collection::vec(any::<SoftAccess>(), 1..=3);
    let strategy = (pops_s, proptest::collection::vec(nest_s, 1..=5));
    let (config, rng) = seeded_config(cases, seed);
    let mut runner = TestRunner::new_with_rng(config, rng);
    let stats = RefCell::new(Stats::default());
    let build = |pops: &Vec<(u8, Option<u8>)>, soft: &Vec<Vec<SoftAccess>>| -> Vec<Vec<BAccess>> {
        let bw = build_world::<W>(pops);
        let mut wc = 100u64;
        soft.iter()
            .map(|n| {
                n.iter()
                    .enumerate()
                    .map(|(depth, s)| {
                        wc += 1;
                        resolve(&bw, s, wc, depth)
                    })
                    .collect()
            })
            .collect()
    };
    let result = runner.run(&strategy, |(pops, soft)| {
        let nests = build(&pops, &soft);
        let r = check_sequence::<W>(&pops, &nests);
        let mut st = stats.borrow_mut();
        if !st.frozen {
            st.evaluations += 1;
            if let Ok((conflicts, after)) = &r {
                if *conflicts > 0 {
                    *st.label_hist.entry("has_conflict").or_insert(0) += 1;
                }
                if *after > 0 {
                    *st.label_hist.entry("access_after_caught_conflict").or_insert(0) += 1;
                }
                if nests.iter().any(|n| n.len() == 3) {
                    *st.label_hist.entry("depth3").or_insert(0) += 1;
                }
                if *conflicts > 0 || nests.iter().any(|n| n.len() >= 2) {
                    let text = nest_to_text::<W>(&pops, &nests);
                    let h = crate::util::fnv(text.as_bytes());
                    if st.nontrivial_hashes.insert(h) && st.samples.len() < 2 {
                        st.samples.push(text);
                    }
                }
            }
        }
        match r {
            Ok(_) => Ok(()),
            Err(m) => {
                st.frozen = true;
                Err(TestCaseError::fail(m))
            }
        }
    });
    let mut failure = None;
    if let Err(TestError::Fail(_, (pops, soft))) = result {
        let nests = build(&pops, &soft);
        let msg = check_sequence::<W>(&pops, &nests).err().unwrap_or_else(|| "shrunk case no longer fails".into());
        failure = Some((nest_to_text::<W>(&pops, &nests), msg));
    }
    let _ = BTreeSet::<u8>::new();
    BSearch { stats: stats.into_inner(), failure }
}
