//! Interpreter: applies a history to the real world(s) and to the reference model.
//! The oracles (probe suite) live in `probe.rs`; both are `impl Session`.

use std::collections::{BTreeMap, BTreeSet};

use crate::comps::{self, reg, Site};
use crate::driver::WorldDriver;
use crate::model::*;
use crate::ops::*;
use crate::types::*;
use crate::util::{catch, stamp};

/// A failed oracle. `tags` are the properties the oracle belongs to.
#[derive(Clone, Debug)]
pub struct Fail {
    pub tags: Vec<&'static str>,
    pub msg: String,
    pub step: usize,
    /// stable signature used to match known findings
    pub sig: String,
    /// when several oracle groups failed on the same post-step state: the individual failures
    pub parts: Vec<Fail>,
}

impl Fail {
    /// The (signature, message) to report for property `prop`: the first part tagged with it.
    pub fn for_prop(&self, prop: &str) -> (String, String) {
        for p in &self.parts {
            if p.tags.iter().any(|t| *t == prop) {
                return (p.sig.clone(), p.msg.clone());
            }
        }
        (self.sig.clone(), self.msg.clone())
    }

    /// Merges failures observed on one and the same state.
    pub fn merge(mut fails: Vec<Fail>) -> Fail {
        if fails.len() == 1 {
            return fails.pop().unwrap();
        }
        let mut tags: Vec<&'static str> = Vec::new();
        for f in &fails {
            for t in &f.tags {
                if !tags.contains(t) {
                    tags.push(t);
                }
            }
        }
        let first = fails[0].clone();
        Fail { tags, msg: first.msg, step: first.step, sig: first.sig, parts: fails }
    }
}

pub type R<T = ()> = Result<T, Fail>;

#[derive(Clone, Copy, Debug, PartialEq, Eq, PartialOrd, Ord)]
pub enum Intensity {
    /// one rotating path per handle
    Light,
    /// touched handles on every path; others on a rotating subset
    Normal,
    /// every handle, every path, every key kind, after every step
    Full,
}

/// One injected panic (C10): at op number `op`, the `k`-th tick at `site`.
#[derive(Clone, Copy, Debug, PartialEq, Eq)]
pub struct Injection {
    pub op: usize,
    pub site: Site,
    pub k: u64,
}

#[derive(Clone, Debug)]
pub struct Cfg {
    pub intensity: Intensity,
    pub max_sims: usize,
    pub inject: Option<Injection>,
    /// record per-op tick counts (to enumerate injection points)
    pub count_ticks: bool,
    pub wrapping: bool,
    pub events: bool,
    /// A violated capacity law (capacity decreased / changed without a create on a full archetype)
    /// says nothing about the entity model: checks of other properties than C12 / C19 count it as
    /// collateral and carry on with the capacity they observe, instead of abandoning the case
    /// (what happens to handles *after* a storage shrank is exactly what they want to see).
    pub lenient_capacity: bool,
}

impl Cfg {
    pub fn new(intensity: Intensity) -> Cfg {
        Cfg {
            intensity,
            max_sims: 3,
            inject: None,
            count_ticks: false,
            wrapping: cfg!(feature = "wrapping"),
            events: cfg!(feature = "events"),
            lenient_capacity: false,
        }
    }
}

pub struct Sim<W> {
    pub w: W,
    pub archs: Vec<MArch>,
    pub handles: Vec<HandleRec>,
    pub directs: Vec<DirectRec>,
    /// number of ops applied to this sim since it was created / cloned
    pub ops_since_split: u32,
    pub is_clone: bool,
    pub churned: bool,
    pub created_since_split: u32,
    pub had_mid_free_at_clone: bool,
}

#[derive(Clone, Debug, Default)]
pub struct Outcome {
    pub fail: Option<Fail>,
    pub labels: BTreeSet<&'static str>,
    pub counters: BTreeMap<&'static str, u64>,
    /// hash of the observations the oracle is lenient about (C19 differential)
    pub trace: u64,
    pub ops_run: usize,
    /// per op: ticks seen per site (only with cfg.count_ticks)
    pub ticks: Vec<[u64; 3]>,
    pub injected_fired: bool,
    pub leaked: usize,
}

pub struct Session<'c, W: WorldDriver> {
    pub cfg: &'c Cfg,
    pub infos: Vec<ArchInfo>,
    pub xq: Vec<XQuery>,
    pub sims: Vec<Sim<W>>,
    pub next_uid: u64,
    pub step: usize,
    pub labels: BTreeSet<&'static str>,
    pub counters: BTreeMap<&'static str, u64>,
    pub trace: u64,
    pub rot: usize,
    /// ids leaked by an unwinding operation (tolerated, see DESIGN soundness decision 4)
    pub leaked: BTreeSet<u64>,
    pub zst_leak_slack: i64,
    /// set once a panic (injected or documented) unwound out of a gecs operation
    pub post_panic: bool,
    /// extra tag added to failures of the probe that directly follows a clone
    pub extra_tag: Option<&'static str>,
    /// if set, failures are attributed to these tags only (probe of an untouched world)
    pub only_tag: Option<&'static str>,
    /// property of the op that just ran, added to failures of the step that follows it
    /// (e.g. C07 after ecs_iter_destroy!: "surviving entities keep their handles and values")
    pub op_tag: Option<&'static str>,
    /// archetypes (sim, arch) whose capacity may legitimately have grown in this step
    pub growth_ok: BTreeSet<(usize, usize)>,
    /// handles (sim, handle index) touched by the current op: probed on every path
    pub touched: BTreeSet<(usize, usize)>,
    pub ticks: Vec<[u64; 3]>,
    pub injected_fired: bool,
    /// failures of oracles that do not invalidate the model (e.g. the hook-based comparison of a
    /// clone's bookkeeping): the case continues so that other properties still get to see their
    /// own violation; they are merged into the case's verdict at the end
    pub deferred: Vec<Fail>,
}

pub const OVERFLOW_SLOT: &str = "slot version overflow";
pub const OVERFLOW_ARCH: &str = "arch version overflow";

impl<'c, W: WorldDriver> Session<'c, W> {
    pub fn label(&mut self, l: &'static str) {
        self.labels.insert(l);
    }

    pub fn count(&mut self, c: &'static str, n: u64) {
        *self.counters.entry(c).or_insert(0) += n;
    }

    pub fn mix_trace(&mut self, x: u64) {
        self.trace = crate::util::mix(self.trace ^ x.wrapping_mul(0x9E3779B97F4A7C15));
    }

    /// Builds a failure, applying the attribution rules.
    pub fn fail(&self, tags: &[&'static str], sig: &str, msg: String) -> Fail {
        let mut t: Vec<&'static str> = if self.post_panic {
            vec!["C10"]
        } else if let Some(o) = self.only_tag {
            vec![o]
        } else {
            tags.to_vec()
        };
        if let Some(e) = self.extra_tag {
            if !self.post_panic && !t.contains(&e) {
                t.push(e);
            }
        }
        // C19: every oracle must hold in every configuration
        t.push("C19");
        if let Some(o) = self.op_tag {
            if !self.post_panic && self.only_tag.is_none() && !t.contains(&o) {
                t.push(o);
            }
        }
        Fail { tags: t, msg, step: self.step, sig: sig.to_string(), parts: Vec::new() }
    }

    pub fn masked(&self, a: usize, vals: &[u64]) -> Vec<u64> {
        vals.iter().zip(self.infos[a].masks.iter()).map(|(v, m)| v & m).collect()
    }

    // --------------------------------------------------------------------------------------
    // construction / teardown
    // --------------------------------------------------------------------------------------

    pub fn new(cfg: &'c Cfg, header: &Header) -> R<Session<'c, W>> {
        let infos = W::archs();
        let n = infos.len();
        let ctor = match header.ctor {
            0 => Ctor::New,
            1 => Ctor::Default,
            _ => Ctor::WithCapacity,
        };
        let caps: Vec<usize> = (0..n)
            .map(|i| if ctor == Ctor::WithCapacity { header.caps.get(i).copied().unwrap_or(0) as usize } else { 0 })
            .collect();
        let mut s = Session {
            cfg,
            infos,
            xq: W::xqueries(),
            sims: Vec::new(),
            next_uid: 1,
            step: 0,
            labels: BTreeSet::new(),
            counters: BTreeMap::new(),
            trace: 0,
            rot: 0,
            leaked: BTreeSet::new(),
            zst_leak_slack: 0,
            post_panic: false,
            extra_tag: None,
            only_tag: None,
            op_tag: None,
            growth_ok: BTreeSet::new(),
            touched: BTreeSet::new(),
            ticks: Vec::new(),
            injected_fired: false,
            deferred: Vec::new(),
        };
        let w = match catch(|| W::construct(ctor, &caps)) {
            Ok(w) => w,
            Err(m) => return Err(s.fail(&["C12"], "ctor-panic", format!("constructing the world with capacities {:?} panicked: {}", caps, m))),
        };
        let mut archs = Vec::new();
        for a in 0..n {
            let cap = W::capacity(&w, a);
            if cap < caps[a] {
                return Err(s.fail(&["C12"], "ctor-capacity", format!("with_capacity({}) yielded capacity() {} for archetype {}", caps[a], cap, s.infos[a].name)));
            }
            archs.push(MArch { last_cap: cap, version: 1, ..Default::default() });
        }
        s.sims.push(Sim {
            w,
            archs,
            handles: Vec::new(),
            directs: Vec::new(),
            ops_since_split: 0,
            is_clone: false,
            churned: false,
            created_since_split: 0,
            had_mid_free_at_clone: false,
        });
        Ok(s)
    }

    /// Drops all worlds and checks that the registry ends up empty (C04).
    pub fn teardown(&mut self) -> R {
        while let Some(sim) = self.sims.pop() {
            let had_tracked = sim.archs.iter().any(|m| m.live.values().any(|e| e.trk.iter().any(|t| *t != 0)));
            if had_tracked && sim.churned {
                self.label("drop_world_live_tracked_after_churn");
            }
            let Sim { w, .. } = sim;
            if let Err(m) = catch(move || drop(w)) {
                if m.contains(comps::INJECTED) {
                    self.note_unwound();
                } else {
                    return Err(self.fail(&["C04"], "drop-panic", format!("dropping a world panicked: {}", m)));
                }
            }
            self.check_registry()?;
        }
        Ok(())
    }

    /// After a panic unwound out of an operation: everything from here on is C10's business;
    /// leaks are tolerated and recorded.
    pub fn note_unwound(&mut self) {
        self.post_panic = true;
        let fired = reg(|r| r.fired);
        self.injected_fired |= fired;
        let live_total: usize = self.sims.iter().map(|s| s.archs.iter().map(|m| m.live.len()).sum::<usize>()).sum();
        if fired && live_total >= 2 {
            self.label("injected_fired_ge2_live");
        }
        // anything live in the registry that no model owns has been leaked by the unwinding
        let mut owned: BTreeSet<u64> = BTreeSet::new();
        for sim in &self.sims {
            for m in &sim.archs {
                for e in m.live.values() {
                    owned.extend(e.trk.iter().copied().filter(|t| *t != 0));
                }
            }
        }
        let live: BTreeSet<u64> = reg(|r| r.live.clone());
        for id in live.difference(&owned) {
            self.leaked.insert(*id);
        }
        // zero-sized tracked values: only a count is available
        let want = self.expected_zst_live();
        let have = reg(|r| r.zst_live);
        if have > want {
            self.zst_leak_slack = have - want;
        }
    }

    pub fn expected_zst_live(&self) -> i64 {
        let mut n = 0i64;
        for sim in &self.sims {
            for (a, m) in sim.archs.iter().enumerate() {
                n += (m.live.len() * self.infos[a].zst_tracked) as i64;
            }
        }
        n
    }

    // --------------------------------------------------------------------------------------
    // running a case
    // --------------------------------------------------------------------------------------

    pub fn run(case: &Case, cfg: &'c Cfg) -> Outcome {
        comps::reg_reset();
        let mut out = Outcome::default();
        let mut s = match Session::<W>::new(cfg, &case.header) {
            Ok(s) => s,
            Err(f) => {
                out.fail = Some(f);
                return out;
            }
        };
        comps::suspend();
        let mut result: R = s.post_step();
        if result.is_ok() {
            for (i, op) in case.ops.iter().enumerate() {
                s.step = i + 1;
                s.touched.clear();
                s.growth_ok.clear();
                if cfg.count_ticks {
                    comps::reset_ticks();
                }
                if let Some(inj) = cfg.inject {
                    if inj.op == i {
                        comps::arm(inj.site, inj.k);
                    }
                }
                comps::resume();
                let r = s.apply(op);
                comps::suspend();
                comps::disarm();
                if cfg.count_ticks {
                    s.ticks.push([comps::ticks(Site::Closure), comps::ticks(Site::Clone), comps::ticks(Site::Drop)]);
                }
                if let Err(f) = r {
                    result = Err(f);
                    break;
                }
                if let Err(f) = s.post_step() {
                    result = Err(f);
                    break;
                }
                out.ops_run = i + 1;
            }
        }
        if result.is_ok() {
            s.step = case.ops.len() + 1;
            if let Some(inj) = cfg.inject {
                // a drop-site injection aimed past the last op fires during teardown
                if inj.op >= case.ops.len() {
                    comps::arm(inj.site, inj.k);
                }
            }
            if cfg.count_ticks {
                comps::reset_ticks();
            }
            comps::resume();
            result = s.teardown();
            comps::suspend();
            comps::disarm();
            if cfg.count_ticks {
                s.ticks.push([comps::ticks(Site::Closure), comps::ticks(Site::Clone), comps::ticks(Site::Drop)]);
            }
        } else {
            // make sure worlds are dropped before the registry is reset by the next case;
            // a corrupted world may panic or double drop here, which must not escape
            let mut drop_panic: Option<String> = None;
            while let Some(sim) = s.sims.pop() {
                let Sim { w, .. } = sim;
                if let Err(m) = catch(move || drop(w)) {
                    drop_panic = Some(m);
                }
            }
            // Conservation needs no model: once every world is gone, every tracked component ever
            // moved into one must have been dropped exactly once (C04). Judged here too, so that a
            // corruption first noticed by another oracle still reaches the drop accounting (not
            // after an unwinding, where leaks are tolerated, nor with an injection still armed).
            if !s.post_panic && cfg.inject.is_none() {
                if let Err(mut f) = s.check_registry() {
                    if let Some(m) = drop_panic {
                        f.msg = format!("{} (dropping a world panicked: {})", f.msg, m);
                    }
                    f.msg = format!("after the failing step, with every world dropped: {}", f.msg);
                    result = Err(Fail::merge(vec![result.unwrap_err(), f]));
                }
            }
        }
        out.fail = result.err();
        if !s.deferred.is_empty() {
            let mut all: Vec<Fail> = out.fail.take().into_iter().collect();
            all.extend(std::mem::take(&mut s.deferred));
            out.fail = Some(Fail::merge(all));
        }
        out.labels = std::mem::take(&mut s.labels);
        out.counters = std::mem::take(&mut s.counters);
        out.trace = s.trace;
        out.ticks = std::mem::take(&mut s.ticks);
        out.injected_fired = s.injected_fired;
        out.leaked = s.leaked.len();
        out
    }

    fn sim_ix(&self, sim: u8) -> usize {
        pick(sim, self.sims.len())
    }

    pub fn overflow_due_pub(&self, si: usize, a: usize, raw: Raw) -> Option<&'static str> {
        self.overflow_due(si, a, raw)
    }

    pub fn model_remove_pub(&mut self, si: usize, a: usize, raw: Raw) -> Option<MEntity> {
        self.touch_arch(si, a);
        self.model_remove(si, a, raw, None)
    }

    pub fn apply(&mut self, op: &Op) -> R {
        let narch = self.infos.len();
        // failures of the step that follows a forged probe are C03's (the world must be unchanged)
        self.only_tag = None;
        self.op_tag = match op {
            Op::IterDestroy { .. } | Op::XIterDestroy { .. } => Some("C07"),
            Op::Write { .. } => Some("C02"),
            Op::CloneWorld { .. } => Some("C13"),
            _ => None,
        };
        match *op {
            Op::Create { sim, arch, path } => {
                let si = self.sim_ix(sim);
                self.do_create(si, pick(arch, narch), CreatePath::pick(path as usize)).map(|_| ())
            }
            Op::Burst { sim, arch, path, n } => {
                let si = self.sim_ix(sim);
                for _ in 0..n {
                    self.do_create(si, pick(arch, narch), CreatePath::pick(path as usize))?;
                }
                Ok(())
            }
            Op::Refill { sim, arch, path } => {
                let si = self.sim_ix(sim);
                self.do_refill(si, pick(arch, narch), path)
            }
            Op::Destroy { sim, h, kind, level } => {
                let si = self.sim_ix(sim);
                if self.sims[si].handles.is_empty() {
                    return Ok(());
                }
                let hi = scale(h, self.sims[si].handles.len());
                self.do_destroy(si, hi, kind & 3, Level::pick(level as usize))
            }
            Op::DestroyDirect { sim, d, typed, level } => {
                let si = self.sim_ix(sim);
                if self.sims[si].directs.is_empty() {
                    return Ok(());
                }
                let di = scale(d, self.sims[si].directs.len());
                self.do_destroy_direct(si, di, typed & 1 == 1, Level::pick(level as usize))
            }
            Op::IterDestroy { sim, arch, variant, seed } => {
                let si = self.sim_ix(sim);
                let a = pick(arch, narch);
                let cols: Vec<usize> = (0..self.infos[a].ncols()).collect();
                let v = DestroyIterVariant::pick(variant as usize);
                self.do_iter_destroy(si, vec![(a, cols)], seed, &mut |w, decide| W::iter_destroy(w, a, v, decide))
            }
            Op::XIterDestroy { sim, q, seed } => {
                let si = self.sim_ix(sim);
                if self.xq.is_empty() {
                    return Ok(());
                }
                let qi = pick(q, self.xq.len());
                let matches = self.xq[qi].matches.clone();
                self.do_iter_destroy(si, matches, seed, &mut |w, decide| W::xiter_destroy(w, qi, decide))
            }
            Op::Write { sim, h, path, col, kind } => {
                let si = self.sim_ix(sim);
                if self.sims[si].handles.is_empty() {
                    return Ok(());
                }
                let hi = scale(h, self.sims[si].handles.len());
                self.do_write(si, hi, WritePath::pick(path as usize), col, kind & 3)
            }
            Op::Mint { sim, h, how, kind } => {
                let si = self.sim_ix(sim);
                if self.sims[si].handles.is_empty() {
                    return Ok(());
                }
                let hi = scale(h, self.sims[si].handles.len());
                self.do_mint(si, hi, how, kind & 3)
            }
            Op::Iterate { sim, arch, path, brk } => {
                let si = self.sim_ix(sim);
                self.do_iterate(si, pick(arch, narch), IterPath::pick(path as usize), brk)
            }
            Op::XIterate { sim, q, borrow, brk } => {
                let si = self.sim_ix(sim);
                if self.xq.is_empty() {
                    return Ok(());
                }
                self.do_xiterate(si, pick(q, self.xq.len()), borrow & 1 == 1, brk)
            }
            Op::Prefill { sim, arch, k } => {
                let si = self.sim_ix(sim);
                self.do_prefill(si, pick(arch, narch), k as usize * 1024)
            }
            Op::CloneWorld { sim, into } => {
                let si = self.sim_ix(sim);
                if into > 0 && self.sims.len() >= 2 {
                    let di = pick(into - 1, self.sims.len());
                    if di != si {
                        return self.do_clone_into(si, Some(di));
                    }
                }
                self.do_clone_into(si, None)
            }
            Op::Swap { a, b } => {
                let (x, y) = (pick(a, self.sims.len()), pick(b, self.sims.len()));
                if x != y {
                    // move both worlds by value (a world must be freely movable) ...
                    let (lo, hi) = (x.min(y), x.max(y));
                    let (l, r) = self.sims.split_at_mut(hi);
                    std::mem::swap(&mut l[lo].w, &mut r[0].w);
                    // ... and their models with them
                    std::mem::swap(&mut l[lo].archs, &mut r[0].archs);
                    std::mem::swap(&mut l[lo].handles, &mut r[0].handles);
                    std::mem::swap(&mut l[lo].directs, &mut r[0].directs);
                    std::mem::swap(&mut l[lo].is_clone, &mut r[0].is_clone);
                    std::mem::swap(&mut l[lo].churned, &mut r[0].churned);
                    std::mem::swap(&mut l[lo].ops_since_split, &mut r[0].ops_since_split);
                    std::mem::swap(&mut l[lo].created_since_split, &mut r[0].created_since_split);
                    std::mem::swap(&mut l[lo].had_mid_free_at_clone, &mut r[0].had_mid_free_at_clone);
                    self.label("swap");
                }
                Ok(())
            }
            Op::DropWorld { sim } => {
                if self.sims.len() > 1 {
                    let si = self.sim_ix(sim);
                    self.do_drop_world(si)?;
                }
                Ok(())
            }
            Op::ClearEvents { sim, arch } => {
                let si = self.sim_ix(sim);
                if !self.cfg.events {
                    return Ok(());
                }
                let a = if arch == 255 { None } else { Some(pick(arch, narch)) };
                let r = catch(|| W::clear_events(&mut self.sims[si].w, a));
                if let Err(m) = r {
                    return Err(self.fail(&["C17"], "clear-panic", format!("clear_events panicked: {}", m)));
                }
                for (i, m) in self.sims[si].archs.iter_mut().enumerate() {
                    if a.is_none() || a == Some(i) {
                        m.created_log.clear();
                        m.destroyed_log.clear();
                    }
                }
                self.label("clear_events");
                if a.is_none() {
                    self.label("clear_events_world");
                }
                Ok(())
            }
            Op::Preset { sim, arch, d, spread } => {
                let si = self.sim_ix(sim);
                self.do_preset(si, pick(arch, narch), d, spread)
            }
            Op::Forge { sim, arch, class, x, y, route } => {
                let si = self.sim_ix(sim);
                self.do_forge(si, pick(arch, narch), class, x, y, route)
            }
            Op::Probe => {
                comps::suspend();
                let saved = self.rot;
                let r = self.probe_all(Intensity::Full);
                self.rot = saved;
                r
            }
        }
    }

    // --------------------------------------------------------------------------------------
    // creation
    // --------------------------------------------------------------------------------------

    pub fn do_create(&mut self, si: usize, a: usize, path: CreatePath) -> R<bool> {
        let uid = self.next_uid;
        self.next_uid += 1;
        let ncols = self.infos[a].ncols();
        let vals: Vec<u64> = (0..ncols).map(|c| stamp(uid, c, 0)).collect();
        let mvals = self.masked(a, &vals);
        let len_b = self.sims[si].archs[a].live.len();
        let cap_b = self.sims[si].archs[a].last_cap;
        let r = catch(|| W::create(&mut self.sims[si].w, a, path, &vals));
        self.sims[si].ops_since_split += 1;
        let out = match r {
            Ok(o) => o,
            Err(m) => {
                return Err(self.fail(&["C12"], "create-panic", format!("{:?} on {} (len {}, capacity {}) panicked: {}", path, self.infos[a].name, len_b, cap_b, m)));
            }
        };
        match out {
            CreateOut::Created { raw, trk } => {
                if path.within() && len_b >= cap_b {
                    return Err(self.fail(&["C12"], "within-created-when-full", format!("{:?} on {} succeeded although len {} >= capacity {}", path, self.infos[a].name, len_b, cap_b)));
                }
                if raw_arch_id(raw) != self.infos[a].id {
                    return Err(self.fail(&["C14", "C08"], "create-wrong-arch-id", format!("handle {:?} created by {} (id {}) carries archetype id {}", raw, self.infos[a].name, self.infos[a].id, raw_arch_id(raw))));
                }
                // handles of distinct create calls must also be unequal under `==` (EntityAny's
                // PartialEq), across archetypes too
                let new_any = any(raw);
                if let Some(h) = self.sims[si].handles.iter().find(|h| h.raw != raw && any(h.raw) == new_any) {
                    let other = h.raw;
                    return Err(self.fail(&["C08", "C14"], "handles-compare-equal", format!("create on {} returned handle {:?} which compares equal (==) to the earlier, different handle {:?}", self.infos[a].name, raw, other)));
                }
                let dup = self.sims[si].archs[a].issued.contains(&raw);
                if dup {
                    let wrapped = self.cfg.wrapping && self.sims[si].archs[a].max_gen_seen == u32::MAX;
                    if !wrapped {
                        let tags: &[&'static str] = if self.sims[si].is_clone { &["C08", "C01", "C13"] } else { &["C08", "C01"] };
                        return Err(self.fail(tags, "handle-reissued", format!("create on {} returned handle {:?} which this world{} already issued earlier", self.infos[a].name, raw, if self.sims[si].is_clone { " (a clone: handles issued before the clone count)" } else { "" })));
                    }
                    self.label("wrap_reuse");
                }
                for (c, t) in trk.iter().enumerate() {
                    if (*t != 0) != self.infos[a].tracked[c] {
                        return Err(self.fail(&["C04"], "harness-trk-shape", format!("harness bug: tracked id shape mismatch in column {}", c)));
                    }
                }
                let m = &mut self.sims[si].archs[a];
                m.issued.insert(raw);
                m.live.insert(raw, MEntity { uid, vals: mvals, trk, writes: 0 });
                m.creations += 1;
                m.created_log.push(raw);
                m.max_gen_seen = m.max_gen_seen.max(raw.1);
                let wrapped = m.last_gen.insert(raw_slot(raw), raw.1).map(|g| raw.1 < g).unwrap_or(false);
                if wrapped {
                    self.labels.insert("generation_wrapped");
                }
                let m = &mut self.sims[si].archs[a];
                if raw.1 >= 3 {
                    self.label("reuse_depth_ge2");
                }
                if raw.1 >= 4 {
                    self.label("slot_reused_ge3");
                }
                if !path.within() && len_b >= cap_b {
                    // growth is legitimate here (and must have happened: checked in post_step)
                    self.growth_ok.insert((si, a));
                    let m = &mut self.sims[si].archs[a];
                    m.growths += 1;
                    if m.removals > 0 {
                        m.growths_after_churn += 1;
                        self.label("growth_after_churn");
                    }
                    if len_b > 0 {
                        self.label("growth_with_live");
                    }
                }
                let sim = &mut self.sims[si];
                sim.created_since_split += 1;
                if !dup {
                    sim.handles.push(HandleRec { raw, arch: a, uid });
                    let hi = sim.handles.len() - 1;
                    self.touched.insert((si, hi));
                }
                if self.sims[si].is_clone && self.sims[si].had_mid_free_at_clone && self.sims[si].created_since_split >= 2 {
                    self.label("clone_midfree_then_created2");
                }
                self.mix_trace(raw.0 as u64 ^ ((raw.1 as u64) << 32));
                self.count("creates", 1);
                Ok(true)
            }
            CreateOut::Full { vals: back, trk, given_trk } => {
                if !path.within() {
                    return Err(self.fail(&["C12"], "harness-full-from-create", "harness bug: plain create reported Full".into()));
                }
                if len_b < cap_b {
                    return Err(self.fail(&["C12"], "within-refused-with-room", format!("{:?} on {} refused although len {} < capacity {}", path, self.infos[a].name, len_b, cap_b)));
                }
                if back != mvals || trk != given_trk {
                    return Err(self.fail(&["C12", "C04"], "within-returned-other", format!("{:?} on {} refused but did not hand back its argument: gave stamps {:x?} ids {:?}, got {:x?} ids {:?}", path, self.infos[a].name, mvals, given_trk, back, trk)));
                }
                self.label("create_within_refused");
                self.count("creates_refused", 1);
                Ok(false)
            }
        }
    }

    /// Many creations through the plain world-level create, with the model kept in step but without
    /// the per-creation scans (`==` against all earlier handles) that would make this quadratic.
    pub fn do_prefill(&mut self, si: usize, a: usize, n: usize) -> R {
        let ncols = self.infos[a].ncols();
        for _ in 0..n {
            let uid = self.next_uid;
            self.next_uid += 1;
            let vals: Vec<u64> = (0..ncols).map(|c| stamp(uid, c, 0)).collect();
            let mvals = self.masked(a, &vals);
            let r = catch(|| W::create(&mut self.sims[si].w, a, CreatePath::WCreate, &vals));
            let (raw, trk) = match r {
                Ok(CreateOut::Created { raw, trk }) => (raw, trk),
                Ok(CreateOut::Full { .. }) => return Err(self.fail(&["C12"], "harness-full-from-create", "harness bug: plain create reported Full".into())),
                Err(m) => return Err(self.fail(&["C12"], "create-panic", format!("create on {} (len {}) panicked: {}", self.infos[a].name, self.sims[si].archs[a].live.len(), m))),
            };
            if raw_arch_id(raw) != self.infos[a].id {
                return Err(self.fail(&["C14", "C08"], "create-wrong-arch-id", format!("handle {:?} created by {} (id {}) carries archetype id {}", raw, self.infos[a].name, self.infos[a].id, raw_arch_id(raw))));
            }
            let m = &mut self.sims[si].archs[a];
            if !m.issued.insert(raw) {
                return Err(self.fail(&["C08", "C01"], "handle-reissued", format!("create on {} returned handle {:?} which this world already issued earlier", self.infos[a].name, raw)));
            }
            m.live.insert(raw, MEntity { uid, vals: mvals, trk, writes: 0 });
            m.creations += 1;
            m.created_log.push(raw);
            m.max_gen_seen = m.max_gen_seen.max(raw.1);
            m.last_gen.insert(raw_slot(raw), raw.1);
            self.sims[si].handles.push(HandleRec { raw, arch: a, uid });
        }
        self.growth_ok.insert((si, a));
        self.sims[si].ops_since_split += 1;
        self.sims[si].created_since_split += n as u32;
        if self.sims[si].archs[a].live.len() > 65536 {
            self.label("archetype_beyond_16_bit_indices");
        }
        self.count("creates", n as u64);
        Ok(())
    }

    pub fn do_refill(&mut self, si: usize, a: usize, path: u8) -> R {
        let p = if path & 1 == 0 { CreatePath::WCreateWithin } else { CreatePath::ACreateWithin };
        let len_b = self.sims[si].archs[a].live.len();
        let cap_b = self.sims[si].archs[a].last_cap;
        let poisoned = self.sims[si].archs[a].poisoned;
        let want = cap_b.saturating_sub(len_b);
        if want > 5000 {
            return Ok(()); // keep cases small; large capacities are covered by dedicated scenarios
        }
        let positions = self.sims[si].archs[a].removal_positions.len();
        let gac = self.sims[si].archs[a].growths_after_churn;
        let mut made = 0usize;
        loop {
            if !self.do_create(si, a, p)? {
                break;
            }
            made += 1;
            if made > want + 1 {
                break;
            }
        }
        if made != want && !poisoned {
            return Err(self.fail(&["C12"], "refill-count", format!("refilling {} from len {} to capacity {} performed {} successful creations, expected {}", self.infos[a].name, len_b, cap_b, made, want)));
        }
        self.sims[si].archs[a].removal_positions.clear();
        if want > 0 && (positions >= 2 || gac > 0) {
            self.label("refill_after_scattered_removals_or_growth_after_churn");
        }
        if want > 0 {
            self.label("refill");
        }
        Ok(())
    }

    // --------------------------------------------------------------------------------------
    // destruction
    // --------------------------------------------------------------------------------------

    /// Which documented overflow panic (if any) destroying `raw` in `(si, a)` must raise.
    fn overflow_due(&self, si: usize, a: usize, raw: Raw) -> Option<&'static str> {
        if self.cfg.wrapping {
            return None;
        }
        if raw.1 == u32::MAX {
            Some(OVERFLOW_SLOT)
        } else if self.sims[si].archs[a].version >= u32::MAX as u64 {
            Some(OVERFLOW_ARCH)
        } else {
            None
        }
    }

    /// Removes `raw` from the model of `(si, a)`.
    fn model_remove(&mut self, si: usize, a: usize, raw: Raw, pos: Option<usize>) -> Option<MEntity> {
        let wrapping = self.cfg.wrapping;
        let m = &mut self.sims[si].archs[a];
        let e = m.live.remove(&raw);
        if e.is_some() {
            m.removals += 1;
            m.version += 1;
            if wrapping && m.version > u32::MAX as u64 {
                m.version = 1;
            }
            m.destroyed_log.push(raw);
            if let Some(p) = pos {
                m.removal_positions.insert(p);
            }
            self.sims[si].churned = true;
        }
        e
    }

    /// Marks every live handle of the archetype as touched when it is small, else only `extra`.
    fn touch_arch(&mut self, si: usize, a: usize) {
        if self.sims[si].archs[a].live.len() <= 10 {
            let idx: Vec<usize> = self.sims[si]
                .handles
                .iter()
                .enumerate()
                .filter(|(_, h)| h.arch == a && self.sims[si].archs[a].live.contains_key(&h.raw))
                .map(|(i, _)| i)
                .collect();
            for i in idx {
                self.touched.insert((si, i));
            }
        }
    }

    /// After a documented overflow panic out of a destroy: the entity may be fully present or
    /// fully absent (C10); resynchronise the model with whichever it is.
    fn resync_after_overflow(&mut self, si: usize, a: usize, raw: Raw) {
        self.note_unwound();
        self.label("overflow_panic");
        self.sims[si].archs[a].poisoned = true;
        let present = catch(|| W::lookup(&mut self.sims[si].w, a, LookupPath::AContains, Key::Ent(raw))).ok().flatten().is_some();
        if !present {
            self.model_remove(si, a, raw, None);
        }
    }

    pub fn do_destroy(&mut self, si: usize, hi: usize, kind: u8, level: Level) -> R {
        let rec = self.sims[si].handles[hi].clone();
        let a = rec.arch;
        let live = self.sims[si].archs[a].live.contains_key(&rec.raw);
        self.touched.insert((si, hi));
        self.sims[si].ops_since_split += 1;
        let mut pos = None;
        let len_b = self.sims[si].archs[a].live.len();
        if live {
            pos = catch(|| W::lookup(&mut self.sims[si].w, a, LookupPath::AResolve, Key::Ent(rec.raw))).ok().flatten().and_then(|o| o.index);
            self.touch_arch(si, a);
        }
        // key
        let mut key = if kind & 1 == 0 { Key::Ent(rec.raw) } else { Key::Any(rec.raw) };
        let mut fresh_direct = false;
        if kind >= 2 {
            let d = catch(|| W::lookup(&mut self.sims[si].w, a, LookupPath::AToDirect, Key::Ent(rec.raw))).ok().flatten().and_then(|o| o.direct);
            if let Some(d) = d {
                key = if kind == 2 { Key::Dir(d) } else { Key::DirAny(d) };
                fresh_direct = true;
            }
        }
        let due = if live { self.overflow_due(si, a, rec.raw) } else { None };
        let r = catch(|| W::destroy(&mut self.sims[si].w, a, level, key));
        let tags: &[&'static str] = if fresh_direct { &["C01", "C09"] } else { &["C01"] };
        match r {
            Err(m) => {
                if m.contains(comps::INJECTED) {
                    // a Drop panicked inside a dynamic-key destroy: the entity is gone
                    self.note_unwound();
                    let present = catch(|| W::lookup(&mut self.sims[si].w, a, LookupPath::AContains, Key::Ent(rec.raw))).ok().flatten().is_some();
                    if !present {
                        self.model_remove(si, a, rec.raw, pos);
                    }
                    return Ok(());
                }
                if let Some(text) = due {
                    if m.contains(text) {
                        self.resync_after_overflow(si, a, rec.raw);
                        return Ok(());
                    }
                }
                Err(self.fail(tags, "destroy-panic", format!("destroy({}, {:?}) of {} handle {:?} in {} panicked: {}", key.kind_name(), level, if live { "live" } else { "stale" }, rec.raw, self.infos[a].name, m)))
            }
            Ok(res) => {
                if let (Some(text), true) = (due, res.is_some()) {
                    return Err(self.fail(&["C08"], "overflow-no-panic", format!("destroying {:?} in {} must panic with '{}' in the default configuration but returned normally", rec.raw, self.infos[a].name, text)));
                }
                match (live, res) {
                    (true, Some(out)) => {
                        let e = self.model_remove(si, a, rec.raw, pos).unwrap();
                        if let Some((vals, trk)) = out.comps {
                            if vals != e.vals {
                                return Err(self.fail(&["C02"], "destroy-returned-values", format!("destroy({}) of {:?} in {} returned stamps {:x?}, expected {:x?}", key.kind_name(), rec.raw, self.infos[a].name, vals, e.vals)));
                            }
                            if trk != e.trk {
                                return Err(self.fail(&["C04", "C02"], "destroy-returned-instances", format!("destroy({}) of {:?} in {} returned tracked instances {:?}, expected {:?}", key.kind_name(), rec.raw, self.infos[a].name, trk, e.trk)));
                            }
                        }
                        if let Some(p) = pos {
                            if p + 1 < len_b {
                                self.label("nonlast_removal");
                                if self.infos[a].ncols() >= 2 {
                                    self.label("nonlast_removal_multicol");
                                }
                                if self.infos[a].tracked.iter().any(|t| *t) {
                                    self.label("tracked_nonlast_removal");
                                }
                            }
                        }
                        if matches!(key, Key::Any(_) | Key::DirAny(_)) {
                            self.label("destroy_dynamic_key");
                        }
                        self.count("destroys", 1);
                        Ok(())
                    }
                    (true, None) => Err(self.fail(tags, "destroy-rejected-live", format!("destroy({}, {:?}) rejected live handle {:?} of {}", key.kind_name(), level, rec.raw, self.infos[a].name))),
                    (false, Some(_)) => Err(self.fail(&["C01"], "destroy-accepted-stale", format!("destroy({}, {:?}) accepted stale handle {:?} of {}", key.kind_name(), level, rec.raw, self.infos[a].name))),
                    (false, None) => {
                        self.label("destroy_of_stale");
                        Ok(())
                    }
                }
            }
        }
    }

    pub fn do_destroy_direct(&mut self, si: usize, di: usize, typed: bool, level: Level) -> R {
        let rec = self.sims[si].directs[di].clone();
        let a = rec.arch;
        let expect = rec.expect(&self.sims[si].archs[a]);
        let key = if typed { Key::Dir(rec.d) } else { Key::DirAny(rec.d) };
        let ent_live = self.sims[si].archs[a].live.contains_key(&rec.ent);
        let len_b = self.sims[si].archs[a].live.len();
        self.sims[si].ops_since_split += 1;
        self.touch_arch(si, a);
        let pos = if ent_live { catch(|| W::lookup(&mut self.sims[si].w, a, LookupPath::AResolve, Key::Ent(rec.ent))).ok().flatten().and_then(|o| o.index) } else { None };
        let due = if ent_live && expect != DirectExpect::MustReject { self.overflow_due(si, a, rec.ent) } else { None };
        let r = catch(|| W::destroy(&mut self.sims[si].w, a, level, key));
        let res = match r {
            Err(m) => {
                if m.contains(comps::INJECTED) {
                    self.note_unwound();
                    let present = catch(|| W::lookup(&mut self.sims[si].w, a, LookupPath::AContains, Key::Ent(rec.ent))).ok().flatten().is_some();
                    if !present {
                        self.model_remove(si, a, rec.ent, pos);
                    }
                    return Ok(());
                }
                if let Some(text) = due {
                    if m.contains(text) {
                        self.resync_after_overflow(si, a, rec.ent);
                        return Ok(());
                    }
                }
                return Err(self.fail(&["C09"], "destroy-direct-panic", format!("destroy({}, {:?}) with direct handle {:?} in {} panicked: {}", key.kind_name(), level, rec.d, self.infos[a].name, m)));
            }
            Ok(res) => res,
        };
        self.sims[si].directs[di].used_after_query |= rec.from_closure;
        match (expect, res) {
            (DirectExpect::MustReject, Some(_)) => Err(self.fail(&["C09"], "direct-destroy-accepted-stale", format!("destroy({}, {:?}) accepted direct handle {:?} of {} although {} removal(s) happened since it was issued", key.kind_name(), level, rec.d, self.infos[a].name, self.sims[si].archs[a].removals - rec.removals_at_mint))),
            (DirectExpect::MustReject, None) => {
                self.label("direct_rejected_after_removal");
                if self.sims[si].archs[a].creations > rec.creations_at_mint {
                    self.label("direct_used_after_removal_and_creation");
                }
                Ok(())
            }
            (DirectExpect::MustAccept, None) => Err(self.fail(&["C09"], "direct-destroy-rejected-fresh", format!("destroy({}, {:?}) rejected direct handle {:?} of {} although its archetype is unchanged since it was issued", key.kind_name(), level, rec.d, self.infos[a].name))),
            (DirectExpect::Either, None) => {
                self.mix_trace(0xD1EC7);
                Ok(())
            }
            (_, Some(out)) => {
                if due.is_some() {
                    return Err(self.fail(&["C08"], "overflow-no-panic", format!("destroying {:?} in {} must panic on generation overflow but returned normally", rec.ent, self.infos[a].name)));
                }
                // it must have destroyed the entity it was issued for
                let e = match self.model_remove(si, a, rec.ent, pos) {
                    Some(e) => e,
                    None => return Err(self.fail(&["C09"], "harness-direct-ent-dead", "harness bug: accepted direct handle whose entity is dead in the model".into())),
                };
                if let Some((vals, trk)) = out.comps {
                    if vals != e.vals || trk != e.trk {
                        return Err(self.fail(&["C09"], "direct-destroy-wrong-entity", format!("destroy({}) with direct handle {:?} issued for {:?} returned stamps {:x?} / instances {:?}, expected {:x?} / {:?}", key.kind_name(), rec.d, rec.ent, vals, trk, e.vals, e.trk)));
                    }
                }
                let gone = catch(|| W::lookup(&mut self.sims[si].w, a, LookupPath::AContains, Key::Ent(rec.ent))).ok().flatten().is_none();
                let len_a = catch(|| W::len(&self.sims[si].w, a)).unwrap_or(usize::MAX);
                if !gone || len_a + 1 != len_b {
                    return Err(self.fail(&["C09"], "direct-destroy-wrong-entity", format!("destroy({}) with direct handle {:?} issued for {:?} did not remove exactly that entity (still present: {}, len {} -> {})", key.kind_name(), rec.d, rec.ent, !gone, len_b, len_a)));
                }
                if let Some(p) = pos {
                    if p + 1 < len_b {
                        self.label("nonlast_removal");
                    }
                }
                self.label("destroy_by_stored_direct");
                self.count("destroys", 1);
                Ok(())
            }
        }
    }

    // --------------------------------------------------------------------------------------
    // ecs_iter_destroy!
    // --------------------------------------------------------------------------------------

    pub fn do_iter_destroy(
        &mut self,
        si: usize,
        matches: Vec<(usize, Vec<usize>)>,
        seed: u16,
        call: &mut dyn FnMut(&mut W, &mut dyn FnMut(&Obs) -> Step),
    ) -> R {
        self.sims[si].ops_since_split += 1;
        let mut visits: Vec<(Obs, Step)> = Vec::new();
        let total: usize = matches.iter().map(|(a, _)| self.sims[si].archs[*a].live.len()).sum();
        for (a, _) in &matches {
            self.touch_arch(si, *a);
        }
        let r = {
            let visits = &mut visits;
            let w = &mut self.sims[si].w;
            catch(move || {
                let mut decide = |o: &Obs| {
                    let i = visits.len();
                    let s = Step::from_u8(((seed >> (2 * (i % 8))) & 3) as u8);
                    visits.push((o.clone(), s));
                    s
                };
                call(w, &mut decide)
            })
        };
        let panicked = r.is_err();
        let mut overflow_resync: Option<(usize, Raw)> = None;
        let mut overflow_msg: Option<String> = None;
        if let Err(m) = &r {
            let injected = m.contains(comps::INJECTED);
            let overflow = !self.cfg.wrapping && (m.contains(OVERFLOW_SLOT) || m.contains(OVERFLOW_ARCH));
            if !injected && !overflow {
                return Err(self.fail(&["C07"], "iter-destroy-panic", format!("ecs_iter_destroy! panicked: {}", m)));
            }
            // injected: the tick precedes the push, so `visits` holds completed visits only.
            // overflow: the destroy of the last recorded visit raised it (judged below, once the
            // model reflects the earlier removals of this loop).
            if overflow {
                match visits.last() {
                    Some((_, s)) if s.is_destroy() => overflow_msg = Some(m.clone()),
                    _ => return Err(self.fail(&["C07"], "iter-destroy-panic", format!("ecs_iter_destroy! panicked outside a destroy: {}", m))),
                }
            }
        }
        // judge the visits against the model, in order
        let mut seen: BTreeSet<Raw> = BTreeSet::new();
        let mut broke_at: Option<usize> = None;
        let mut minted: Vec<(usize, usize, Raw, gecs::prelude::EntityDirectAny)> = Vec::new(); // (visit, arch, raw, d)
        let nvis = visits.len();
        for (i, (o, s)) in visits.iter().enumerate() {
            if let Some(b) = broke_at {
                return Err(self.fail(&["C07"], "iter-destroy-continued-after-break", format!("ecs_iter_destroy! ran its closure again (visit {}) after visit {} returned a Break", i, b)));
            }
            let raw = match o.raw {
                Some(r) => r,
                None => return Err(self.fail(&["C07"], "harness-no-raw", "harness bug: visit without handle".into())),
            };
            let a = match matches.iter().find(|m| self.infos[m.0].id == raw_arch_id(raw)) {
                Some(m) => m,
                None => return Err(self.fail(&["C07", "C05"], "iter-destroy-foreign-archetype", format!("ecs_iter_destroy! visited {:?}, which belongs to no matched archetype", raw))),
            };
            if !seen.insert(raw) {
                return Err(self.fail(&["C07"], "iter-destroy-visited-twice", format!("ecs_iter_destroy! visited {:?} twice", raw)));
            }
            let e = match self.sims[si].archs[a.0].live.get(&raw) {
                Some(e) => e.clone(),
                None => return Err(self.fail(&["C07"], "iter-destroy-visited-dead", format!("ecs_iter_destroy! visited {:?}, which was not alive when the loop started (or was destroyed earlier in the loop)", raw))),
            };
            let want_vals: Vec<u64> = a.1.iter().map(|c| e.vals[*c]).collect();
            let want_trk: Vec<u64> = a.1.iter().map(|c| e.trk[*c]).collect();
            if o.vals != want_vals || o.trk != want_trk {
                return Err(self.fail(&["C07", "C02"], "iter-destroy-wrong-values", format!("ecs_iter_destroy! visit {} of {:?} bound stamps {:x?} (instances {:?}), expected {:x?} ({:?})", i, raw, o.vals, o.trk, want_vals, want_trk)));
            }
            if let Some(d) = o.direct {
                minted.push((i, a.0, raw, d));
            }
            let is_last = i + 1 == nvis;
            if let (true, Some(m)) = (is_last, overflow_msg.as_ref()) {
                match self.overflow_due(si, a.0, raw) {
                    Some(text) if m.contains(text) => overflow_resync = Some((a.0, raw)),
                    _ => return Err(self.fail(&["C07"], "iter-destroy-panic", format!("ecs_iter_destroy! panicked with an overflow that is not due: {}", m))),
                }
            }
            let destroyed = s.is_destroy() && !(is_last && overflow_resync.is_some());
            if destroyed {
                let pos = None;
                self.model_remove(si, a.0, raw, pos);
                self.count("iter_destroys", 1);
            }
            if s.is_break() {
                broke_at = Some(i);
            }
        }
        if let Some((a, raw)) = overflow_resync {
            self.resync_after_overflow(si, a, raw);
        } else if panicked {
            self.note_unwound();
        }
        if !panicked {
            match broke_at {
                None => {
                    if nvis != total {
                        return Err(self.fail(&["C07"], "iter-destroy-visit-count", format!("ecs_iter_destroy! ran its closure {} times without a Break, but {} matching entities were alive when it started", nvis, total)));
                    }
                }
                Some(b) => {
                    if b + 1 != nvis {
                        return Err(self.fail(&["C07"], "iter-destroy-continued-after-break", format!("ecs_iter_destroy!: Break at visit {} but {} visits", b, nvis)));
                    }
                    if b + 1 < total {
                        self.label("iter_destroy_break_inside");
                    }
                }
            }
        }
        // labels
        {
            let steps: Vec<Step> = visits.iter().map(|v| v.1).collect();
            let destroy_then_keep = steps.windows(2).any(|w| w[0] == Step::ContinueDestroy && !w[1].is_destroy());
            if total >= 3 && (destroy_then_keep || steps.contains(&Step::BreakDestroy)) {
                self.label("iter_destroy_nontrivial");
            }
            if steps.iter().any(|s| s.is_destroy()) {
                self.label("iter_destroy_destroyed");
            }
            if matches.len() > 1 {
                self.label("iter_destroy_multi_arch");
            }
        }
        // direct handles handed to the closure: judged by the C09 rule after the loop
        if !panicked {
            let mut kept = 0;
            for (i, a, raw, d) in minted {
                // removals in archetype `a` at or after visit i (the visit's own destroy comes after the mint)
                let removed_after = visits
                    .iter()
                    .enumerate()
                    .filter(|(j, (o, s))| *j >= i && s.is_destroy() && o.raw.map(raw_arch_id) == Some(self.infos[a].id))
                    .count();
                let accepted = catch(|| W::lookup(&mut self.sims[si].w, a, LookupPath::AContains, Key::DirAny(d))).ok().flatten().is_some();
                if removed_after > 0 {
                    if accepted {
                        return Err(self.fail(&["C07", "C09"], "iter-destroy-direct-accepted-after-removal", format!("direct handle {:?} handed to the ecs_iter_destroy! closure at visit {} is still accepted after {} later removal(s) in its archetype", d, i, removed_after)));
                    }
                } else {
                    if !accepted {
                        return Err(self.fail(&["C07", "C09"], "iter-destroy-direct-dead-on-arrival", format!("direct handle {:?} handed to the ecs_iter_destroy! closure at visit {} (entity {:?}) is rejected although nothing was removed from {} after it was issued", d, i, raw, self.infos[a].name)));
                    }
                    let got = catch(|| W::lookup(&mut self.sims[si].w, a, LookupPath::AResolveSlices, Key::Dir(d))).ok().flatten().and_then(|o| o.raw);
                    if got != Some(raw) {
                        return Err(self.fail(&["C07", "C09"], "iter-destroy-direct-wrong-entity", format!("direct handle {:?} handed to the ecs_iter_destroy! closure while visiting {:?} designates {:?}", d, raw, got)));
                    }
                    if kept < 2 {
                        kept += 1;
                        let m = &self.sims[si].archs[a];
                        let rec = DirectRec { d, arch: a, ent: raw, removals_at_mint: m.removals, creations_at_mint: m.creations, from_closure: true, index: None, used_after_query: false };
                        self.push_direct(si, rec);
                    }
                    self.label("iter_destroy_direct_valid_after_loop");
                }
            }
        }
        Ok(())
    }

    pub fn push_direct(&mut self, si: usize, rec: DirectRec) {
        let ds = &mut self.sims[si].directs;
        if ds.iter().any(|r| r.d == rec.d && r.ent == rec.ent && r.removals_at_mint == rec.removals_at_mint) {
            return;
        }
        if ds.len() >= 48 {
            let i = self.rot % 48;
            ds[i] = rec;
        } else {
            ds.push(rec);
        }
    }

    // --------------------------------------------------------------------------------------
    // writes, mints, iteration
    // --------------------------------------------------------------------------------------

    /// Builds the key of kind 0..3 for a handle (direct kinds are minted now; falls back to the
    /// entity kinds when the handle is stale and nothing can be minted).
    fn key_of(&mut self, si: usize, rec: &HandleRec, kind: u8) -> Key {
        if kind >= 2 {
            let d = catch(|| W::lookup(&mut self.sims[si].w, rec.arch, LookupPath::WToDirect, Key::Any(rec.raw))).ok().flatten().and_then(|o| o.direct);
            if let Some(d) = d {
                return if kind == 2 { Key::Dir(d) } else { Key::DirAny(d) };
            }
        }
        if kind & 1 == 0 {
            Key::Ent(rec.raw)
        } else {
            Key::Any(rec.raw)
        }
    }

    pub fn do_write(&mut self, si: usize, hi: usize, path: WritePath, col: u8, kind: u8) -> R {
        let rec = self.sims[si].handles[hi].clone();
        let a = rec.arch;
        let live = self.sims[si].archs[a].live.contains_key(&rec.raw);
        let col = pick(col, self.infos[a].ncols());
        let mut key = self.key_of(si, &rec, kind);
        if path.by_scan() && key.is_direct() {
            key = Key::Ent(rec.raw);
        }
        if path.typed_only() && !key.is_typed() {
            key = match key {
                Key::Any(r) => Key::Ent(r),
                Key::DirAny(d) => Key::Dir(d),
                k => k,
            };
        }
        let writes = self.sims[si].archs[a].live.get(&rec.raw).map(|e| e.writes).unwrap_or(0);
        let val = stamp(rec.uid, col, writes + 1);
        self.touched.insert((si, hi));
        self.sims[si].ops_since_split += 1;
        let r = catch(|| W::write(&mut self.sims[si].w, a, path, key, col, val));
        let found = match r {
            Ok(f) => f,
            Err(m) => {
                if m.contains(comps::INJECTED) {
                    self.note_unwound();
                    // the closure of an earlier visit may already have written (scanning paths):
                    // the column holds either the old or the new stamp
                    if live {
                        let got = catch(|| W::lookup(&mut self.sims[si].w, a, LookupPath::AResolveSlices, Key::Ent(rec.raw))).ok().flatten().map(|o| o.vals);
                        let mask = self.infos[a].masks[col];
                        if let Some(vals) = got {
                            if vals.get(col) == Some(&(val & mask)) {
                                let e = self.sims[si].archs[a].live.get_mut(&rec.raw).unwrap();
                                e.vals[col] = val & mask;
                                e.writes += 1;
                            }
                        }
                    }
                    return Ok(());
                }
                return Err(self.fail(&["C01", "C02"], "write-panic", format!("write through {:?} with {} to {:?} in {} panicked: {}", path, key.kind_name(), rec.raw, self.infos[a].name, m)));
            }
        };
        let tags: &[&'static str] = if key.is_direct() { &["C01", "C09"] } else { &["C01"] };
        match (live, found) {
            (true, true) => {
                let mask = self.infos[a].masks[col];
                let e = self.sims[si].archs[a].live.get_mut(&rec.raw).unwrap();
                e.vals[col] = val & mask;
                e.writes += 1;
                self.label("write_cross_path");
                self.count("writes", 1);
                Ok(())
            }
            (true, false) => Err(self.fail(tags, "write-missed-live", format!("mutable path {:?} with {} did not find live entity {:?} of {}", path, key.kind_name(), rec.raw, self.infos[a].name))),
            (false, true) => Err(self.fail(&["C01"], "write-found-stale", format!("mutable path {:?} with {} accepted stale handle {:?} of {}", path, key.kind_name(), rec.raw, self.infos[a].name))),
            (false, false) => Ok(()),
        }
    }

    pub fn do_mint(&mut self, si: usize, hi: usize, how: u8, kind: u8) -> R {
        const HOW: [LookupPath; 8] = [
            LookupPath::WToDirect,
            LookupPath::AToDirect,
            LookupPath::Find,
            LookupPath::FindAny,
            LookupPath::FindWild,
            LookupPath::FindBorrow,
            LookupPath::FindBorrowAny,
            LookupPath::FindBorrowWild,
        ];
        let path = HOW[how as usize % HOW.len()];
        let rec = self.sims[si].handles[hi].clone();
        let a = rec.arch;
        let live = self.sims[si].archs[a].live.contains_key(&rec.raw);
        // kinds 2/3 re-mint from a freshly minted direct handle (to_direct with a direct key)
        let key = self.key_of(si, &rec, kind);
        self.touched.insert((si, hi));
        let r = catch(|| W::lookup(&mut self.sims[si].w, a, path, key));
        let tags: &[&'static str] = if key.is_direct() { &["C09"] } else { &["C01"] };
        let obs = match r {
            Ok(o) => o,
            Err(m) => {
                if m.contains(comps::INJECTED) {
                    self.note_unwound();
                    return Ok(());
                }
                return Err(self.fail(tags, "mint-panic", format!("{:?} with {} on {:?} panicked: {}", path, key.kind_name(), rec.raw, m)));
            }
        };
        match (live, obs) {
            (true, Some(o)) => {
                let d = match o.direct {
                    Some(d) => d,
                    None => return Err(self.fail(&["C09"], "harness-no-direct", "harness bug: mint path without direct handle".into())),
                };
                let from_closure = !matches!(path, LookupPath::WToDirect | LookupPath::AToDirect);
                self.register_direct(si, a, rec.raw, d, from_closure, o.index)?;
                self.count("mints", 1);
                if from_closure && self.sims.len() >= 2 && !key.is_direct() {
                    self.mint_alternating(si, a, &rec, key, how & 1 == 1)?;
                }
                Ok(())
            }
            (true, None) => Err(self.fail(tags, "mint-rejected-live", format!("{:?} with {} rejected live handle {:?} of {}", path, key.kind_name(), rec.raw, self.infos[a].name))),
            (false, Some(_)) => Err(self.fail(&["C01"], "mint-accepted-stale", format!("{:?} with {} accepted stale handle {:?} of {}", path, key.kind_name(), rec.raw, self.infos[a].name))),
            (false, None) => Ok(()),
        }
    }

    /// The find macros must evaluate their world argument exactly once: with an argument that
    /// yields this world first and ANOTHER world afterwards, everything the closure receives must
    /// still come from this world (values, handle, and a direct handle valid here and now).
    fn mint_alternating(&mut self, si: usize, a: usize, rec: &HandleRec, key: Key, borrow: bool) -> R {
        let oi = (si + 1) % self.sims.len();
        let (lo, hi) = (si.min(oi), si.max(oi));
        let r = {
            let (l, r) = self.sims.split_at_mut(hi);
            let (w1, w2) = if si < oi { (&mut l[lo].w, &mut r[0].w) } else { (&mut r[0].w, &mut l[lo].w) };
            catch(|| W::find_alternating(w1, w2, a, borrow, key))
        };
        let what = if borrow { "ecs_find_borrow!" } else { "ecs_find!" };
        let (obs, evals) = match r {
            Ok(t) => t,
            Err(m) => return Err(self.fail(&["C09", "C01"], "find-alternating-panic", format!("{} with a world argument that yields another world when evaluated again panicked: {}", what, m))),
        };
        self.label("find_with_alternating_world_expression");
        let e = match self.sims[si].archs[a].live.get(&rec.raw) {
            Some(e) => e.clone(),
            None => return Ok(()),
        };
        let o = match obs {
            Some(o) => o,
            None => return Err(self.fail(&["C01", "C09"], "find-alternating-missed", format!("{} (world argument evaluated {} times) did not find live entity {:?} of the world its argument yielded first", what, evals, rec.raw))),
        };
        if o.raw != Some(rec.raw) || o.vals != e.vals || o.trk != e.trk {
            return Err(self.fail(&["C02", "C09"], "find-alternating-values", format!("{} evaluated its world argument {} times and handed the closure data of another world: handle {:?} stamps {:x?}, expected {:?} {:x?}", what, evals, o.raw, o.vals, rec.raw, e.vals)));
        }
        if let Some(d) = o.direct {
            let got = catch(|| W::lookup(&mut self.sims[si].w, a, LookupPath::AResolveSlices, Key::DirAny(d))).ok().flatten().and_then(|o| o.raw);
            if got != Some(rec.raw) {
                return Err(self.fail(&["C09"], "find-alternating-direct", format!("{} evaluated its world argument {} times: the direct handle {:?} handed to the closure for {:?} {} in the world it was issued in", what, evals, d, rec.raw, match got { None => "is rejected".to_string(), Some(g) => format!("designates {:?}", g) })));
            }
        }
        Ok(())
    }

    /// A direct handle was just issued for `ent`: it must be accepted right now and designate
    /// `ent` (C09 "accepted at the moment it is issued"). Then it is kept for later use.
    pub fn register_direct(&mut self, si: usize, a: usize, ent: Raw, d: gecs::prelude::EntityDirectAny, from_closure: bool, index: Option<usize>) -> R {
        let got = catch(|| W::lookup(&mut self.sims[si].w, a, LookupPath::AResolveSlices, Key::DirAny(d)));
        match got {
            Err(m) => return Err(self.fail(&["C09"], "direct-lookup-panic", format!("lookup with freshly issued direct handle {:?} panicked: {}", d, m))),
            Ok(None) => return Err(self.fail(&["C09"], "direct-dead-on-arrival", format!("direct handle {:?} issued for live entity {:?} of {} is rejected at the moment it is issued", d, ent, self.infos[a].name))),
            Ok(Some(o)) => {
                if o.raw != Some(ent) {
                    return Err(self.fail(&["C09"], "direct-wrong-entity", format!("direct handle {:?} issued for {:?} designates {:?}", d, ent, o.raw)));
                }
            }
        }
        let m = &self.sims[si].archs[a];
        let rec = DirectRec { d, arch: a, ent, removals_at_mint: m.removals, creations_at_mint: m.creations, from_closure, index, used_after_query: false };
        self.push_direct(si, rec);
        Ok(())
    }

    /// Compares an iteration result with the model's live set of the matched archetypes.
    fn judge_iteration(&mut self, si: usize, what: &str, matches: &[(usize, Vec<usize>)], obs: &[Obs], brk: Option<usize>, reads_values: bool) -> R {
        let total: usize = matches.iter().map(|(a, _)| self.sims[si].archs[*a].live.len()).sum();
        let want_n = match brk {
            Some(k) => (k + 1).min(total),
            None => total,
        };
        if obs.len() != want_n {
            return Err(self.fail(&["C06"], "iter-count", format!("{} yielded {} items, expected {} ({} live matching entities{})", what, obs.len(), want_n, total, brk.map(|k| format!(", Break at visit {}", k)).unwrap_or_default())));
        }
        let mut seen = BTreeSet::new();
        for (i, o) in obs.iter().enumerate() {
            let raw = match o.raw {
                Some(r) => r,
                None => return Err(self.fail(&["C06"], "iter-slice-length", format!("{}: component slices and entities() have different lengths (item {})", what, i))),
            };
            let m = match matches.iter().find(|m| self.infos[m.0].id == raw_arch_id(raw)) {
                Some(m) => m,
                None => return Err(self.fail(&["C06", "C05"], "iter-foreign-archetype", format!("{} yielded {:?}, which belongs to no matched archetype", what, raw))),
            };
            if !seen.insert(raw) {
                return Err(self.fail(&["C06"], "iter-duplicate", format!("{} yielded {:?} twice", what, raw)));
            }
            let e = match self.sims[si].archs[m.0].live.get(&raw) {
                Some(e) => e,
                None => return Err(self.fail(&["C06"], "iter-dead", format!("{} yielded {:?}, which is not a live entity", what, raw))),
            };
            if reads_values {
                let want_vals: Vec<u64> = m.1.iter().map(|c| e.vals[*c]).collect();
                let want_trk: Vec<u64> = m.1.iter().map(|c| e.trk[*c]).collect();
                if o.vals != want_vals || o.trk != want_trk {
                    return Err(self.fail(&["C06", "C02"], "iter-wrong-values", format!("{} paired {:?} with stamps {:x?} (instances {:?}), expected {:x?} ({:?})", what, raw, o.vals, o.trk, want_vals, want_trk)));
                }
            }
        }
        Ok(())
    }

    /// `Archetype::iter(_mut)` consumed through `skip` / `step_by` / `nth` / `count` / `last`:
    /// every item is a live entity with its own values, no entity twice, and the number of
    /// items is what the adaptor promises.
    pub fn iterate_adaptor(&mut self, si: usize, a: usize, path: IterPath, k: usize) -> R {
        let obs = match catch(|| W::iterate(&mut self.sims[si].w, a, path, Some(k))) {
            Ok(o) => o,
            Err(m) => return Err(self.fail(&["C06"], "iterate-panic", format!("{:?}({}) over {} panicked: {}", path, k, self.infos[a].name, m))),
        };
        let n = self.sims[si].archs[a].live.len();
        let want = path.expected_items(n, k);
        if obs.len() != want {
            return Err(self.fail(&["C06"], "iter-count", format!("{:?}({}) over {} yielded {} items, expected {} ({} live entities)", path, k, self.infos[a].name, obs.len(), want, n)));
        }
        let mut seen = BTreeSet::new();
        for o in &obs {
            let raw = match o.raw {
                Some(r) => r,
                None => return Err(self.fail(&["C06"], "iter-adaptor-inconsistent", format!("{:?} over {}: size_hint / count / last disagree with a plain walk", path, self.infos[a].name))),
            };
            if !seen.insert(raw) {
                return Err(self.fail(&["C06"], "iter-duplicate", format!("{:?}({}) over {} yielded {:?} twice", path, k, self.infos[a].name, raw)));
            }
            let bad = match self.sims[si].archs[a].live.get(&raw) {
                None => Some(format!("{:?}({}) over {} yielded {:?}, which is not a live entity", path, k, self.infos[a].name, raw)),
                Some(e) if e.vals != o.vals || e.trk != o.trk => Some(format!("{:?}({}) over {} paired {:?} with stamps {:x?}, expected {:x?}", path, k, self.infos[a].name, raw, o.vals, e.vals)),
                _ => None,
            };
            if let Some(m) = bad {
                return Err(self.fail(&["C06", "C02"], "iter-wrong-values", m));
            }
        }
        self.count("iterations", 1);
        Ok(())
    }

    pub fn judge_iteration_pub(&mut self, si: usize, what: &str, matches: &[(usize, Vec<usize>)], obs: &[Obs], brk: Option<usize>, reads_values: bool) -> R {
        self.judge_iteration(si, what, matches, obs, brk, reads_values)
    }

    pub fn do_iterate(&mut self, si: usize, a: usize, path: IterPath, brk: u8) -> R {
        if path.adaptor() {
            return self.iterate_adaptor(si, a, path, (brk as usize % 4) + if path == IterPath::ArchIterStepBy { 1 } else { 0 });
        }
        let brk = if brk == 0 || !path.supports_break() { None } else { Some(brk as usize - 1) };
        let r = catch(|| W::iterate(&mut self.sims[si].w, a, path, brk));
        let obs = match r {
            Ok(o) => o,
            Err(m) => {
                if m.contains(comps::INJECTED) {
                    self.note_unwound();
                    return Ok(());
                }
                return Err(self.fail(&["C06"], "iterate-panic", format!("{:?} over {} panicked: {}", path, self.infos[a].name, m)));
            }
        };
        let cols: Vec<usize> = (0..self.infos[a].ncols()).collect();
        let what = format!("{:?} over {}", path, self.infos[a].name);
        self.judge_iteration(si, &what, &[(a, cols)], &obs, brk, path.reads_values())?;
        // iteration order is unspecified: it goes into the trace only (C19 differential)
        for o in &obs {
            if let Some(r) = o.raw {
                self.mix_trace(r.0 as u64 ^ ((r.1 as u64) << 32));
            }
        }
        let n = self.sims[si].archs[a].live.len();
        if n >= 3 && self.sims[si].archs[a].removals > 0 && self.labels.contains("nonlast_removal") {
            self.label("iterate_ge3_after_nonlast_removal");
        }
        if n == 0 {
            self.label("iterate_empty");
        }
        if n > 0 && n == self.sims[si].archs[a].last_cap {
            self.label("iterate_at_exact_capacity");
        }
        if path.hands_direct() {
            let mut kept = 0;
            for o in obs.iter() {
                if let (Some(d), Some(raw)) = (o.direct, o.raw) {
                    if kept < 2 {
                        self.register_direct(si, a, raw, d, true, None)?;
                        kept += 1;
                    }
                }
            }
        }
        self.count("iterations", 1);
        Ok(())
    }

    pub fn do_xiterate(&mut self, si: usize, qi: usize, borrow: bool, brk: u8) -> R {
        let brk = if brk == 0 { None } else { Some(brk as usize - 1) };
        let r = catch(|| W::xiterate(&mut self.sims[si].w, qi, borrow, brk));
        let obs = match r {
            Ok(o) => o,
            Err(m) => {
                if m.contains(comps::INJECTED) {
                    self.note_unwound();
                    return Ok(());
                }
                return Err(self.fail(&["C06"], "iterate-panic", format!("cross query {} panicked: {}", self.xq[qi].text, m)));
            }
        };
        let matches = self.xq[qi].matches.clone();
        let what = format!("{} {}", if borrow { "ecs_iter_borrow!" } else { "ecs_iter!" }, self.xq[qi].text);
        self.judge_iteration(si, &what, &matches, &obs, brk, true)?;
        let total: usize = matches.iter().map(|(a, _)| self.sims[si].archs[*a].live.len()).sum();
        if let Some(k) = brk {
            let nonempty = matches.iter().filter(|(a, _)| !self.sims[si].archs[*a].live.is_empty()).count();
            if k + 1 < total && nonempty >= 2 {
                self.label("break_inside_multi_arch");
            }
        }
        for o in &obs {
            if let Some(r) = o.raw {
                self.mix_trace(r.0 as u64 ^ ((r.1 as u64) << 32));
            }
        }
        let mut kept = 0;
        for o in obs.iter().rev() {
            if let (Some(d), Some(raw)) = (o.direct, o.raw) {
                if kept < 2 {
                    if let Some(a) = matches.iter().map(|m| m.0).find(|a| self.infos[*a].id == raw_arch_id(raw)) {
                        self.register_direct(si, a, raw, d, true, None)?;
                        kept += 1;
                    }
                }
            }
        }
        self.count("iterations", 1);
        Ok(())
    }

    // --------------------------------------------------------------------------------------
    // clone / drop / preset
    // --------------------------------------------------------------------------------------

    pub fn do_drop_world(&mut self, si: usize) -> R {
        let sim = self.sims.remove(si);
        let had_tracked = sim.archs.iter().any(|m| m.live.values().any(|e| e.trk.iter().any(|t| *t != 0)));
        if had_tracked && sim.churned {
            self.label("drop_world_live_tracked_after_churn");
        }
        let Sim { w, .. } = sim;
        if let Err(m) = catch(move || drop(w)) {
            if m.contains(comps::INJECTED) {
                self.note_unwound();
                return Ok(());
            }
            return Err(self.fail(&["C04"], "drop-panic", format!("dropping a world panicked: {}", m)));
        }
        self.label("drop_world");
        Ok(())
    }

    pub fn do_clone(&mut self, si: usize) -> R {
        self.do_clone_into(si, None)
    }

    /// `into == None`: `let w2 = world.clone()`. `into == Some(di)`: `sims[di].w.clone_from(&world)`:
    /// everything the destination owned must be dropped exactly once (the registry check after the
    /// step sees a leak, the registry itself a double drop) and the destination then answers like
    /// the source. Nothing is demanded of the destination's capacity or internal bookkeeping beyond
    /// what the model-based probes see (an in-place `clone_from` may legitimately keep a larger
    /// allocation).
    pub fn do_clone_into(&mut self, si: usize, into: Option<usize>) -> R {
        let what = if into.is_some() { "dst.clone_from(&world)" } else { "world.clone()" };
        let mut si = si;
        let mut dst: Option<W> = None;
        if let Some(di) = into {
            let Sim { w, .. } = self.sims.remove(di);
            if si > di {
                si -= 1;
            }
            dst = Some(w);
        } else if self.sims.len() >= self.cfg.max_sims {
            let last = self.sims.len() - 1;
            if last == si {
                return Ok(());
            }
            self.do_drop_world(last)?;
        }
        let (zc0, tc0) = reg(|r| {
            r.clone_log.clear();
            (r.zst_clones, r.tok_clones)
        });
        let r = match dst {
            Some(mut d) => {
                let r = catch(|| d.clone_from_world(&self.sims[si].w));
                match r {
                    Ok(()) => Ok(d),
                    Err(m) => {
                        // the destination is in an unspecified but safe state: it must be droppable
                        let r2 = catch(move || drop(d));
                        if let Err(m2) = r2 {
                            if !m2.contains(comps::INJECTED) {
                                return Err(self.fail(&["C10"], "clone-from-then-drop-panic", format!("dropping the destination of a clone_from that unwound panicked: {}", m2)));
                            }
                        }
                        Err(m)
                    }
                }
            }
            None => catch(|| self.sims[si].w.clone_world()),
        };
        let w2 = match r {
            Ok(w) => w,
            Err(m) => {
                if m.contains(comps::INJECTED) {
                    self.note_unwound();
                    return Ok(());
                }
                return Err(self.fail(&["C13"], "clone-panic", format!("{} panicked with no borrow outstanding: {}", what, m)));
            }
        };
        let log: Vec<(u64, u64)> = reg(|r| std::mem::take(&mut r.clone_log));
        let (zc1, tc1) = reg(|r| (r.zst_clones, r.tok_clones));
        let mut map: BTreeMap<u64, u64> = BTreeMap::new();
        for (src, new) in &log {
            if map.insert(*src, *new).is_some() {
                // keep the world alive in no model: it is dropped right here
                drop(w2);
                return Err(self.fail(&["C04", "C13"], "clone-cloned-twice", format!("{} cloned tracked component instance {} more than once", what, src)));
            }
        }
        let mut archs = self.sims[si].archs.clone();
        let mut live_tracked = 0usize;
        let mut zst_expected = 0usize;
        for (a, m) in archs.iter_mut().enumerate() {
            zst_expected += m.live.len() * self.infos[a].zst_tracked;
            for e in m.live.values_mut() {
                for t in e.trk.iter_mut() {
                    if *t != 0 {
                        live_tracked += 1;
                        match map.get(t) {
                            Some(n) => *t = *n,
                            None => {
                                let id = *t;
                                drop(w2);
                                return Err(self.fail(&["C04", "C13"], "clone-missed-component", format!("{} did not clone live tracked component instance {}", what, id)));
                            }
                        }
                    }
                }
            }
        }
        if log.len() != live_tracked || (zc1 - zc0) as usize != zst_expected {
            drop(w2);
            return Err(self.fail(&["C04", "C13"], "clone-count", format!("{} made {} clones of tracked components ({} of the zero-sized one), expected {} ({})", what, log.len(), zc1 - zc0, live_tracked, zst_expected)));
        }
        let tok_expected: usize = self.sims[si].archs.iter().enumerate().map(|(a, m)| m.live.len() * self.infos[a].tok_cols).sum();
        if (tc1 - tc0) as usize != tok_expected {
            drop(w2);
            return Err(self.fail(&["C04", "C13"], "clone-count-no-drop-glue", format!("{} called Clone::clone {} times on the components without drop glue (Tok), expected exactly once per live component = {}", what, tc1 - tc0, tok_expected)));
        }
        if live_tracked + zst_expected + tok_expected > 0 {
            self.label("clone_with_live_tracked");
        }
        // label: free slot in the middle of the slot array
        let mut mid_free = false;
        for a in 0..self.infos.len() {
            let d = W::dump(&self.sims[si].w, a);
            let max_occ = d.slots.iter().rposition(|s| s.0 & (1 << 31) == 0);
            if let Some(mo) = max_occ {
                if d.slots[..mo].iter().any(|s| s.0 & (1 << 31) != 0) {
                    mid_free = true;
                }
            }
        }
        let src = &self.sims[si];
        let new_sim = Sim {
            w: w2,
            archs,
            handles: src.handles.clone(),
            directs: src.directs.clone(),
            ops_since_split: 0,
            is_clone: true,
            churned: src.churned,
            created_since_split: 0,
            had_mid_free_at_clone: mid_free,
        };
        self.sims[si].ops_since_split = 0;
        self.sims.push(new_sim);
        let ni = self.sims.len() - 1;
        self.label(if into.is_some() { "clone_from" } else { "clone" });
        if mid_free {
            self.label("clone_with_mid_free_slot");
        }
        if self.sims[si].handles.iter().any(|h| !self.sims[si].archs[h.arch].live.contains_key(&h.raw)) {
            self.label("stale_probe_after_clone");
        }
        // observational identity right now: same len / capacity, and the whole probe suite
        for a in 0..self.infos.len() {
            let (l1, c1) = (W::len(&self.sims[si].w, a), W::capacity(&self.sims[si].w, a));
            let (l2, c2) = (W::len(&self.sims[ni].w, a), W::capacity(&self.sims[ni].w, a));
            if l1 != l2 || (c1 != c2 && into.is_none()) || c2 < l2 {
                return Err(self.fail(&["C13"], "clone-len-capacity", format!("clone of {} has len {} capacity {}, original has len {} capacity {}", self.infos[a].name, l2, c2, l1, c1)));
            }
            if into.is_some() {
                // soundness decision 17: an in-place clone_from may keep the destination's larger
                // allocation; from here on the capacity laws are judged from what it reports now
                self.sims[ni].archs[a].last_cap = c2;
            }
        }
        for a in 0..self.infos.len() {
            let (d1, d2) = (W::dump(&self.sims[si].w, a), W::dump(&self.sims[ni].w, a));
            if d1 != d2 && into.is_none() {
                let f = (self.fail(&["C13"], "clone-bookkeeping", format!("clone of {} does not carry the original's bookkeeping (generations, free list, version): original version {} free_head {:#x} slots {:x?}; clone version {} free_head {:#x} slots {:x?}", self.infos[a].name, d1.version, d1.free_head, &d1.slots[..d1.slots.len().min(16)], d2.version, d2.free_head, &d2.slots[..d2.slots.len().min(16)])));
                if self.deferred.is_empty() {
                    self.deferred.push(f);
                }
            }
        }
        self.extra_tag = Some("C13");
        let saved = self.rot;
        comps::suspend();
        let r = self.probe_sim(ni, Intensity::Full);
        self.rot = saved;
        self.extra_tag = None;
        r?;
        // behavioural twin step (every other clone): two observationally identical worlds must
        // answer the same operation identically; here: a creation in the same archetype returns
        // the same handle in the original and in the clone
        if self.step % 2 == 0 && into.is_none() {
            let a = self.step % self.infos.len();
            let n1 = self.sims[si].handles.len();
            let n2 = self.sims[ni].handles.len();
            self.do_create(si, a, CreatePath::WCreate)?;
            self.do_create(ni, a, CreatePath::ACreate)?;
            if self.sims[si].handles.len() == n1 + 1 && self.sims[ni].handles.len() == n2 + 1 {
                let (h1, h2) = (self.sims[si].handles[n1].raw, self.sims[ni].handles[n2].raw);
                let (c1, c2) = (W::capacity(&self.sims[si].w, a), W::capacity(&self.sims[ni].w, a));
                if h1 != h2 || c1 != c2 {
                    return Err(self.fail(&["C13"], "clone-diverges-on-identical-op", format!("right after cloning, create on {} returns {:?} (capacity {}) in the original and {:?} (capacity {}) in the clone", self.infos[a].name, h1, c1, h2, c2)));
                }
                self.label("clone_twin_create");
            }
        }
        Ok(())
    }

    pub fn do_preset(&mut self, si: usize, a: usize, d: u8, spread: u8) -> R {
        let m = &self.sims[si].archs[a];
        let cap = m.last_cap;
        if !m.live.is_empty() || !m.issued.is_empty() || cap == 0 || m.removals > 0 {
            return Ok(()); // only a pristine archetype with allocated slots can be preset
        }
        let d = d as u32;
        let extra = if cap > 1 { (spread as u32).min(d) } else { 0 };
        let mut gens = vec![1u32; cap];
        gens[0] = u32::MAX - d;
        if cap > 1 {
            gens[1] = 1 + extra;
        }
        let version = (u32::MAX - d) as u64 + extra as u64; // 1 + sum(g_i - 1)
        let version32 = version as u32;
        let r = catch(|| W::preset(&mut self.sims[si].w, a, &gens, version32));
        if let Err(m) = r {
            return Err(self.fail(&["C08"], "harness-preset", format!("harness bug: preset hook panicked: {}", m)));
        }
        self.sims[si].archs[a].version = version;
        // direct handles minted before the preset for this (empty) archetype are all stale anyway,
        // but their recorded counters no longer relate to the version: drop them
        self.sims[si].directs.retain(|r| r.arch != a);
        self.label("preset");
        Ok(())
    }
}
