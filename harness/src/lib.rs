//! vh: model-based history runner for recatek/gecs (engine H and B of /verif/DESIGN.md).

pub mod borrowm;
pub mod boundary;
pub mod c07enum;
pub mod c10;
pub mod comps;
pub mod conv;
pub mod driver;
pub mod forge;
pub mod fuzzdec;
pub mod interp;
pub mod model;
pub mod ops;
pub mod probe;
pub mod types;
pub mod util;
pub mod worlds;
pub mod run;
