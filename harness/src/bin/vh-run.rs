//! vh-run: command line front end of the history runner.
//!
//!   vh-run hist   --prop C01 --world WMix --cases N --len L --seed S [--intensity normal]
//!                 [--out stats.json] [--fail-out case.ops] [--traces]
//!   vh-run replay --prop C01 case.ops
//!
//! Exit status: 0 = held, 1 = a failure tagged with the property (a `FAIL ...` line is
//! printed), 3 = usage / input error.

use std::collections::HashMap;

use vh::driver::WorldDriver;
use vh::interp::*;
use vh::ops::Case;
use vh::run::*;

fn arg_map(args: &[String]) -> (HashMap<String, String>, Vec<String>) {
    let mut m = HashMap::new();
    let mut pos = Vec::new();
    let mut i = 0;
    while i < args.len() {
        if let Some(k) = args[i].strip_prefix("--") {
            if i + 1 < args.len() && !args[i + 1].starts_with("--") {
                m.insert(k.to_string(), args[i + 1].clone());
                i += 2;
            } else {
                m.insert(k.to_string(), "1".to_string());
                i += 1;
            }
        } else {
            pos.push(args[i].clone());
            i += 1;
        }
    }
    (m, pos)
}

fn intensity(s: Option<&String>) -> Intensity {
    match s.map(|s| s.as_str()) {
        Some("light") => Intensity::Light,
        Some("full") => Intensity::Full,
        _ => Intensity::Normal,
    }
}

fn one_line(s: &str) -> String {
    s.replace('\n', " ")
}

fn hist<W: WorldDriver>(m: &HashMap<String, String>) -> i32 {
    let prop = m.get("prop").expect("--prop");
    let spec = match spec(prop) {
        Some(s) => s,
        None => {
            eprintln!("unknown property {}", prop);
            return 3;
        }
    };
    let cases: u32 = m.get("cases").map(|s| s.parse().unwrap()).unwrap_or(100);
    let len: usize = m.get("len").map(|s| s.parse().unwrap()).unwrap_or(120);
    let seed: u64 = m.get("seed").map(|s| s.parse().unwrap()).unwrap_or(1);
    let mut cfg = Cfg::new(intensity(m.get("intensity")));
    cfg.lenient_capacity = !matches!(prop.as_str(), "C12" | "C19" | "C19W");
    if let Some(pf) = m.get("prefill") {
        let mut it = pf.split(',');
        let arch: u8 = it.next().and_then(|t| t.parse().ok()).expect("--prefill arch,k");
        let k: u8 = it.next().and_then(|t| t.parse().ok()).expect("--prefill arch,k");
        vh::run::PREFILL.with(|p| p.set(Some((arch, k))));
    }
    if let (Some(h), Some(f)) = (m.get("dump-hash"), m.get("dump-out")) {
        let h = u64::from_str_radix(h, 16).expect("--dump-hash is hex");
        vh::run::DUMP.with(|d| *d.borrow_mut() = Some((h, f.clone())));
    }
    let res = search::<W>(&spec, &cfg, cases, len, seed, m.contains_key("traces"), m.get("last-case").map(|s| s.as_str()));
    if let Some(out) = m.get("out") {
        std::fs::write(out, res.stats.to_json()).expect("write stats");
    }
    println!("STATS prop={} world={} evaluations={} nontrivial={} ops={}", prop, W::NAME, res.stats.evaluations, res.stats.nontrivial_hashes.len(), res.stats.ops_run);
    if let Some((case, f)) = res.failure {
        let path = m.get("fail-out").cloned().unwrap_or_else(|| format!("fail-{}-{}.ops", prop, seed));
        let (psig, pmsg) = f.for_prop(prop);
        let text = format!("# property {}\n# {}\n# failed at step {} [{}] sig={}\n{}", prop, one_line(&pmsg), f.step, f.tags.join("+"), psig, case.to_text());
        std::fs::write(&path, text).expect("write replay");
        let (sig, msg) = f.for_prop(prop);
        println!("FAIL prop={} sig={} tags={} step={} replay={} msg={}", prop, sig, f.tags.join("+"), f.step, path, one_line(&msg));
        return 1;
    }
    0
}

fn default_pops(n: usize, variant: usize) -> Vec<(u8, Option<u8>)> {
    // a few fixed populations: all populated; some empty; with removals at different positions
    (0..n)
        .map(|a| match variant % 8 {
            0 => (3, None),
            1 => (3, Some(0)),
            2 => (3, Some(2)),
            3 => (if a % 2 == 0 { 0 } else { 2 }, None),
            4 => (if a % 2 == 1 { 0 } else { 2 }, Some(1)),
            5 => (1, None),
            6 => (1, Some(0)),
            _ => (2, Some(a as u8)),
        })
        .collect()
}

fn bmatrix<W: WorldDriver>(m: &HashMap<String, String>) -> i32 {
    let variant: usize = m.get("variant").map(|s| s.parse().unwrap()).unwrap_or(0);
    let max_pairs: usize = m.get("pairs").map(|s| s.parse().unwrap()).unwrap_or(4);
    let n = W::archs().len();
    let pops = default_pops(n, variant);
    let res = vh::borrowm::pair_matrix::<W>(&pops, max_pairs);
    if let Some(out) = m.get("out") {
        let js = format!("{{\"combos\":{},\"conflicts\":{},\"neighbours\":{},\"samples\":[{}]}}", res.combos, res.conflicts, res.neighbours, res.samples.iter().map(|s| json_str(s)).collect::<Vec<_>>().join(","));
        std::fs::write(out, js).expect("write stats");
    }
    println!("STATS prop=C11 world={} variant={} combos={} conflicts={} neighbours={}", W::NAME, variant, res.combos, res.conflicts, res.neighbours);
    if let Some((text, msg)) = res.failure {
        let path = m.get("fail-out").cloned().unwrap_or_else(|| "fail-C11.nest".to_string());
        std::fs::write(&path, format!("# property C11\n# {}\n{}", one_line(&msg), text)).expect("write replay");
        println!("FAIL prop=C11 sig=borrow-matrix tags=C11 step=0 replay={} msg={}", path, one_line(&msg));
        return 1;
    }
    // accesses made from inside a clone (component Clone impls re-entering the world)
    match vh::borrowm::clone_reentrancy::<W>(&pops) {
        Ok((combos, must_panic)) => println!("STATS prop=C11 world={} variant={} reentrancy_combos={} reentrancy_must_panic={}", W::NAME, variant, combos, must_panic),
        Err((text, msg)) => {
            let path = m.get("fail-out").cloned().unwrap_or_else(|| "fail-C11.nest".to_string());
            let nest_text = vh::borrowm::nest_to_text::<W>(&pops, &[]);
            std::fs::write(&path, format!("# property C11\n# {}\n# {}\nreentrancy\n{}", one_line(&msg), text, nest_text)).expect("write replay");
            println!("FAIL prop=C11 sig=borrow-clone-reentrancy tags=C11 step=0 replay={} msg={}", path, one_line(&msg));
            return 1;
        }
    }
    0
}

fn bsearch<W: WorldDriver>(m: &HashMap<String, String>) -> i32 {
    let cases: u32 = m.get("cases").map(|s| s.parse().unwrap()).unwrap_or(300);
    let seed: u64 = m.get("seed").map(|s| s.parse().unwrap()).unwrap_or(1);
    let res = vh::borrowm::search::<W>(cases, seed);
    if let Some(out) = m.get("out") {
        std::fs::write(out, res.stats.to_json()).expect("write stats");
    }
    println!("STATS prop=C11 world={} evaluations={} nontrivial={}", W::NAME, res.stats.evaluations, res.stats.nontrivial_hashes.len());
    if let Some((text, msg)) = res.failure {
        let path = m.get("fail-out").cloned().unwrap_or_else(|| "fail-C11.nest".to_string());
        std::fs::write(&path, format!("# property C11\n# {}\n{}", one_line(&msg), text)).expect("write replay");
        println!("FAIL prop=C11 sig=borrow-nesting tags=C11 step=0 replay={} msg={}", path, one_line(&msg));
        return 1;
    }
    0
}

fn breplay<W: WorldDriver>(pops: &[(u8, Option<u8>)], nests: &[Vec<vh::types::BAccess>], path: &str) -> i32 {
    if std::fs::read_to_string(path).map_or(false, |t| t.lines().any(|l| l.trim() == "reentrancy")) {
        return match vh::borrowm::clone_reentrancy::<W>(pops) {
            Ok(_) => {
                println!("PASS prop=C11 replay={}", path);
                0
            }
            Err((_, msg)) => {
                println!("FAIL prop=C11 sig=borrow-clone-reentrancy tags=C11 step=0 replay={} msg={}", path, one_line(&msg));
                1
            }
        };
    }
    match vh::borrowm::check_sequence::<W>(pops, nests) {
        Ok(_) => {
            println!("PASS prop=C11 replay={}", path);
            0
        }
        Err(msg) => {
            println!("FAIL prop=C11 sig=borrow-nesting tags=C11 step=0 replay={} msg={}", path, one_line(&msg));
            1
        }
    }
}

fn c07enum<W: WorldDriver>(m: &HashMap<String, String>) -> i32 {
    let max_n: usize = m.get("max-n").map(|s| s.parse().unwrap()).unwrap_or(5);
    let res = vh::c07enum::run::<W>(max_n);
    if let Some(out) = m.get("out") {
        std::fs::write(out, format!("{{\"cases\":{},\"nontrivial\":{},\"max_n\":{},\"samples\":[{}]}}", res.cases, res.nontrivial, max_n, res.samples.iter().map(|s| json_str(s)).collect::<Vec<_>>().join(","))).expect("write stats");
    }
    println!("STATS prop=C07 world={} max_n={} cases={} nontrivial={}", W::NAME, max_n, res.cases, res.nontrivial);
    if let Some((case, f)) = res.failure {
        let path = m.get("fail-out").cloned().unwrap_or_else(|| "fail-C07-enum.ops".to_string());
        let (sig, msg) = f.for_prop("C07");
        std::fs::write(&path, format!("# property C07\n# {}\n# failed at step {} [{}] sig={}\n{}", one_line(&msg), f.step, f.tags.join("+"), sig, case.to_text())).expect("write replay");
        println!("FAIL prop=C07 sig={} tags={} step={} replay={} msg={}", sig, f.tags.join("+"), f.step, path, one_line(&msg));
        return 1;
    }
    0
}

fn boundary<W: WorldDriver>(m: &HashMap<String, String>) -> i32 {
    let start: usize = m.get("start").map(|s| s.parse().unwrap()).unwrap_or((1 << 24) - 3);
    // the archetype with the smallest footprint: prefer one whose columns are all zero-sized
    let infos = W::archs();
    let a = infos.iter().position(|i| i.masks.iter().all(|m| *m == 0) && i.zst_tracked == 0).unwrap_or(0);
    let r = vh::boundary::with_capacity_limit::<W>(a).and_then(|_| vh::boundary::run::<W>(a, start));
    match r {
        Ok(st) => {
            println!("STATS prop=C12 world={} archetype={} start={} creates={} growth_events={} checks={}", W::NAME, infos[a].name, start, st.creates, st.growth_events, st.checks);
            0
        }
        Err(msg) => {
            let path = m.get("fail-out").cloned().unwrap_or_else(|| "fail-C12.boundary".to_string());
            std::fs::write(&path, format!("# property C12\n# {}\nworld {}\nboundary {}\n", one_line(&msg), W::NAME, start)).expect("write replay");
            println!("FAIL prop=C12 sig=capacity-limit tags=C12+C10 step=0 replay={} msg={}", path, one_line(&msg));
            1
        }
    }
}

fn c10<W: WorldDriver>(m: &HashMap<String, String>) -> i32 {
    let cases: u32 = m.get("cases").map(|s| s.parse().unwrap()).unwrap_or(20);
    let len: usize = m.get("len").map(|s| s.parse().unwrap()).unwrap_or(60);
    let seed: u64 = m.get("seed").map(|s| s.parse().unwrap()).unwrap_or(1);
    let max_k: u64 = m.get("max-k").map(|s| s.parse().unwrap()).unwrap_or(1000);
    let mut cfg = Cfg::new(intensity(m.get("intensity")));
    cfg.lenient_capacity = true;
    match vh::c10::fixed_scenarios::<W>() {
        Ok(_) => {}
        Err(msg) => {
            let path = m.get("fail-out").cloned().unwrap_or_else(|| format!("fail-C10-{}.ops", seed));
            std::fs::write(&path, format!("# property C10\n# fixed scenario (leaked guard / constructor capacity): {}\nworld {}\nctor 0\ncaps\n", one_line(&msg), W::NAME)).expect("write replay");
            println!("FAIL prop=C10 sig=fixed-scenario tags=C10 step=0 replay={} msg={}", path, one_line(&msg));
            return 1;
        }
    }
    let res = vh::c10::search::<W>(&cfg, cases, len, seed, max_k, m.get("last-case").map(|s| s.as_str()));
    if let Some(out) = m.get("out") {
        let mut js = res.stats.to_json();
        js.pop();
        js.push_str(&format!(",\"runs\":{},\"points\":{},\"fired\":{},\"by_site\":[{},{},{}],\"nontrivial_points\":[{}]}}", res.runs, res.points, res.fired, res.by_site[0], res.by_site[1], res.by_site[2], res.nontrivial.iter().map(|h| format!("\"{:016x}\"", h)).collect::<Vec<_>>().join(",")));
        std::fs::write(out, js).expect("write stats");
    }
    println!("STATS prop=C10 world={} cases={} runs={} points={} fired={} nontrivial={}", W::NAME, res.stats.evaluations, res.runs, res.points, res.fired, res.nontrivial.len());
    if let Some((case, inj, f)) = res.failure {
        let path = m.get("fail-out").cloned().unwrap_or_else(|| format!("fail-C10-{}.ops", seed));
        let inj_line = inj.map(|i| vh::c10::inject_line(&i)).unwrap_or_default();
        let text = format!("# property C10\n# {}\n# failed at step {} [{}] sig={}\n{}{}\n", one_line(&f.msg), f.step, f.tags.join("+"), f.sig, case.to_text(), inj_line);
        std::fs::write(&path, text).expect("write replay");
        println!("FAIL prop=C10 sig={} tags={} step={} replay={} msg={}", f.sig, f.tags.join("+"), f.step, path, one_line(&f.msg));
        return 1;
    }
    0
}

fn conv<W: WorldDriver>(m: &HashMap<String, String>) -> i32 {
    let cases: u32 = m.get("cases").map(|s| s.parse().unwrap()).unwrap_or(1000);
    let seed: u64 = m.get("seed").map(|s| s.parse().unwrap()).unwrap_or(1);
    let res = vh::conv::search::<W>(cases, seed);
    if let Some(out) = m.get("out") {
        std::fs::write(out, res.stats.to_json()).expect("write stats");
    }
    println!("STATS prop=C14 world={} evaluations={} nontrivial={}", W::NAME, res.stats.evaluations, res.stats.nontrivial_hashes.len());
    if let Some((case, msg)) = res.failure {
        let path = m.get("fail-out").cloned().unwrap_or_else(|| format!("fail-C14-{}.conv", seed));
        std::fs::write(&path, format!("# property C14\n# {}\nworld {}\n{}\n", one_line(&msg), W::NAME, case.to_line())).expect("write replay");
        println!("FAIL prop=C14 sig=conversion-law tags=C14 step=0 replay={} msg={}", path, one_line(&msg));
        return 1;
    }
    0
}

fn conv_replay<W: WorldDriver>(lines: &[String], path: &str) -> i32 {
    for l in lines {
        match vh::conv::ConvCase::from_line(l) {
            Ok(c) => {
                if let Err(msg) = vh::conv::check_case::<W>(&c) {
                    println!("FAIL prop=C14 sig=conversion-law tags=C14 step=0 replay={} msg={}", path, one_line(&msg));
                    return 1;
                }
            }
            Err(e) => {
                eprintln!("{}", e);
                return 3;
            }
        }
    }
    println!("PASS prop=C14 replay={} cases={}", path, lines.len());
    0
}

fn replay<W: WorldDriver>(prop: &str, case: &Case, path: &str, m: &HashMap<String, String>) -> i32 {
    let mut cfg = Cfg::new(intensity(m.get("intensity").or(Some(&"full".to_string()))));
    cfg.max_sims = 3;
    cfg.lenient_capacity = !matches!(prop, "C12" | "C19" | "C19W");
    if let Ok(text) = std::fs::read_to_string(path) {
        cfg.inject = vh::c10::parse_inject(&text);
        if cfg.inject.is_some() {
            // injected runs are enumerated at normal intensity: replay them the same way
            cfg.intensity = intensity(m.get("intensity"));
        }
    }
    let out = Session::<W>::run(case, &cfg);
    match out.fail {
        Some(f) if f.tags.iter().any(|t| *t == prop) => {
            let (sig, msg) = f.for_prop(prop);
            println!("FAIL prop={} sig={} tags={} step={} replay={} msg={}", prop, sig, f.tags.join("+"), f.step, path, one_line(&msg));
            1
        }
        Some(f) => {
            println!("COLLATERAL prop={} sig={} tags={} step={} msg={}", prop, f.sig, f.tags.join("+"), f.step, one_line(&f.msg));
            0
        }
        None => {
            println!("PASS prop={} replay={} ops={} trace={:016x} labels={}", prop, path, out.ops_run, out.trace, out.labels.iter().cloned().collect::<Vec<_>>().join(","));
            0
        }
    }
}

fn dispatch_world<T>(world: &str, f_mix: impl FnOnce() -> T, f_one: impl FnOnce() -> T, f_wide: impl FnOnce() -> T) -> Option<T> {
    match world {
        "WMix" => Some(f_mix()),
        "WOne" => Some(f_one()),
        "WWide" => Some(f_wide()),
        _ => None,
    }
}

/// Worlds handled outside `dispatch_world` (added later): evaluates `$e` with `$W` bound.
macro_rules! solo_or {
    ($world:expr, $W:ident => $e:expr, $else:expr) => {
        if $world == "WSolo" {
            type $W = vh::worlds::wsolo::WSolo;
            $e
        } else {
            $else
        }
    };
}

#[cfg(feature = "wide")]
type Wide = vh::worlds::wwide::WWide;
#[cfg(not(feature = "wide"))]
type Wide = vh::worlds::wone::WOne;

fn main() {
    vh::util::quiet_panics();
    let args: Vec<String> = std::env::args().skip(1).collect();
    if args.is_empty() {
        eprintln!("usage: vh-run hist|replay ...");
        std::process::exit(3);
    }
    let (m, pos) = arg_map(&args[1..]);
    let code = match args[0].as_str() {
        "hist" => {
            let world = m.get("world").cloned().unwrap_or_else(|| "WMix".to_string());
            solo_or!(world, W => hist::<W>(&m), dispatch_world(&world, || hist::<vh::worlds::wmix::WMix>(&m), || hist::<vh::worlds::wone::WOne>(&m), || hist::<Wide>(&m)).unwrap_or(3))
        }
        "bmatrix" => {
            let world = m.get("world").cloned().unwrap_or_else(|| "WMix".to_string());
            dispatch_world(&world, || bmatrix::<vh::worlds::wmix::WMix>(&m), || bmatrix::<vh::worlds::wone::WOne>(&m), || bmatrix::<Wide>(&m)).unwrap_or(3)
        }
        "bsearch" => {
            let world = m.get("world").cloned().unwrap_or_else(|| "WMix".to_string());
            dispatch_world(&world, || bsearch::<vh::worlds::wmix::WMix>(&m), || bsearch::<vh::worlds::wone::WOne>(&m), || bsearch::<Wide>(&m)).unwrap_or(3)
        }
        "b-replay" => {
            let path = pos.first().expect("replay file");
            let text = std::fs::read_to_string(path).expect("read replay");
            match vh::borrowm::text_to_nests(&text) {
                Ok((world, pops, nests)) => dispatch_world(&world, || breplay::<vh::worlds::wmix::WMix>(&pops, &nests, path), || breplay::<vh::worlds::wone::WOne>(&pops, &nests, path), || breplay::<Wide>(&pops, &nests, path)).unwrap_or(3),
                Err(e) => {
                    eprintln!("cannot parse {}: {}", path, e);
                    3
                }
            }
        }
        "c07enum" => {
            let world = m.get("world").cloned().unwrap_or_else(|| "WMix".to_string());
            dispatch_world(&world, || c07enum::<vh::worlds::wmix::WMix>(&m), || c07enum::<vh::worlds::wone::WOne>(&m), || c07enum::<Wide>(&m)).unwrap_or(3)
        }
        "decode" => {
            // decode a libFuzzer input into a replayable .ops file and run it
            let path = pos.first().expect("input file");
            let data = std::fs::read(path).expect("read input");
            match vh::fuzzdec::decode(&data) {
                None => {
                    println!("UNDECODABLE {}", path);
                    0
                }
                Some((case, profile)) => {
                    let out_path = m.get("out").cloned().unwrap_or_else(|| format!("{}.ops", path));
                    let fail = vh::fuzzdec::run(&case);
                    let head = match &fail {
                        Some(f) => format!("# libFuzzer input decoded with profile {}\n# {}\n# failed at step {} [{}] sig={}\n", profile, one_line(&f.msg), f.step, f.tags.join("+"), f.sig),
                        None => format!("# libFuzzer input decoded with profile {}\n", profile),
                    };
                    std::fs::write(&out_path, format!("{}{}", head, case.to_text())).expect("write ops");
                    match fail {
                        Some(f) => {
                            println!("FAIL prop=any sig={} tags={} step={} replay={} msg={}", f.sig, f.tags.join("+"), f.step, out_path, one_line(&f.msg));
                            1
                        }
                        None => {
                            println!("PASS decoded {} -> {} ({} ops)", path, out_path, case.ops.len());
                            0
                        }
                    }
                }
            }
        }
        "seed-corpus" => {
            let dir = m.get("out").expect("--out DIR");
            std::fs::create_dir_all(dir).expect("mkdir");
            let seed: u64 = m.get("seed").map(|s| s.parse().unwrap()).unwrap_or(1);
            let mut k = 0;
            for p in 0..vh::fuzzdec::PROFILES.len() as u8 {
                for w in [0u8, 3u8] {
                    for n in [8usize, 40, 120] {
                        let bytes = vh::fuzzdec::seed_input(p, w, n, seed.wrapping_mul(1000).wrapping_add(k));
                        std::fs::write(format!("{}/seed-{:03}", dir, k), bytes).expect("write");
                        k += 1;
                    }
                }
            }
            println!("wrote {} corpus files", k);
            0
        }
        "cycles" => {
            let limit: u64 = m.get("limit").map(|s| s.parse().unwrap()).unwrap_or(u64::MAX);
            match vh::worlds::wone::cycles(limit) {
                Ok(r) => {
                    println!("STATS prop=C08 cycles ok: {}", r);
                    0
                }
                Err(msg) => {
                    let path = m.get("fail-out").cloned().unwrap_or_else(|| "fail-C08.cycles".to_string());
                    std::fs::write(&path, format!("# property C08\n# {}\ncycles\n", one_line(&msg))).expect("write replay");
                    println!("FAIL prop=C08 sig=real-cycles tags=C08+C10 step=0 replay={} msg={}", path, one_line(&msg));
                    1
                }
            }
        }
        "boundary" => {
            let world = m.get("world").cloned().unwrap_or_else(|| "WOne".to_string());
            dispatch_world(&world, || boundary::<vh::worlds::wmix::WMix>(&m), || boundary::<vh::worlds::wone::WOne>(&m), || boundary::<Wide>(&m)).unwrap_or(3)
        }
        "c10" => {
            let world = m.get("world").cloned().unwrap_or_else(|| "WMix".to_string());
            solo_or!(world, W => c10::<W>(&m), dispatch_world(&world, || c10::<vh::worlds::wmix::WMix>(&m), || c10::<vh::worlds::wone::WOne>(&m), || c10::<Wide>(&m)).unwrap_or(3))
        }
        "conv" => {
            let world = m.get("world").cloned().unwrap_or_else(|| "WMix".to_string());
            solo_or!(world, W => conv::<W>(&m), dispatch_world(&world, || conv::<vh::worlds::wmix::WMix>(&m), || conv::<vh::worlds::wone::WOne>(&m), || conv::<Wide>(&m)).unwrap_or(3))
        }
        "conv-replay" => {
            let path = pos.first().expect("replay file");
            let text = std::fs::read_to_string(path).expect("read replay");
            let mut world = "WMix".to_string();
            let mut lines = Vec::new();
            for l in text.lines() {
                let l = l.split('#').next().unwrap().trim();
                if l.is_empty() {
                    continue;
                }
                if let Some(w) = l.strip_prefix("world ") {
                    world = w.trim().to_string();
                } else {
                    lines.push(l.to_string());
                }
            }
            solo_or!(world, W => conv_replay::<W>(&lines, path), dispatch_world(&world, || conv_replay::<vh::worlds::wmix::WMix>(&lines, path), || conv_replay::<vh::worlds::wone::WOne>(&lines, path), || conv_replay::<Wide>(&lines, path)).unwrap_or(3))
        }
        "replay" => {
            let prop = m.get("prop").expect("--prop").clone();
            let path = pos.first().expect("replay file");
            let text = std::fs::read_to_string(path).expect("read replay");
            match Case::from_text(&text) {
                Ok(case) => {
                    let world = case.world.clone();
                    solo_or!(world, W => replay::<W>(&prop, &case, path, &m), dispatch_world(&world, || replay::<vh::worlds::wmix::WMix>(&prop, &case, path, &m), || replay::<vh::worlds::wone::WOne>(&prop, &case, path, &m), || replay::<Wide>(&prop, &case, path, &m)).unwrap_or(3))
                }
                Err(e) => {
                    eprintln!("cannot parse {}: {}", path, e);
                    3
                }
            }
        }
        _ => 3,
    };
    std::process::exit(code);
}
