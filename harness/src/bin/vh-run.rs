//! vh-run: command line front end of the history runner.
//!
//!   vh-run hist   --prop C01 --world WMix --cases N --len L --seed S [--intensity normal]
//!                 [--out stats.json] [--fail-out case.ops] [--traces]
//!   vh-run replay --prop C01 case.ops
//!
//! Exit status: 0 = held, 1 = a failure tagged with the property (a `FAIL ...` line is
//! printed), 3 = usage / input error.

use std::collections::HashMap;

use vh::driver::WorldDriver;
use vh::interp::*;
use vh::ops::Case;
use vh::run::*;

fn arg_map(args: &[String]) -> (HashMap<String, String>, Vec<String>) {
    let mut m = HashMap::new();
    let mut pos = Vec::new();
    let mut i = 0;
    while i < args.len() {
        if let Some(k) = args[i].strip_prefix("--") {
            if i + 1 < args.len() && !args[i + 1].starts_with("--") {
                m.insert(k.to_string(), args[i + 1].clone());
                i += 2;
            } else {
                m.insert(k.to_string(), "1".to_string());
                i += 1;
            }
        } else {
            pos.push(args[i].clone());
            i += 1;
        }
    }
    (m, pos)
}

fn intensity(s: Option<&String>) -> Intensity {
    match s.map(|s| s.as_str()) {
        Some("light") => Intensity::Light,
        Some("full") => Intensity::Full,
        _ => Intensity::Normal,
    }
}

fn one_line(s: &str) -> String {
    s.replace('\n', " ")
}

fn hist<W: WorldDriver>(m: &HashMap<String, String>) -> i32 {
    let prop = m.get("prop").expect("--prop");
    let spec = match spec(prop) {
        Some(s) => s,
        None => {
            eprintln!("unknown property {}", prop);
            return 3;
        }
    };
    let cases: u32 = m.get("cases").map(|s| s.parse().unwrap()).unwrap_or(100);
    let len: usize = m.get("len").map(|s| s.parse().unwrap()).unwrap_or(120);
    let seed: u64 = m.get("seed").map(|s| s.parse().unwrap()).unwrap_or(1);
    let cfg = Cfg::new(intensity(m.get("intensity")));
    let res = search::<W>(&spec, &cfg, cases, len, seed, m.contains_key("traces"), m.get("last-case").map(|s| s.as_str()));
    if let Some(out) = m.get("out") {
        std::fs::write(out, res.stats.to_json()).expect("write stats");
    }
    println!("STATS prop={} world={} evaluations={} nontrivial={} ops={}", prop, W::NAME, res.stats.evaluations, res.stats.nontrivial_hashes.len(), res.stats.ops_run);
    if let Some((case, f)) = res.failure {
        let path = m.get("fail-out").cloned().unwrap_or_else(|| format!("fail-{}-{}.ops", prop, seed));
        let text = format!("# property {}\n# {}\n# failed at step {} [{}] sig={}\n{}", prop, one_line(&f.msg), f.step, f.tags.join("+"), f.sig, case.to_text());
        std::fs::write(&path, text).expect("write replay");
        println!("FAIL prop={} sig={} tags={} step={} replay={} msg={}", prop, f.sig, f.tags.join("+"), f.step, path, one_line(&f.msg));
        return 1;
    }
    0
}

fn conv<W: WorldDriver>(m: &HashMap<String, String>) -> i32 {
    let cases: u32 = m.get("cases").map(|s| s.parse().unwrap()).unwrap_or(1000);
    let seed: u64 = m.get("seed").map(|s| s.parse().unwrap()).unwrap_or(1);
    let res = vh::conv::search::<W>(cases, seed);
    if let Some(out) = m.get("out") {
        std::fs::write(out, res.stats.to_json()).expect("write stats");
    }
    println!("STATS prop=C14 world={} evaluations={} nontrivial={}", W::NAME, res.stats.evaluations, res.stats.nontrivial_hashes.len());
    if let Some((case, msg)) = res.failure {
        let path = m.get("fail-out").cloned().unwrap_or_else(|| format!("fail-C14-{}.conv", seed));
        std::fs::write(&path, format!("# property C14\n# {}\nworld {}\n{}\n", one_line(&msg), W::NAME, case.to_line())).expect("write replay");
        println!("FAIL prop=C14 sig=conversion-law tags=C14 step=0 replay={} msg={}", path, one_line(&msg));
        return 1;
    }
    0
}

fn conv_replay<W: WorldDriver>(lines: &[String], path: &str) -> i32 {
    for l in lines {
        match vh::conv::ConvCase::from_line(l) {
            Ok(c) => {
                if let Err(msg) = vh::conv::check_case::<W>(&c) {
                    println!("FAIL prop=C14 sig=conversion-law tags=C14 step=0 replay={} msg={}", path, one_line(&msg));
                    return 1;
                }
            }
            Err(e) => {
                eprintln!("{}", e);
                return 3;
            }
        }
    }
    println!("PASS prop=C14 replay={} cases={}", path, lines.len());
    0
}

fn replay<W: WorldDriver>(prop: &str, case: &Case, path: &str, m: &HashMap<String, String>) -> i32 {
    let mut cfg = Cfg::new(intensity(m.get("intensity").or(Some(&"full".to_string()))));
    cfg.max_sims = 3;
    let out = Session::<W>::run(case, &cfg);
    match out.fail {
        Some(f) if f.tags.iter().any(|t| *t == prop) => {
            println!("FAIL prop={} sig={} tags={} step={} replay={} msg={}", prop, f.sig, f.tags.join("+"), f.step, path, one_line(&f.msg));
            1
        }
        Some(f) => {
            println!("COLLATERAL prop={} sig={} tags={} step={} msg={}", prop, f.sig, f.tags.join("+"), f.step, one_line(&f.msg));
            0
        }
        None => {
            println!("PASS prop={} replay={} ops={} labels={}", prop, path, out.ops_run, out.labels.iter().cloned().collect::<Vec<_>>().join(","));
            0
        }
    }
}

fn dispatch_world<T>(world: &str, f_mix: impl FnOnce() -> T, f_one: impl FnOnce() -> T, f_wide: impl FnOnce() -> T) -> Option<T> {
    match world {
        "WMix" => Some(f_mix()),
        "WOne" => Some(f_one()),
        "WWide" => Some(f_wide()),
        _ => None,
    }
}

#[cfg(feature = "wide")]
type Wide = vh::worlds::wwide::WWide;
#[cfg(not(feature = "wide"))]
type Wide = vh::worlds::wone::WOne;

fn main() {
    vh::util::quiet_panics();
    let args: Vec<String> = std::env::args().skip(1).collect();
    if args.is_empty() {
        eprintln!("usage: vh-run hist|replay ...");
        std::process::exit(3);
    }
    let (m, pos) = arg_map(&args[1..]);
    let code = match args[0].as_str() {
        "hist" => {
            let world = m.get("world").cloned().unwrap_or_else(|| "WMix".to_string());
            dispatch_world(&world, || hist::<vh::worlds::wmix::WMix>(&m), || hist::<vh::worlds::wone::WOne>(&m), || hist::<Wide>(&m)).unwrap_or(3)
        }
        "conv" => {
            let world = m.get("world").cloned().unwrap_or_else(|| "WMix".to_string());
            dispatch_world(&world, || conv::<vh::worlds::wmix::WMix>(&m), || conv::<vh::worlds::wone::WOne>(&m), || conv::<Wide>(&m)).unwrap_or(3)
        }
        "conv-replay" => {
            let path = pos.first().expect("replay file");
            let text = std::fs::read_to_string(path).expect("read replay");
            let mut world = "WMix".to_string();
            let mut lines = Vec::new();
            for l in text.lines() {
                let l = l.split('#').next().unwrap().trim();
                if l.is_empty() {
                    continue;
                }
                if let Some(w) = l.strip_prefix("world ") {
                    world = w.trim().to_string();
                } else {
                    lines.push(l.to_string());
                }
            }
            dispatch_world(&world, || conv_replay::<vh::worlds::wmix::WMix>(&lines, path), || conv_replay::<vh::worlds::wone::WOne>(&lines, path), || conv_replay::<Wide>(&lines, path)).unwrap_or(3)
        }
        "replay" => {
            let prop = m.get("prop").expect("--prop").clone();
            let path = pos.first().expect("replay file");
            let text = std::fs::read_to_string(path).expect("read replay");
            match Case::from_text(&text) {
                Ok(case) => {
                    let world = case.world.clone();
                    dispatch_world(&world, || replay::<vh::worlds::wmix::WMix>(&prop, &case, path, &m), || replay::<vh::worlds::wone::WOne>(&prop, &case, path, &m), || replay::<Wide>(&prop, &case, path, &m)).unwrap_or(3)
                }
                Err(e) => {
                    eprintln!("cannot parse {}: {}", path, e);
                    3
                }
            }
        }
        _ => 3,
    };
    std::process::exit(code);
}
