//! The probe suite: oracles run after every step.

use std::collections::BTreeSet;

use crate::comps::reg;
use crate::driver::WorldDriver;
use crate::interp::*;
use crate::model::*;
use crate::types::*;
use crate::util::catch;

const FREE_BIT: u32 = 1 << 31;
const FREE_END: u32 = u32::MAX;

/// Lookup paths that read the handle and all components back.
pub const VALUE_PATHS: [LookupPath; 14] = [
    LookupPath::AResolveSlices,
    LookupPath::AResolveBorrowSlices,
    LookupPath::AResolveAllSlices,
    LookupPath::AView,
    LookupPath::AViewComp,
    LookupPath::WView,
    LookupPath::ABorrow,
    LookupPath::WBorrow,
    LookupPath::Find,
    LookupPath::FindAny,
    LookupPath::FindWild,
    LookupPath::FindBorrow,
    LookupPath::FindBorrowAny,
    LookupPath::FindBorrowWild,
];

/// Archetype-level accessors that take a dynamically typed key: handed a key of ANOTHER archetype
/// they must reject it (C01 / C09: an accepted handle designates the entity it was issued for).
pub const ARCH_LEVEL_DYN_PATHS: [LookupPath; 9] = [
    LookupPath::AContains,
    LookupPath::AToDirect,
    LookupPath::AResolve,
    LookupPath::AResolveSlices,
    LookupPath::AResolveBorrowSlices,
    LookupPath::AResolveAllSlices,
    LookupPath::AView,
    LookupPath::AViewComp,
    LookupPath::ABorrow,
];

pub const BOOL_PATHS: [LookupPath; 5] = [
    LookupPath::WContains,
    LookupPath::AContains,
    LookupPath::WToDirect,
    LookupPath::AToDirect,
    LookupPath::AResolve,
];

impl<'c, W: WorldDriver> Session<'c, W> {
    /// Everything that is checked after every step.
    pub fn post_step(&mut self) -> R {
        // All oracle groups look at one and the same post-step state while the model is still
        // trusted, so their failures are merged: each property gets to see "its" violation even
        // when another group notices the same corruption too.
        let mut fails: Vec<Fail> = Vec::new();
        if let Err(f) = self.check_shape() {
            fails.push(f);
        }
        if self.cfg.events {
            if let Err(f) = self.check_events() {
                fails.push(f);
            }
        }
        let intensity = self.cfg.intensity;
        if let Err(f) = self.probe_all(intensity) {
            fails.push(f);
        }
        if let Err(f) = self.check_iteration() {
            fails.push(f);
        }
        if let Err(f) = self.check_registry() {
            fails.push(f);
        }
        if let Err(f) = self.check_rep_invariant() {
            // latent corruption: give the behavioural oracles a full look at it
            if fails.is_empty() {
                let saved = self.rot;
                if let Err(g) = self.probe_all(Intensity::Full) {
                    fails.push(g);
                }
                self.rot = saved;
            }
            fails.push(f);
        }
        if !fails.is_empty() {
            return Err(Fail::merge(fails));
        }
        if self.sims.len() >= 2 && self.sims.iter().filter(|s| s.ops_since_split >= 3).count() >= 2 {
            self.label("diverged3");
        }
        Ok(())
    }

    /// Iteration oracle after every step (C06): one rotating iteration path per archetype.
    pub fn check_iteration(&mut self) -> R {
        for si in 0..self.sims.len() {
            for a in 0..self.infos.len() {
                let n = self.sims[si].archs[a].live.len();
                if n > 48 {
                    continue;
                }
                let path = IterPath::pick(self.rot.wrapping_add(a * 3).wrapping_add(si));
                if path.adaptor() {
                    let k = self.rot % 3 + 1;
                    self.iterate_adaptor(si, a, path, k)?;
                    continue;
                }
                let obs = match catch(|| W::iterate(&mut self.sims[si].w, a, path, None)) {
                    Ok(o) => o,
                    Err(m) => return Err(self.fail(&["C06"], "iterate-panic", format!("{:?} over {} panicked: {}", path, self.infos[a].name, m))),
                };
                let cols: Vec<usize> = (0..self.infos[a].ncols()).collect();
                let what = format!("{:?} over {}", path, self.infos[a].name);
                self.judge_iteration_pub(si, &what, &[(a, cols)], &obs, None, path.reads_values())?;
            }
        }
        Ok(())
    }

    /// len / is_empty / capacity laws (C12).
    pub fn check_shape(&mut self) -> R {
        for si in 0..self.sims.len() {
            for a in 0..self.infos.len() {
                let (len, cap, empty) = match catch(|| (W::len(&self.sims[si].w, a), W::capacity(&self.sims[si].w, a), W::is_empty(&self.sims[si].w, a))) {
                    Ok(t) => t,
                    Err(m) => return Err(self.fail(&["C12"], "len-panic", format!("len()/capacity() panicked: {}", m))),
                };
                let want = self.sims[si].archs[a].live.len();
                let name = self.infos[a].name;
                if len != want {
                    return Err(self.fail(&["C12"], "len", format!("{}.len() is {} but {} entities are alive", name, len, want)));
                }
                if empty != (want == 0) {
                    return Err(self.fail(&["C12"], "is-empty", format!("{}.is_empty() is {} with {} live entities", name, empty, want)));
                }
                if cap < len {
                    return Err(self.fail(&["C12"], "capacity-below-len", format!("{}.capacity() {} < len() {}", name, cap, len)));
                }
                let last = self.sims[si].archs[a].last_cap;
                if self.cfg.lenient_capacity && cap >= len && (cap < last || (cap != last && !self.growth_ok.contains(&(si, a)))) {
                    self.count("collateral_capacity_law", 1);
                    self.sims[si].archs[a].last_cap = cap;
                    continue;
                }
                if cap < last {
                    return Err(self.fail(&["C12"], "capacity-decreased", format!("{}.capacity() decreased from {} to {}", name, last, cap)));
                }
                if cap != last && !self.growth_ok.contains(&(si, a)) {
                    return Err(self.fail(&["C12"], "capacity-changed", format!("{}.capacity() changed from {} to {} in a step that is not a create on a full archetype", name, last, cap)));
                }
                if self.growth_ok.contains(&(si, a)) && cap < len {
                    return Err(self.fail(&["C12"], "capacity-below-len", format!("{} did not grow: capacity {} len {}", name, cap, len)));
                }
                self.sims[si].archs[a].last_cap = cap;
                // the growth law itself is not asserted (soundness decision 5): trace only
                self.mix_trace(cap as u64 ^ 0xCA9);
            }
        }
        Ok(())
    }

    /// Representation invariant over the hook's dump (additional oracle for C01 / C12).
    pub fn check_rep_invariant(&mut self) -> R {
        for si in 0..self.sims.len() {
            for a in 0..self.infos.len() {
                let d = W::dump(&self.sims[si].w, a);
                if let Err(msg) = rep_invariant(&d, self.infos[a].id) {
                    let name = self.infos[a].name;
                    // after a documented overflow panic a slot may legitimately be orphaned
                    return Err(self.fail(&["C01", "C12"], "rep-invariant", format!("representation invariant of {} broken: {} (dump: version {} len {} capacity {} free_head {:#x} slots {:x?} entities {:x?})", name, msg, d.version, d.len, d.capacity, d.free_head, &d.slots[..d.slots.len().min(24)], &d.entities[..d.entities.len().min(24)])));
                }
                // cross-check the model's idea of the archetype version (makes the preset hook honest)
                let mv = self.sims[si].archs[a].version;
                if !self.post_panic && mv <= u32::MAX as u64 && d.version as u64 != mv {
                    let name = self.infos[a].name;
                    return Err(self.fail(&["C09"], "arch-version", format!("{}: archetype version is {} but the model expects {} (1 + removals)", name, d.version, mv)));
                }
            }
        }
        Ok(())
    }

    /// Event logs (C17).
    pub fn check_events(&mut self) -> R {
        for si in 0..self.sims.len() {
            let mut all_c: Vec<Raw> = Vec::new();
            let mut all_d: Vec<Raw> = Vec::new();
            let mut nonempty = 0;
            let mut empty = 0;
            for a in 0..self.infos.len() {
                let (c, d) = match catch(|| W::events(&self.sims[si].w, a)) {
                    Ok(t) => t,
                    Err(m) => return Err(self.fail(&["C17"], "events-panic", format!("iter_created/iter_destroyed panicked: {}", m))),
                };
                let m = &self.sims[si].archs[a];
                if m.created_log.is_empty() && m.destroyed_log.is_empty() {
                    empty += 1;
                } else {
                    nonempty += 1;
                }
                let (mut c1, mut c2) = (c.clone(), m.created_log.clone());
                c1.sort();
                c2.sort();
                if c1 != c2 {
                    let name = self.infos[a].name;
                    return Err(self.fail(&["C17"], "events-created", format!("{}.iter_created() yields {:?}, expected (as a multiset) {:?}", name, c, self.sims[si].archs[a].created_log)));
                }
                let (mut d1, mut d2) = (d.clone(), m.destroyed_log.clone());
                d1.sort();
                d2.sort();
                if d1 != d2 {
                    let name = self.infos[a].name;
                    return Err(self.fail(&["C17"], "events-destroyed", format!("{}.iter_destroyed() yields {:?}, expected (as a multiset) {:?}", name, d, self.sims[si].archs[a].destroyed_log)));
                }
                all_c.extend(c2);
                all_d.extend(d2);
            }
            let (wc, wd, hint_err) = match catch(|| W::world_events(&self.sims[si].w)) {
                Ok(t) => t,
                Err(m) => return Err(self.fail(&["C17"], "events-panic", format!("World::iter_created/iter_destroyed panicked: {}", m))),
            };
            let (mut wc1, mut wd1) = (wc.clone(), wd.clone());
            wc1.sort();
            wd1.sort();
            all_c.sort();
            all_d.sort();
            if wc1 != all_c {
                return Err(self.fail(&["C17"], "events-world-created", format!("World::iter_created() yields {} handles {:?}, expected the union over archetypes: {} handles {:?}", wc.len(), wc, all_c.len(), all_c)));
            }
            if wd1 != all_d {
                return Err(self.fail(&["C17"], "events-world-destroyed", format!("World::iter_destroyed() yields {} handles {:?}, expected the union over archetypes: {} handles {:?}", wd.len(), wd, all_d.len(), all_d)));
            }
            if let Some(e) = hint_err {
                return Err(self.fail(&["C17"], "events-iterator-contract", format!("world-level event iterator: {}", e)));
            }
            if nonempty >= 2 && empty >= 1 {
                self.label("events_mixed_empty_nonempty");
            }
        }
        Ok(())
    }

    /// Drop registry against the model (C04).
    pub fn check_registry(&mut self) -> R {
        let (dd, zu) = reg(|r| (r.double_drops.clone(), r.zst_underflow));
        if !dd.is_empty() {
            let tags: &[&'static str] = &["C04"];
            return Err(self.fail(tags, "double-drop", format!("tracked component instance(s) {:?} dropped although not alive (double drop)", dd)));
        }
        if zu > 0 {
            return Err(self.fail(&["C04"], "double-drop-zst", format!("more zero-sized tracked components dropped than were ever created ({} underflows)", zu)));
        }
        let mut owned: Vec<u64> = Vec::new();
        for sim in &self.sims {
            for m in &sim.archs {
                for e in m.live.values() {
                    for t in &e.trk {
                        if *t != 0 {
                            owned.push(*t);
                        }
                    }
                }
            }
        }
        owned.sort_unstable();
        if owned.windows(2).any(|w| w[0] == w[1]) {
            return Err(self.fail(&["C04"], "harness-shared-id", "harness bug: an id is owned twice in the model".into()));
        }
        // fast path: same size and same elements
        let same = reg(|r| r.live.len() == owned.len() + self.leaked.len() && owned.iter().all(|i| r.live.contains(i)));
        if !same {
            let live: BTreeSet<u64> = reg(|r| r.live.clone());
            let owned: BTreeSet<u64> = owned.into_iter().collect();
            let missing: Vec<u64> = owned.difference(&live).copied().collect();
            if !missing.is_empty() {
                return Err(self.fail(&["C04"], "dropped-while-alive", format!("tracked component instance(s) {:?} were dropped while their entity is still alive", missing)));
            }
            let extra: Vec<u64> = live.difference(&owned).copied().filter(|i| !self.leaked.contains(i)).collect();
            if !extra.is_empty() {
                return Err(self.fail(&["C04"], "leak", format!("tracked component instance(s) {:?} are still alive but no live entity owns them (leak)", extra)));
            }
        }
        let want = self.expected_zst_live();
        let have = reg(|r| r.zst_live);
        if have < want || have > want + self.zst_leak_slack {
            return Err(self.fail(&["C04"], "zst-count", format!("{} zero-sized tracked components are alive, expected {}", have, want)));
        }
        Ok(())
    }

    pub fn probe_all(&mut self, intensity: Intensity) -> R {
        for si in 0..self.sims.len() {
            self.probe_sim(si, intensity)?;
        }
        self.rot = self.rot.wrapping_add(1);
        Ok(())
    }

    pub fn probe_sim(&mut self, si: usize, intensity: Intensity) -> R {
        let nh = self.sims[si].handles.len();
        // large tables: every step probes the touched handles plus a rotating window, so that
        // every handle is still probed regularly while the cost per step stays bounded
        const HWIN: usize = 32;
        const DWIN: usize = 12;
        let windowed = intensity != Intensity::Full && nh > HWIN;
        let start = if windowed { (self.rot * HWIN) % nh } else { 0 };
        for hi in 0..nh {
            let touched = self.touched.contains(&(si, hi));
            if windowed && !touched && (hi + nh - start) % nh >= HWIN {
                continue;
            }
            let full = intensity == Intensity::Full || (intensity == Intensity::Normal && touched);
            self.probe_handle(si, hi, intensity, full)?;
        }
        let nd = self.sims[si].directs.len();
        let dwindowed = intensity != Intensity::Full && nd > DWIN;
        let dstart = if dwindowed { (self.rot * DWIN) % nd } else { 0 };
        for di in 0..nd {
            if dwindowed && (di + nd - dstart) % nd >= DWIN {
                continue;
            }
            self.probe_direct(si, di, intensity)?;
        }
        Ok(())
    }

    /// Checks one lookup result with an entity key against the model.
    fn judge_entity_lookup(&mut self, si: usize, rec: &HandleRec, path: LookupPath, key: Key, res: Result<Option<Obs>, String>) -> R<Option<Obs>> {
        let a = rec.arch;
        let name = self.infos[a].name;
        let obs = match res {
            Ok(o) => o,
            Err(m) => {
                let live = self.sims[si].archs[a].live.contains_key(&rec.raw);
                let tags: &[&'static str] = if live && path.reads_values() { &["C01", "C02"] } else { &["C01"] };
                return Err(self.fail(tags, "lookup-panic", format!("{:?} with {} {:?} ({}) in {} panicked: {}", path, key.kind_name(), rec.raw, if live { "live" } else { "stale" }, name, m)));
            }
        };
        // compare against the model without copying it; build the failure afterwards
        let verdict: Option<(&'static [&'static str], &'static str, String)> = {
            let m = &self.sims[si].archs[a];
            match (m.live.get(&rec.raw), obs.as_ref()) {
                (None, None) => None,
                (None, Some(o)) => Some((&["C01"], "stale-accepted", format!("{:?} with {} accepted stale handle {:?} of {} (read back {:?})", path, key.kind_name(), rec.raw, name, o.raw))),
                (Some(_), None) => Some((&["C01"], "live-rejected", format!("{:?} with {} rejected live handle {:?} of {}", path, key.kind_name(), rec.raw, name))),
                (Some(e), Some(o)) => {
                    if path.reads_values() && o.raw != Some(rec.raw) {
                        let tags: &'static [&'static str] = if o.vals != e.vals { &["C01", "C02"] } else { &["C01"] };
                        Some((tags, "wrong-entity", format!("{:?} with {} {:?} in {} reached entity {:?}", path, key.kind_name(), rec.raw, name, o.raw)))
                    } else if path.reads_values() && o.vals != e.vals {
                        Some((&["C02"], "wrong-values", format!("{:?} with {} {:?} in {} read stamps {:x?}, expected {:x?}", path, key.kind_name(), rec.raw, name, o.vals, e.vals)))
                    } else if path.reads_values() && o.trk != e.trk {
                        Some((&["C02", "C04"], "wrong-instances", format!("{:?} with {} {:?} in {} read tracked instances {:?}, expected {:?}", path, key.kind_name(), rec.raw, name, o.trk, e.trk)))
                    } else if o.index.map(|ix| ix >= m.live.len()).unwrap_or(false) {
                        Some((&["C01"], "index-out-of-range", format!("{:?} with {} {:?} in {} reported dense index {:?} with len {}", path, key.kind_name(), rec.raw, name, o.index, m.live.len())))
                    } else {
                        None
                    }
                }
            }
        };
        if let Some((tags, sig, msg)) = verdict {
            return Err(self.fail(tags, sig, msg));
        }
        if let Some(ix) = obs.as_ref().and_then(|o| o.index) {
            self.mix_trace(ix as u64 ^ 0x1DE);
        }
        Ok(obs)
    }

    pub fn probe_handle(&mut self, si: usize, hi: usize, intensity: Intensity, full: bool) -> R {
        let rec = self.sims[si].handles[hi].clone();
        let a = rec.arch;
        let live = self.sims[si].archs[a].live.contains_key(&rec.raw);
        if !live {
            // label: stale handle whose slot is currently occupied by a later entity
            let slot = raw_slot(rec.raw);
            if self.sims[si].archs[a].live.keys().any(|r| raw_slot(*r) == slot) {
                self.label("stale_probe_reused_slot");
            }
            self.count("stale_probes", 1);
        } else {
            self.count("live_probes", 1);
        }
        let keys = [Key::Ent(rec.raw), Key::Any(rec.raw)];
        let mut paths: Vec<(LookupPath, usize)> = Vec::new();
        if full {
            for p in BOOL_PATHS.iter().chain(VALUE_PATHS.iter()) {
                paths.push((*p, 0));
                paths.push((*p, 1));
            }
        } else {
            let r = self.rot.wrapping_add(hi.wrapping_mul(7));
            match (intensity, live) {
                (Intensity::Light, _) => {
                    let all = BOOL_PATHS.len() + VALUE_PATHS.len();
                    let i = r % all;
                    let p = if i < BOOL_PATHS.len() { BOOL_PATHS[i] } else { VALUE_PATHS[i - BOOL_PATHS.len()] };
                    paths.push((p, r / all % 2));
                }
                (_, true) => {
                    paths.push((BOOL_PATHS[r % BOOL_PATHS.len()], r % 2));
                    paths.push((BOOL_PATHS[(r + 2) % BOOL_PATHS.len()], (r + 1) % 2));
                    for j in 0..3 {
                        paths.push((VALUE_PATHS[(r * 3 + j * 5) % VALUE_PATHS.len()], (r + j) % 2));
                    }
                }
                (_, false) => {
                    paths.push((BOOL_PATHS[r % BOOL_PATHS.len()], r % 2));
                    paths.push((VALUE_PATHS[r % VALUE_PATHS.len()], (r + 1) % 2));
                }
            }
        }
        self.probe_foreign_archetype(si, a, Key::Any(rec.raw), hi, full, "C01")?;
        let mut minted: Option<(gecs::prelude::EntityDirectAny, bool, Option<usize>)> = None;
        for (path, k) in paths {
            let mut key = keys[k];
            if path.typed_only() {
                key = keys[0];
            }
            let res = catch(|| W::lookup(&mut self.sims[si].w, a, path, key));
            let o = self.judge_entity_lookup(si, &rec, path, key, res)?;
            self.count("lookups", 1);
            if let Some(o) = o {
                if let Some(d) = o.direct {
                    let from_closure = !matches!(path, LookupPath::WToDirect | LookupPath::AToDirect);
                    minted = Some((d, from_closure, o.index));
                }
            }
        }
        // a direct handle obtained during this probe: accepted at the moment it is issued (C09),
        // through both direct key kinds and a rotating path
        if let Some((d, from_closure, index)) = minted {
            let r = self.rot.wrapping_add(hi);
            let p = VALUE_PATHS[r % VALUE_PATHS.len()];
            let key = if p.typed_only() || r % 2 == 0 { Key::Dir(d) } else { Key::DirAny(d) };
            let res = catch(|| W::lookup(&mut self.sims[si].w, a, p, key));
            match res {
                Err(m) => return Err(self.fail(&["C09"], "direct-lookup-panic", format!("{:?} with freshly issued {} {:?} panicked: {}", p, key.kind_name(), d, m))),
                Ok(None) => return Err(self.fail(&["C09"], "direct-dead-on-arrival", format!("direct handle {:?} issued for live entity {:?} of {} is rejected by {:?} at the moment it is issued", d, rec.raw, self.infos[a].name, p))),
                Ok(Some(o)) => {
                    if o.raw != Some(rec.raw) {
                        return Err(self.fail(&["C09"], "direct-wrong-entity", format!("direct handle {:?} issued for {:?} designates {:?} through {:?}", d, rec.raw, o.raw, p)));
                    }
                }
            }
            // keep a few of them for later use (not all: the table is bounded)
            if full || (self.rot + hi) % 4 == 0 {
                let m = &self.sims[si].archs[a];
                let drec = DirectRec { d, arch: a, ent: rec.raw, removals_at_mint: m.removals, creations_at_mint: m.creations, from_closure, index, used_after_query: false };
                self.push_direct(si, drec);
            }
        }
        Ok(())
    }

    pub fn probe_direct(&mut self, si: usize, di: usize, intensity: Intensity) -> R {
        let rec = self.sims[si].directs[di].clone();
        let a = rec.arch;
        let expect = rec.expect(&self.sims[si].archs[a]);
        let name = self.infos[a].name;
        let mut paths: Vec<(LookupPath, bool)> = Vec::new();
        if intensity == Intensity::Full {
            for p in BOOL_PATHS.iter().chain(VALUE_PATHS.iter()) {
                paths.push((*p, true));
                paths.push((*p, false));
            }
        } else {
            let r = self.rot.wrapping_add(di.wrapping_mul(5));
            paths.push((BOOL_PATHS[r % BOOL_PATHS.len()], r % 2 == 0));
            if intensity == Intensity::Normal {
                paths.push((VALUE_PATHS[r % VALUE_PATHS.len()], r % 2 == 1));
            }
        }
        for (path, typed) in paths {
            let key = if typed || path.typed_only() { Key::Dir(rec.d) } else { Key::DirAny(rec.d) };
            let res = catch(|| W::lookup(&mut self.sims[si].w, a, path, key));
            self.count("direct_lookups", 1);
            let obs = match res {
                Ok(o) => o,
                Err(m) => return Err(self.fail(&["C09"], "direct-lookup-panic", format!("{:?} with {} {:?} in {} panicked: {}", path, key.kind_name(), rec.d, name, m))),
            };
            if rec.from_closure {
                self.sims[si].directs[di].used_after_query = true;
                self.label("closure_direct_used_after_query");
            }
            match (expect, obs) {
                (DirectExpect::MustReject, Some(o)) => {
                    let removals = self.sims[si].archs[a].removals - rec.removals_at_mint;
                    return Err(self.fail(&["C09"], "direct-accepted-after-removal", format!("{:?} with {} accepted direct handle {:?} (issued for {:?} of {}) although {} removal(s) happened in its archetype since it was issued; it reached {:?}", path, key.kind_name(), rec.d, rec.ent, name, removals, o.raw)));
                }
                (DirectExpect::MustReject, None) => {
                    self.label("direct_rejected_after_removal");
                    let m = &self.sims[si].archs[a];
                    if m.creations > rec.creations_at_mint {
                        self.label("direct_used_after_removal_and_creation");
                    }
                }
                (DirectExpect::MustAccept, None) => {
                    return Err(self.fail(&["C09"], "direct-rejected-unchanged", format!("{:?} with {} rejected direct handle {:?} (issued for {:?} of {}) although its archetype underwent no structural change since", path, key.kind_name(), rec.d, rec.ent, name)));
                }
                (DirectExpect::Either, None) => {
                    self.mix_trace(0xE17E);
                }
                (_, Some(o)) => {
                    if expect == DirectExpect::Either {
                        self.mix_trace(0xACC);
                        self.label("direct_accepted_after_creations");
                    }
                    let e = match self.sims[si].archs[a].live.get(&rec.ent) {
                        Some(e) => e.clone(),
                        None => return Err(self.fail(&["C09"], "harness-direct-ent-dead", "harness bug: accepted direct handle whose entity is dead in the model".into())),
                    };
                    if path.reads_values() {
                        if o.raw != Some(rec.ent) {
                            return Err(self.fail(&["C09"], "direct-wrong-entity", format!("{:?} with {} {:?} issued for {:?} of {} reached {:?}", path, key.kind_name(), rec.d, rec.ent, name, o.raw)));
                        }
                        if o.vals != e.vals || o.trk != e.trk {
                            return Err(self.fail(&["C09", "C02"], "direct-wrong-values", format!("{:?} with {} {:?} issued for {:?} of {} read stamps {:x?} / instances {:?}, expected {:x?} / {:?}", path, key.kind_name(), rec.d, rec.ent, name, o.vals, o.trk, e.vals, e.trk)));
                        }
                    }
                    if matches!(path, LookupPath::WToDirect | LookupPath::AToDirect) {
                        // converting a valid direct handle yields a handle for the same entity
                        if let Some(d2) = o.direct {
                            let got = catch(|| W::lookup(&mut self.sims[si].w, a, LookupPath::AResolveSlices, Key::DirAny(d2))).ok().flatten().and_then(|o| o.raw);
                            if got != Some(rec.ent) {
                                return Err(self.fail(&["C09"], "direct-wrong-entity", format!("to_direct({:?}) returned {:?}, which designates {:?} instead of {:?}", rec.d, d2, got, rec.ent)));
                            }
                        }
                    }
                }
            }
        }
        self.probe_foreign_archetype(si, a, Key::DirAny(rec.d), di, intensity == Intensity::Full, "C09")?;
        Ok(())
    }

    /// A dynamically typed key of archetype `a` handed to the archetype-level accessors of another
    /// archetype must be rejected, whatever the two archetypes' versions and contents are.
    pub fn probe_foreign_archetype(&mut self, si: usize, a: usize, key: Key, salt: usize, full: bool, tag: &'static str) -> R {
        let n = self.infos.len();
        if n < 2 {
            return Ok(());
        }
        let r = self.rot.wrapping_add(salt.wrapping_mul(3));
        let b = (a + 1 + r % (n - 1)) % n;
        let paths: Vec<LookupPath> = if full { ARCH_LEVEL_DYN_PATHS.to_vec() } else { vec![ARCH_LEVEL_DYN_PATHS[r % ARCH_LEVEL_DYN_PATHS.len()]] };
        for path in paths {
            let res = catch(|| W::lookup(&mut self.sims[si].w, b, path, key));
            self.count("foreign_archetype_lookups", 1);
            match res {
                Ok(None) => {}
                Ok(Some(o)) => {
                    self.label("foreign_archetype_accepted");
                    return Err(self.fail(&[tag], "accepted-by-foreign-archetype", format!("{:?} of archetype {} accepted the {} {:?} that was issued by archetype {} (it reached {:?})", path, self.infos[b].name, key.kind_name(), key, self.infos[a].name, o.raw)));
                }
                Err(m) => return Err(self.fail(&[tag], "foreign-archetype-lookup-panic", format!("{:?} of archetype {} panicked on the {} {:?} issued by archetype {}: {}", path, self.infos[b].name, key.kind_name(), key, self.infos[a].name, m))),
            }
        }
        if self.sims[si].archs[b].live.len() > 0 {
            self.label("foreign_archetype_probe_nonempty");
        }
        Ok(())
    }
}

/// The representation invariant of one storage (see DESIGN.md section 1.1).
pub fn rep_invariant(d: &VerifDump, arch_id: u8) -> Result<(), String> {
    if d.len > d.capacity {
        return Err(format!("len {} > capacity {}", d.len, d.capacity));
    }
    if d.slots.len() != d.capacity || d.entities.len() != d.len {
        return Err("dump shape".into());
    }
    if d.version == 0 {
        return Err("archetype version is 0".into());
    }
    // free list
    let mut seen = vec![false; d.capacity];
    let mut cur = d.free_head;
    let mut n = 0usize;
    loop {
        if cur & FREE_BIT == 0 {
            return Err(format!("free list link {:#x} lacks the free bit after {} nodes", cur, n));
        }
        if cur == FREE_END {
            break;
        }
        let i = (cur & !FREE_BIT) as usize;
        if i >= d.capacity {
            return Err(format!("free list points to slot {} beyond capacity {}", i, d.capacity));
        }
        if seen[i] {
            return Err(format!("free list visits slot {} twice", i));
        }
        seen[i] = true;
        n += 1;
        let (idx, ver) = d.slots[i];
        if idx & FREE_BIT == 0 {
            return Err(format!("slot {} is on the free list but not flagged free", i));
        }
        if ver == 0 {
            return Err(format!("slot {} has generation 0", i));
        }
        cur = idx;
    }
    if n != d.capacity - d.len {
        return Err(format!("free list has {} nodes, expected capacity - len = {}", n, d.capacity - d.len));
    }
    // live slots <-> dense handles
    let mut dense_seen: Vec<usize> = vec![usize::MAX; d.len];
    let mut dense_n = 0usize;
    for (i, (idx, ver)) in d.slots.iter().enumerate() {
        if idx & FREE_BIT != 0 {
            if !seen[i] {
                return Err(format!("slot {} is flagged free but not reachable from the free list head", i));
            }
            continue;
        }
        let di = *idx as usize;
        if di >= d.len {
            return Err(format!("live slot {} points to dense index {} >= len {}", i, di, d.len));
        }
        if dense_seen[di] != usize::MAX {
            return Err(format!("slots {} and {} both point to dense index {}", dense_seen[di], i, di));
        }
        dense_seen[di] = i;
        dense_n += 1;
        let (key, ever) = d.entities[di];
        if (key >> 8) as usize != i || ever != *ver {
            return Err(format!("dense handle {} is (slot {}, gen {}) but slot {} (gen {}) points to it", di, key >> 8, ever, i, ver));
        }
        if key as u8 != arch_id {
            return Err(format!("dense handle {} carries archetype id {} instead of {}", di, key as u8, arch_id));
        }
    }
    if dense_n != d.len {
        return Err(format!("{} live slots for {} dense entries", dense_n, d.len));
    }
    Ok(())
}
