//! The `WorldDriver` trait (what the interpreter needs from a world under test) and the
//! `arch_driver!` macro that generates the per-archetype half of an implementation by wrapping
//! every public access path of gecs (trait methods and all five query macros).

use gecs::prelude::*;

use crate::types::*;

pub use gecs::__internal::ArchetypeVersion;

/// Everything the interpreter does to a world goes through this trait.
/// `a` is always the archetype's index in declaration order.
pub trait WorldDriver: Sized {
    const NAME: &'static str;
    fn archs() -> Vec<ArchInfo>;
    fn xqueries() -> Vec<XQuery>;
    fn construct(ctor: Ctor, caps: &[usize]) -> Self;
    fn clone_world(&self) -> Self;
    fn clone_from_world(&mut self, src: &Self);

    fn len(&self, a: usize) -> usize;
    fn capacity(&self, a: usize) -> usize;
    fn is_empty(&self, a: usize) -> bool;
    fn arch_version(&self, a: usize) -> ArchetypeVersion;

    fn create(&mut self, a: usize, path: CreatePath, vals: &[u64]) -> CreateOut;
    fn destroy(&mut self, a: usize, level: Level, key: Key) -> Option<DestroyOut>;
    fn lookup(&mut self, a: usize, path: LookupPath, key: Key) -> Option<Obs>;
    fn write(&mut self, a: usize, path: WritePath, key: Key, col: usize, val: u64) -> bool;
    fn iterate(&mut self, a: usize, path: IterPath, break_at: Option<usize>) -> Vec<Obs>;
    fn iter_destroy(&mut self, a: usize, variant: DestroyIterVariant, decide: &mut dyn FnMut(&Obs) -> Step);

    fn xiterate(&mut self, q: usize, borrow: bool, break_at: Option<usize>) -> Vec<Obs>;
    fn xiter_destroy(&mut self, q: usize, decide: &mut dyn FnMut(&Obs) -> Step);

    /// Engine B: performs one runtime-borrowed access on a shared reference; if the access
    /// executes, `body` runs while its borrow is held.
    fn baccess(&self, acc: &BAccess, body: &mut dyn FnMut(BObs));

    /// `ecs_find!` / `ecs_find_borrow!` whose WORLD ARGUMENT is an expression yielding `w1` on its
    /// first evaluation and `w2` on every later one (a macro must evaluate it exactly once).
    /// Returns the result and the number of evaluations.
    fn find_alternating(w1: &mut Self, w2: &mut Self, a: usize, borrow: bool, key: Key) -> (Option<Obs>, usize);

    /// Leaks (`mem::forget`) a runtime-borrow guard of one column: safe code, after which the
    /// RefCell of that column stays borrowed forever.
    fn leak_guard(&self, a: usize, col: usize, mutable: bool);
    /// Clones archetype `a` (`world_level`: the whole world) and drops the copy; `hook` is called
    /// from inside the first instrumented component `Clone` that runs during the copy.
    fn reentrant_clone(&self, a: usize, world_level: bool, hook: &mut dyn FnMut());

    fn dump(&self, a: usize) -> VerifDump;
    fn preset(&mut self, a: usize, slot_gens: &[u32], arch_gen: u32);
    /// `__internal::new_entity_direct::<A>(idx, version)` (public but hidden; used for forging)
    fn new_direct(a: usize, idx: usize, version: ArchetypeVersion) -> EntityDirectAny;

    /// (created, destroyed) logs of one archetype
    fn events(&self, a: usize) -> (Vec<Raw>, Vec<Raw>);
    /// world-level logs; the bool is false if `size_hint` was inexact at some position
    fn world_events(&self) -> (Vec<Raw>, Vec<Raw>, Option<String>);
    fn clear_events(&mut self, a: Option<usize>);

    // C14: generated dispatch enums
    fn select_archetype_from_id(id: u8) -> Option<u8>;
    fn select_archetype_from_any(raw: Raw) -> Option<u8>;
    fn select_entity(raw: Raw) -> Option<(u8, Raw)>;
    fn select_direct(d: EntityDirectAny) -> Option<(u8, EntityDirectAny)>;
    fn select_archetype_from_direct(d: EntityDirectAny) -> Option<u8>;
    /// `Some(description)` if one of the Select* conversions refuses `id` / `raw` with an error
    /// other than `EcsError::InvalidEntityType` ("a runtime entity did not meet the expected type")
    fn select_error_variants(id: u8, raw: Raw) -> Option<String>;
    /// typed conversions for archetype `a`: (try_from ok -> into_any raw, from_any panicked?)
    fn typed_roundtrip(a: usize, raw: Raw) -> TypedConv;
    fn typed_direct_roundtrip(a: usize, d: EntityDirectAny) -> TypedConvD;
}

#[derive(Clone, Debug, PartialEq)]
pub struct TypedConv {
    /// `Entity::<A>::try_from(any)` -> `Ok(h)` gives `Some(h.into_any().raw())`
    pub try_from: Option<Raw>,
    /// `Entity::<A>::from_any(any)` -> `Ok(raw)` or the panic message
    pub from_any: Result<Raw, String>,
    /// typed `archetype_id()` when the conversion succeeded
    pub typed_arch_id: Option<u8>,
    /// `<&EntityAny>::from(&typed)` and the `&mut` flavour see the same bits
    pub ref_views_ok: bool,
    /// hash of typed == hash of dynamic form (two hashers)
    pub hash_agrees: bool,
    /// typed Eq agrees with dynamic Eq on (h, h)
    pub eq_reflexive: bool,
}

#[derive(Clone, Debug, PartialEq)]
pub struct TypedConvD {
    pub try_from: Option<EntityDirectAny>,
    pub from_any: Result<EntityDirectAny, String>,
    pub typed_arch_id: Option<u8>,
    pub ref_views_ok: bool,
    pub hash_agrees: bool,
}

/// Handle -> raw, for all handle types a closure or accessor can hand us.
pub trait ToRaw {
    fn to_raw(&self) -> Raw;
}
impl<A: Archetype> ToRaw for Entity<A> {
    #[inline]
    fn to_raw(&self) -> Raw {
        self.into_any().raw()
    }
}
impl ToRaw for EntityAny {
    #[inline]
    fn to_raw(&self) -> Raw {
        self.raw()
    }
}

pub trait ToDirAny {
    fn to_dir_any(&self) -> EntityDirectAny;
}
impl<A: Archetype> ToDirAny for EntityDirect<A> {
    #[inline]
    fn to_dir_any(&self) -> EntityDirectAny {
        self.into_any()
    }
}
impl ToDirAny for EntityDirectAny {
    #[inline]
    fn to_dir_any(&self) -> EntityDirectAny {
        *self
    }
}

pub fn hash2<T: std::hash::Hash>(t: &T) -> (u64, u64) {
    use std::hash::{BuildHasher, Hasher};
    let mut h1 = std::collections::hash_map::DefaultHasher::new();
    t.hash(&mut h1);
    // second, differently keyed hasher
    let bh = std::hash::BuildHasherDefault::<Fnv>::default();
    let mut h2 = bh.build_hasher();
    t.hash(&mut h2);
    (h1.finish(), h2.finish())
}

/// FNV-1a, as an independent second hasher for the Eq/Hash law.
#[derive(Clone)]
pub struct Fnv(u64);
impl Default for Fnv {
    fn default() -> Self {
        Fnv(0xcbf29ce484222325)
    }
}
impl std::hash::Hasher for Fnv {
    fn finish(&self) -> u64 {
        self.0
    }
    fn write(&mut self, bytes: &[u8]) {
        for b in bytes {
            self.0 ^= *b as u64;
            self.0 = self.0.wrapping_mul(0x100000001b3);
        }
    }
}

/// Runs `$body` with `$k` bound to the key converted to its gecs type (all six flavours).
#[macro_export]
macro_rules! with_key {
    ($A:ident, $key:expr, $k:ident => $body:expr) => {
        match $key {
            $crate::types::Key::Ent(r) => {
                let $k = Entity::<$A>::from_any($crate::types::any(r));
                $body
            }
            $crate::types::Key::EntU(r) => {
                let $k = Entity::<$A>::from_any_unchecked($crate::types::any(r));
                $body
            }
            $crate::types::Key::Any(r) => {
                let $k = $crate::types::any(r);
                $body
            }
            $crate::types::Key::Dir(d) => {
                let $k = EntityDirect::<$A>::from_any(d);
                $body
            }
            $crate::types::Key::DirU(d) => {
                let $k = EntityDirect::<$A>::from_any_unchecked(d);
                $body
            }
            $crate::types::Key::DirAny(d) => {
                let $k = d;
                $body
            }
        }
    };
}

/// Same for the APIs that only accept statically typed keys (`World::view` / `World::borrow`).
#[macro_export]
macro_rules! with_typed_key {
    ($A:ident, $key:expr, $k:ident => $body:expr) => {
        match $key {
            $crate::types::Key::Ent(r) => {
                let $k = Entity::<$A>::from_any($crate::types::any(r));
                $body
            }
            $crate::types::Key::EntU(r) => {
                let $k = Entity::<$A>::from_any_unchecked($crate::types::any(r));
                $body
            }
            $crate::types::Key::Dir(d) => {
                let $k = EntityDirect::<$A>::from_any(d);
                $body
            }
            $crate::types::Key::DirU(d) => {
                let $k = EntityDirect::<$A>::from_any_unchecked(d);
                $body
            }
            _ => panic!("harness bug: dynamic key on a typed-only path"),
        }
    };
}

/// Generates the driver functions of one archetype. Must be expanded inside a module that has
/// the world type, the archetype, its components, the world's query macros and
/// `gecs::prelude::*` in scope.
///
/// `$W` world type, `$A` archetype type, `$f` the world's field holding it,
/// `[(binding, ComponentType, field_name), ...]` the columns in declaration order.
#[macro_export]
macro_rules! arch_driver {
    ($W:ident, $A:ident, $f:ident, [$( ($v:ident, $C:ident, $fld:ident) ),+ $(,)?]) => {
        use $crate::comps::{Stamp, Site, tick};
        use $crate::types::*;
        use $crate::driver::{ToRaw, ToDirAny, TypedConv, TypedConvD, hash2};
        #[allow(unused_imports)]
        use gecs::prelude::*;

        pub fn info() -> ArchInfo {
            ArchInfo {
                name: stringify!($A),
                id: <$A as Archetype>::ARCHETYPE_ID,
                masks: vec![$( <$C as Stamp>::MASK ),+],
                tracked: vec![$( <$C as Stamp>::TRACKED ),+],
                col_names: vec![$( stringify!($C) ),+],
                zst_tracked: [$( stringify!($C) ),+].iter().filter(|n| **n == "Ztrk").count(),
                tok_cols: [$( stringify!($C) ),+].iter().filter(|n| **n == "Tok").count(),
            }
        }

        #[allow(unused_assignments)]
        fn mk_tuple(vals: &[u64]) -> ($($C,)+) {
            let mut i = 0usize;
            ($( { let x = <$C as Stamp>::mk(vals[i]); i += 1; x }, )+)
        }

        fn obs_tuple(raw: Option<Raw>, t: &($($C,)+)) -> Obs {
            let ($($v,)+) = t;
            let mut o = Obs::default();
            o.raw = raw;
            $( o.push($v); )+
            o
        }

        pub fn len(w: &$W) -> usize { w.$f.len() }
        pub fn capacity(w: &$W) -> usize { w.archetype::<$A>().capacity() }
        pub fn is_empty(w: &$W) -> bool { w.$f.is_empty() }
        pub fn arch_version(w: &$W) -> gecs::__internal::ArchetypeVersion { w.$f.version() }
        pub fn dump(w: &$W) -> VerifDump { w.$f.data.__verif_dump() }
        pub fn preset(w: &mut $W, slot_gens: &[u32], arch_gen: u32) {
            w.$f.data.__verif_preset_generations(slot_gens, arch_gen)
        }
        pub fn new_direct(idx: usize, version: gecs::__internal::ArchetypeVersion) -> EntityDirectAny {
            gecs::__internal::new_entity_direct::<$A>(idx, version).into_any()
        }

        pub fn create(w: &mut $W, path: CreatePath, vals: &[u64]) -> CreateOut {
            let t = mk_tuple(vals);
            let given = obs_tuple(None, &t);
            let r = match path {
                CreatePath::WCreate => Ok(w.create::<$A>(t)),
                CreatePath::ACreate => Ok(w.archetype_mut::<$A>().create(t)),
                CreatePath::WCreateWithin => w.create_within_capacity::<$A>(t),
                CreatePath::ACreateWithin => w.$f.create_within_capacity(t),
            };
            match r {
                Ok(e) => CreateOut::Created { raw: e.to_raw(), trk: given.trk },
                Err(c) => {
                    // the refused components are dropped here, in harness code: not an injection point
                    $crate::comps::suspend();
                    let back = obs_tuple(None, &c.into_tuple());
                    $crate::comps::resume();
                    CreateOut::Full { vals: back.vals, trk: back.trk, given_trk: given.trk }
                }
            }
        }

        pub fn destroy(w: &mut $W, level: Level, key: Key) -> Option<DestroyOut> {
            match (level, key) {
                // dynamic keys at world level return Option<()>: components are dropped inside gecs
                (Level::World, Key::Any(r)) => w.destroy(any(r)).map(|()| DestroyOut { comps: None }),
                (Level::World, Key::DirAny(d)) => w.destroy(d).map(|()| DestroyOut { comps: None }),
                (Level::World, Key::Ent(r)) => w.destroy(Entity::<$A>::from_any(any(r))).map(comps_out),
                (Level::World, Key::EntU(r)) => w.destroy(Entity::<$A>::from_any_unchecked(any(r))).map(comps_out),
                (Level::World, Key::Dir(d)) => w.destroy(EntityDirect::<$A>::from_any(d)).map(comps_out),
                (Level::World, Key::DirU(d)) => w.destroy(EntityDirect::<$A>::from_any_unchecked(d)).map(comps_out),
                (Level::Arch, key) => $crate::with_key!($A, key, k => w.$f.destroy(k).map(comps_out)),
            }
        }

        fn comps_out(mut c: <$A as Archetype>::Components) -> DestroyOut {
            // the named-components struct: get / get_mut / public fields / into_tuple must agree
            let via_get: Vec<u64> = vec![$( Components::get::<$C>(&c).get() ),+];
            let via_get_mut: Vec<u64> = vec![$( Components::get_mut::<$C>(&mut c).get() ),+];
            let via_field: Vec<u64> = vec![$( c.$fld.get() ),+];
            // the returned components are dropped here, in harness code: not an injection point
            $crate::comps::suspend();
            let mut o = obs_tuple(None, &c.into_tuple());
            $crate::comps::resume();
            if via_get != o.vals || via_get_mut != o.vals || via_field != o.vals {
                // make the disagreement visible
                o.vals = vec![$crate::comps::GARBAGE; o.vals.len()];
            }
            DestroyOut { comps: Some((o.vals, o.trk)) }
        }

        pub fn lookup(w: &mut $W, path: LookupPath, key: Key) -> Option<Obs> {
            match path {
                LookupPath::WContains => $crate::with_key!($A, key, k => if w.contains(k) { Some(Obs::bare()) } else { None }),
                LookupPath::AContains => $crate::with_key!($A, key, k => if w.$f.contains(k) { Some(Obs::bare()) } else { None }),
                LookupPath::WToDirect => $crate::with_key!($A, key, k => w.to_direct(k).map(|d| Obs::bare().with_direct(d.to_dir_any()))),
                LookupPath::AToDirect => $crate::with_key!($A, key, k => w.$f.to_direct(k).map(|d| Obs::bare().with_direct(d.to_dir_any()))),
                LookupPath::AResolve => $crate::with_key!($A, key, k => w.$f.resolve(k).map(|i| Obs::bare().with_index(i))),
                LookupPath::AResolveSlices => $crate::with_key!($A, key, k => {
                    match w.$f.resolve(k) {
                        None => None,
                        Some(ix) => {
                            let mut o = Obs::of(w.$f.entities()[ix].to_raw()).with_index(ix);
                            $( o.push(&w.$f.get_slice::<$C>()[ix]); )+
                            Some(o)
                        }
                    }
                }),
                LookupPath::AResolveBorrowSlices => $crate::with_key!($A, key, k => {
                    match w.$f.resolve(k) {
                        None => None,
                        Some(ix) => {
                            let arch = w.archetype::<$A>();
                            let mut o = Obs::of(arch.entities()[ix].to_raw()).with_index(ix);
                            $( { let s = arch.borrow_slice::<$C>(); o.push(&s[ix]); } )+
                            Some(o)
                        }
                    }
                }),
                LookupPath::AResolveAllSlices => $crate::with_key!($A, key, k => {
                    match w.$f.resolve(k) {
                        None => None,
                        Some(ix) => {
                            let s = w.$f.get_all_slices_mut();
                            let mut o = Obs::of(s.entity[ix].to_raw()).with_index(ix);
                            $( o.push(&s.$fld[ix]); )+
                            Some(o)
                        }
                    }
                }),
                LookupPath::AView => $crate::with_key!($A, key, k => w.$f.view(k).map(|view| {
                    let mut o = Obs::of(view.entity.to_raw()).with_index(view.index());
                    $( o.push(&*view.$fld); )+
                    o
                })),
                LookupPath::AViewComp => $crate::with_key!($A, key, k => w.archetype_mut::<$A>().view(k).map(|view| {
                    let mut o = Obs::of(view.entity.to_raw()).with_index(view.index());
                    $( o.push(view.component::<$C>()); )+
                    o
                })),
                LookupPath::WView => $crate::with_typed_key!($A, key, k => w.view(k).map(|view| {
                    let mut o = Obs::of(view.entity.to_raw()).with_index(view.index());
                    $( o.push(view.component::<$C>()); )+
                    o
                })),
                LookupPath::ABorrow => $crate::with_key!($A, key, k => w.$f.borrow(k).map(|b| {
                    let mut o = Obs::of(b.entity().to_raw()).with_index(b.index());
                    $( { let r = b.component::<$C>(); o.push(&*r); } )+
                    o
                })),
                LookupPath::WBorrow => $crate::with_typed_key!($A, key, k => w.borrow(k).map(|b| {
                    let mut o = Obs::of(b.entity().to_raw()).with_index(b.index());
                    $( { let r = b.component::<$C>(); o.push(&*r); } )+
                    o
                })),
                LookupPath::Find => $crate::with_key!($A, key, k => ecs_find!(w, k, |e: &Entity<$A>, d: &EntityDirect<$A>, $( $v: &$C ),+| {
                    tick(Site::Closure);
                    let mut o = Obs::of(e.to_raw()).with_direct(d.to_dir_any());
                    $( o.push($v); )+
                    o
                })),
                LookupPath::FindAny => $crate::with_key!($A, key, k => ecs_find!(w, k, |e: &EntityAny, d: &EntityDirectAny, $( $v: &$C ),+| -> Obs {
                    tick(Site::Closure);
                    let mut o = Obs::of(e.to_raw()).with_direct(d.to_dir_any());
                    $( o.push($v); )+
                    o
                })),
                LookupPath::FindWild => $crate::with_key!($A, key, k => ecs_find!(w, k, |e: &Entity<_>, d: &EntityDirect<_>, $( $v: &$C ),+| -> Obs {
                    tick(Site::Closure);
                    let mut o = Obs::of(e.to_raw()).with_direct(d.to_dir_any());
                    $( o.push($v); )+
                    o
                })),
                LookupPath::FindBorrow => $crate::with_key!($A, key, k => ecs_find_borrow!(w, k, |e: &Entity<$A>, d: &EntityDirect<$A>, $( $v: &$C ),+| {
                    tick(Site::Closure);
                    let mut o = Obs::of(e.to_raw()).with_direct(d.to_dir_any());
                    $( o.push($v); )+
                    o
                })),
                LookupPath::FindBorrowAny => $crate::with_key!($A, key, k => ecs_find_borrow!(w, k, |e: &EntityAny, d: &EntityDirectAny, $( $v: &$C ),+| -> Obs {
                    tick(Site::Closure);
                    let mut o = Obs::of(e.to_raw()).with_direct(d.to_dir_any());
                    $( o.push($v); )+
                    o
                })),
                LookupPath::FindBorrowWild => $crate::with_key!($A, key, k => ecs_find_borrow!(w, k, |e: &Entity<_>, d: &EntityDirect<_>, $( $v: &$C ),+| -> Obs {
                    tick(Site::Closure);
                    let mut o = Obs::of(e.to_raw()).with_direct(d.to_dir_any());
                    $( o.push($v); )+
                    o
                })),
            }
        }

        /// Writes `val` into column `col` of the entity designated by `key`; true if it was found.
        #[allow(unused_assignments, unused_variables, unused_mut)]
        pub fn write(w: &mut $W, path: WritePath, key: Key, col: usize, val: u64) -> bool {
            // scanning paths look for the handle itself
            let target: Option<Raw> = match key { Key::Ent(r) | Key::EntU(r) | Key::Any(r) => Some(r), _ => None };
            match path {
                WritePath::Find => $crate::with_key!($A, key, k => ecs_find!(w, k, |$( $v: &mut $C ),+| {
                    tick(Site::Closure);
                    let mut i = 0usize;
                    $( if i == col { $v.set(val); } i += 1; )+
                }).is_some()),
                WritePath::FindBorrow => $crate::with_key!($A, key, k => ecs_find_borrow!(w, k, |$( $v: &mut $C ),+| {
                    tick(Site::Closure);
                    let mut i = 0usize;
                    $( if i == col { $v.set(val); } i += 1; )+
                }).is_some()),
                WritePath::AViewField => $crate::with_key!($A, key, k => w.$f.view(k).map(|mut view| {
                    let mut i = 0usize;
                    $( if i == col { view.$fld.set(val); } i += 1; )+
                }).is_some()),
                WritePath::AViewCompMut => $crate::with_key!($A, key, k => w.$f.view(k).map(|mut view| {
                    let mut i = 0usize;
                    $( if i == col { view.component_mut::<$C>().set(val); } i += 1; )+
                }).is_some()),
                WritePath::WViewCompMut => $crate::with_typed_key!($A, key, k => w.view(k).map(|mut view| {
                    let mut i = 0usize;
                    $( if i == col { view.component_mut::<$C>().set(val); } i += 1; )+
                }).is_some()),
                WritePath::ABorrowCompMut => $crate::with_key!($A, key, k => w.$f.borrow(k).map(|b| {
                    let mut i = 0usize;
                    $( if i == col { b.component_mut::<$C>().set(val); } i += 1; )+
                }).is_some()),
                WritePath::WBorrowCompMut => $crate::with_typed_key!($A, key, k => w.borrow(k).map(|b| {
                    let mut i = 0usize;
                    $( if i == col { b.component_mut::<$C>().set(val); } i += 1; )+
                }).is_some()),
                WritePath::AResolveSliceMut => $crate::with_key!($A, key, k => match w.$f.resolve(k) {
                    None => false,
                    Some(ix) => {
                        let mut i = 0usize;
                        $( if i == col { w.$f.get_slice_mut::<$C>()[ix].set(val); } i += 1; )+
                        true
                    }
                }),
                WritePath::AResolveBorrowSliceMut => $crate::with_key!($A, key, k => match w.$f.resolve(k) {
                    None => false,
                    Some(ix) => {
                        let mut i = 0usize;
                        $( if i == col { w.$f.borrow_slice_mut::<$C>()[ix].set(val); } i += 1; )+
                        true
                    }
                }),
                WritePath::AResolveAllSlices => $crate::with_key!($A, key, k => match w.$f.resolve(k) {
                    None => false,
                    Some(ix) => {
                        let s = w.$f.get_all_slices_mut();
                        let mut i = 0usize;
                        $( if i == col { s.$fld[ix].set(val); } i += 1; )+
                        true
                    }
                }),
                WritePath::IterMut => {
                    let target = target.expect("scan path needs an entity key");
                    let mut hit = false;
                    for (e, $( $v ),+) in w.$f.iter_mut() {
                        if e.to_raw() == target {
                            hit = true;
                            let mut i = 0usize;
                            $( if i == col { $v.set(val); } i += 1; )+
                        }
                    }
                    hit
                }
                WritePath::EcsIter => {
                    let target = target.expect("scan path needs an entity key");
                    let mut hit = false;
                    ecs_iter!(w, |e: &Entity<$A>, $( $v: &mut $C ),+| {
                        tick(Site::Closure);
                        if e.to_raw() == target {
                            hit = true;
                            let mut i = 0usize;
                            $( if i == col { $v.set(val); } i += 1; )+
                        }
                    });
                    hit
                }
                WritePath::EcsIterBorrow => {
                    let target = target.expect("scan path needs an entity key");
                    let mut hit = false;
                    ecs_iter_borrow!(w, |e: &Entity<$A>, $( $v: &mut $C ),+| {
                        tick(Site::Closure);
                        if e.to_raw() == target {
                            hit = true;
                            let mut i = 0usize;
                            $( if i == col { $v.set(val); } i += 1; )+
                        }
                    });
                    hit
                }
            }
        }

        pub fn iterate(w: &mut $W, path: IterPath, break_at: Option<usize>) -> Vec<Obs> {
            let mut out: Vec<Obs> = Vec::new();
            match path {
                IterPath::EcsIter => ecs_iter!(w, |e: &Entity<$A>, d: &EntityDirect<$A>, $( $v: &$C ),+| {
                    tick(Site::Closure);
                    let mut o = Obs::of(e.to_raw()).with_direct(d.to_dir_any());
                    $( o.push($v); )+
                    out.push(o);
                    if Some(out.len() - 1) == break_at { EcsStep::Break } else { EcsStep::Continue }
                }),
                IterPath::EcsIterAny => ecs_iter!(w, |d: &EntityDirectAny, $( $v: &$C, )+ e: &EntityAny, _t: &Entity<$A>| {
                    tick(Site::Closure);
                    let mut o = Obs::of(e.to_raw()).with_direct(d.to_dir_any());
                    $( o.push($v); )+
                    out.push(o);
                    if Some(out.len() - 1) == break_at { EcsStep::Break } else { EcsStep::Continue }
                }),
                IterPath::EcsIterWild => ecs_iter!(w, |e: &Entity<_>, d: &EntityDirect<_>, _t: &EntityDirect<$A>, $( $v: &$C ),+| {
                    tick(Site::Closure);
                    let mut o = Obs::of(e.to_raw()).with_direct(d.to_dir_any());
                    $( o.push($v); )+
                    out.push(o);
                    if Some(out.len() - 1) == break_at { EcsStep::Break } else { EcsStep::Continue }
                }),
                IterPath::EcsIterBorrow => ecs_iter_borrow!(w, |e: &Entity<$A>, d: &EntityDirect<$A>, $( $v: &$C ),+| {
                    tick(Site::Closure);
                    let mut o = Obs::of(e.to_raw()).with_direct(d.to_dir_any());
                    $( o.push($v); )+
                    out.push(o);
                    if Some(out.len() - 1) == break_at { EcsStep::Break } else { EcsStep::Continue }
                }),
                IterPath::EcsIterBorrowAny => ecs_iter_borrow!(w, |d: &EntityDirectAny, $( $v: &$C, )+ e: &EntityAny, _t: &Entity<$A>| {
                    tick(Site::Closure);
                    let mut o = Obs::of(e.to_raw()).with_direct(d.to_dir_any());
                    $( o.push($v); )+
                    out.push(o);
                    if Some(out.len() - 1) == break_at { EcsStep::Break } else { EcsStep::Continue }
                }),
                IterPath::EcsIterBorrowWild => ecs_iter_borrow!(w, |e: &Entity<_>, d: &EntityDirect<_>, _t: &EntityDirect<$A>, $( $v: &$C ),+| {
                    tick(Site::Closure);
                    let mut o = Obs::of(e.to_raw()).with_direct(d.to_dir_any());
                    $( o.push($v); )+
                    out.push(o);
                    if Some(out.len() - 1) == break_at { EcsStep::Break } else { EcsStep::Continue }
                }),
                IterPath::ArchIter => {
                    for (e, $( $v ),+) in w.$f.iter() {
                        let mut o = Obs::of(e.to_raw());
                        $( o.push($v); )+
                        out.push(o);
                    }
                }
                IterPath::ArchIterMut => {
                    for (e, $( $v ),+) in w.archetype_mut::<$A>().iter_mut() {
                        let mut o = Obs::of(e.to_raw());
                        $( o.push(&*$v); )+
                        out.push(o);
                    }
                }
                IterPath::Entities => {
                    for e in w.$f.entities() {
                        out.push(Obs::of(e.to_raw()));
                    }
                }
                IterPath::Slices => {
                    out = w.$f.entities().iter().map(|e| Obs::of(e.to_raw())).collect();
                    $( {
                        let s = w.$f.get_slice::<$C>();
                        col_into(&mut out, s);
                    } )+
                }
                IterPath::SlicesMut => {
                    out = w.$f.entities().iter().map(|e| Obs::of(e.to_raw())).collect();
                    $( {
                        let s = w.$f.get_slice_mut::<$C>();
                        col_into(&mut out, &*s);
                    } )+
                }
                IterPath::BorrowSlices => {
                    let arch = w.archetype::<$A>();
                    out = arch.entities().iter().map(|e| Obs::of(e.to_raw())).collect();
                    $( {
                        let s = arch.borrow_slice::<$C>();
                        col_into(&mut out, &*s);
                    } )+
                }
                IterPath::BorrowSlicesMut => {
                    let arch = w.archetype::<$A>();
                    out = arch.entities().iter().map(|e| Obs::of(e.to_raw())).collect();
                    $( {
                        let s = arch.borrow_slice_mut::<$C>();
                        col_into(&mut out, &*s);
                    } )+
                }
                IterPath::ArchIterSkip => {
                    // any way of consuming the iterator must present consistent items
                    let k = break_at.unwrap_or(1);
                    for (e, $( $v ),+) in w.$f.iter().skip(k) {
                        let mut o = Obs::of(e.to_raw());
                        $( o.push($v); )+
                        out.push(o);
                    }
                }
                IterPath::ArchIterStepBy => {
                    let k = break_at.unwrap_or(2).max(1);
                    for (e, $( $v ),+) in w.$f.iter().step_by(k) {
                        let mut o = Obs::of(e.to_raw());
                        $( o.push($v); )+
                        out.push(o);
                    }
                }
                IterPath::ArchIterMutNth => {
                    let k = break_at.unwrap_or(1);
                    let mut it = w.archetype_mut::<$A>().iter_mut();
                    if let Some((e, $( $v ),+)) = it.nth(k) {
                        let mut o = Obs::of(e.to_raw());
                        $( o.push(&*$v); )+
                        out.push(o);
                    }
                    for (e, $( $v ),+) in it {
                        let mut o = Obs::of(e.to_raw());
                        $( o.push(&*$v); )+
                        out.push(o);
                    }
                }
                IterPath::ArchIterCount => {
                    // size_hint / count / last must agree with a plain walk
                    let (lo, hi) = w.$f.iter().size_hint();
                    let n = w.$f.iter().count();
                    let last = w.$f.iter().last().map(|t| t.0.to_raw());
                    let mut walked = 0usize;
                    let mut last_walked = None;
                    for (e, $( $v ),+) in w.$f.iter() {
                        let mut o = Obs::of(e.to_raw());
                        $( o.push($v); )+
                        out.push(o);
                        walked += 1;
                        last_walked = Some(e.to_raw());
                    }
                    if n != walked || lo > walked || hi.map(|h| h < walked).unwrap_or(false) || last != last_walked {
                        // make the disagreement visible as a malformed observation
                        out.push(Obs::bare());
                    }
                }
                IterPath::AllSlices => {
                    let s = w.$f.get_all_slices_mut();
                    out = s.entity.iter().map(|e| Obs::of(e.to_raw())).collect();
                    $( col_into(&mut out, &*s.$fld); )+
                }
            }
            out
        }

        /// Appends column `s` to the observations; a length mismatch is made visible by
        /// padding/truncating with a marker observation.
        fn col_into<S: Stamp>(out: &mut Vec<Obs>, s: &[S]) {
            if s.len() != out.len() {
                // make the mismatch observable: extra (or missing) items show up as raw == None
                while out.len() < s.len() { out.push(Obs::bare()); }
            }
            for (i, o) in out.iter_mut().enumerate() {
                match s.get(i) {
                    Some(c) => o.push(c),
                    None => { o.vals.push($crate::comps::GARBAGE); o.trk.push(0); }
                }
            }
        }

        pub fn iter_destroy(w: &mut $W, variant: DestroyIterVariant, decide: &mut dyn FnMut(&Obs) -> Step) {
            match variant {
                DestroyIterVariant::Typed => ecs_iter_destroy!(w, |e: &Entity<$A>, d: &EntityDirect<$A>, $( $v: &$C ),+| {
                    tick(Site::Closure);
                    let mut o = Obs::of(e.to_raw()).with_direct(d.to_dir_any());
                    $( o.push($v); )+
                    decide(&o).to_gecs()
                }),
                DestroyIterVariant::Any => ecs_iter_destroy!(w, |$( $v: &$C, )+ d: &EntityDirectAny, e: &EntityAny, _t: &Entity<$A>| {
                    tick(Site::Closure);
                    let mut o = Obs::of(e.to_raw()).with_direct(d.to_dir_any());
                    $( o.push($v); )+
                    decide(&o).to_gecs()
                }),
                DestroyIterVariant::Wild => ecs_iter_destroy!(w, |e: &Entity<_>, d: &EntityDirect<_>, _t: &EntityDirect<$A>, $( $v: &$C ),+| {
                    tick(Site::Closure);
                    let mut o = Obs::of(e.to_raw()).with_direct(d.to_dir_any());
                    $( o.push($v); )+
                    decide(&o).to_gecs()
                }),
                DestroyIterVariant::ViaStep => {
                    let mut n = 0usize;
                    ecs_iter_destroy!(w, |e: &Entity<$A>, d: &EntityDirect<$A>, $( $v: &$C ),+| {
                        tick(Site::Closure);
                        let mut o = Obs::of(e.to_raw()).with_direct(d.to_dir_any());
                        $( o.push($v); )+
                        n += 1;
                        decide(&o).to_gecs_via_conversions(n % 2 == 0)
                    })
                }
                DestroyIterVariant::Mut => ecs_iter_destroy!(w, |e: &Entity<$A>, d: &EntityDirect<$A>, $( $v: &mut $C ),+| {
                    tick(Site::Closure);
                    let mut o = Obs::of(e.to_raw()).with_direct(d.to_dir_any());
                    $( o.push(&*$v); )+
                    decide(&o).to_gecs()
                }),
            }
        }

        pub fn find_alternating(w1: &mut $W, w2: &mut $W, borrow: bool, key: Key) -> (Option<Obs>, usize) {
            let mut evals = 0usize;
            let r = if borrow {
                $crate::with_key!($A, key, k => ecs_find_borrow!({ evals += 1; if evals == 1 { &mut *w1 } else { &mut *w2 } }, k, |e: &Entity<$A>, d: &EntityDirect<$A>, $( $v: &$C ),+| {
                    let mut o = Obs::of(e.to_raw()).with_direct(d.to_dir_any());
                    $( o.push($v); )+
                    o
                }))
            } else {
                $crate::with_key!($A, key, k => ecs_find!({ evals += 1; if evals == 1 { &mut *w1 } else { &mut *w2 } }, k, |d: &EntityDirectAny, $( $v: &$C, )+ e: &EntityAny, _t: &EntityDirect<$A>| -> Obs {
                    let mut o = Obs::of(e.to_raw()).with_direct(d.to_dir_any());
                    $( o.push($v); )+
                    o
                }))
            };
            (r, evals)
        }

        #[allow(unused_assignments)]
        pub fn reentrant_clone(w: &$W, world_level: bool, hook: &mut dyn FnMut()) {
            $crate::comps::with_clone_hook(hook, || {
                if world_level {
                    drop(w.clone());
                } else {
                    drop(w.$f.clone());
                }
            })
        }

        pub fn leak_guard(w: &$W, col: usize, mutable: bool) {
            let mut i = 0usize;
            $( if i == col {
                if mutable {
                    std::mem::forget(w.$f.borrow_slice_mut::<$C>());
                } else {
                    std::mem::forget(w.$f.borrow_slice::<$C>());
                }
            } i += 1; )+
        }

        /// Engine B access on this archetype (see `WorldDriver::baccess`).
        #[allow(unused_assignments, unused_variables, unused_mut)]
        pub fn baccess(w: &$W, acc: &BAccess, body: &mut dyn FnMut(BObs)) {
            let col = acc.col;
            let val = acc.write;
            match acc.kind {
                BKind::FindBorrowS => {
                    let k = Entity::<$A>::from_any(any(acc.key.expect("entity access needs a key")));
                    let mut i = 0usize;
                    $( if i == col {
                        ecs_find_borrow!(w, k, |e: &Entity<$A>, c: &$C| {
                            body(BObs { raw: Some(e.to_raw()), vals: vec![c.get()] });
                        });
                    } i += 1; )+
                }
                BKind::FindBorrowM => {
                    // dynamic key for variety
                    let k = any(acc.key.expect("entity access needs a key"));
                    let mut i = 0usize;
                    $( if i == col {
                        ecs_find_borrow!(w, k, |e: &EntityAny, c: &mut $C, _t: &Entity<$A>| {
                            let old = c.get();
                            c.set(val);
                            body(BObs { raw: Some(e.to_raw()), vals: vec![old] });
                        });
                    } i += 1; )+
                }
                BKind::IterBorrowS => {
                    let mut i = 0usize;
                    $( if i == col {
                        let mut n = 0usize;
                        ecs_iter_borrow!(w, |e: &Entity<$A>, c: &$C| {
                            if n == 0 {
                                body(BObs { raw: Some(e.to_raw()), vals: vec![c.get()] });
                            }
                            n += 1;
                        });
                    } i += 1; )+
                }
                BKind::IterBorrowM => {
                    let mut i = 0usize;
                    $( if i == col {
                        let mut n = 0usize;
                        ecs_iter_borrow!(w, |e: &Entity<$A>, c: &mut $C| {
                            if n == 0 {
                                let old = c.get();
                                c.set(val);
                                body(BObs { raw: Some(e.to_raw()), vals: vec![old] });
                            }
                            n += 1;
                        });
                    } i += 1; )+
                }
                BKind::CompS => {
                    let k = Entity::<$A>::from_any(any(acc.key.expect("entity access needs a key")));
                    if let Some(b) = w.$f.borrow(k) {
                        let mut i = 0usize;
                        $( if i == col {
                            let g = b.component::<$C>();
                            body(BObs { raw: Some(b.entity().to_raw()), vals: vec![g.get()] });
                            drop(g);
                        } i += 1; )+
                    }
                }
                BKind::CompM => {
                    let k = any(acc.key.expect("entity access needs a key"));
                    if let Some(b) = w.archetype::<$A>().borrow(k) {
                        let mut i = 0usize;
                        $( if i == col {
                            let mut g = b.component_mut::<$C>();
                            let old = g.get();
                            g.set(val);
                            body(BObs { raw: Some(b.entity().to_raw()), vals: vec![old] });
                            drop(g);
                        } i += 1; )+
                    }
                }
                BKind::SliceS => {
                    let mut i = 0usize;
                    $( if i == col {
                        let g = w.$f.borrow_slice::<$C>();
                        body(BObs { raw: None, vals: g.iter().map(|c| c.get()).collect() });
                        drop(g);
                    } i += 1; )+
                }
                BKind::SliceM => {
                    let mut i = 0usize;
                    $( if i == col {
                        let mut g = w.archetype::<$A>().borrow_slice_mut::<$C>();
                        let old: Vec<u64> = g.iter().map(|c| c.get()).collect();
                        if let Some(first) = g.first_mut() {
                            first.set(val);
                        }
                        body(BObs { raw: None, vals: old });
                        drop(g);
                    } i += 1; )+
                }
                BKind::FindBorrowOneOfS => {
                    let k = any(acc.key.expect("entity access needs a key"));
                    let mut i = 0usize;
                    $( if i == col {
                        ecs_find_borrow!(w, k, |c: &OneOf<$C, Nope>, e: &Entity<$A>| {
                            body(BObs { raw: Some(e.to_raw()), vals: vec![c.get()] });
                        });
                    } i += 1; )+
                }
                BKind::FindBorrowOneOfM => {
                    let k = Entity::<$A>::from_any(any(acc.key.expect("entity access needs a key")));
                    let mut i = 0usize;
                    $( if i == col {
                        ecs_find_borrow!(w, k, |e: &Entity<$A>, c: &mut OneOf<Nope, $C>| {
                            let old = c.get();
                            c.set(val);
                            body(BObs { raw: Some(e.to_raw()), vals: vec![old] });
                        });
                    } i += 1; )+
                }
                BKind::IterBorrowOneOfS => {
                    let mut i = 0usize;
                    $( if i == col {
                        let mut n = 0usize;
                        ecs_iter_borrow!(w, |e: &Entity<$A>, c: &OneOf<Nope, $C>| {
                            if n == 0 {
                                body(BObs { raw: Some(e.to_raw()), vals: vec![c.get()] });
                            }
                            n += 1;
                        });
                    } i += 1; )+
                }
                BKind::IterBorrowOneOfM => {
                    let mut i = 0usize;
                    $( if i == col {
                        let mut n = 0usize;
                        ecs_iter_borrow!(w, |c: &mut OneOf<$C, Nope>, e: &Entity<$A>| {
                            if n == 0 {
                                let old = c.get();
                                c.set(val);
                                body(BObs { raw: Some(e.to_raw()), vals: vec![old] });
                            }
                            n += 1;
                        });
                    } i += 1; )+
                }
                BKind::FindBorrowAnonS => {
                    let k = Entity::<$A>::from_any(any(acc.key.expect("entity access needs a key")));
                    let mut i = 0usize;
                    $( if i == col {
                        ecs_find_borrow!(w, k, |_: &$C, e: &Entity<$A>| {
                            body(BObs { raw: Some(e.to_raw()), vals: vec![] });
                        });
                    } i += 1; )+
                }
                BKind::FindBorrowAnonM => {
                    let k = any(acc.key.expect("entity access needs a key"));
                    let mut i = 0usize;
                    $( if i == col {
                        ecs_find_borrow!(w, k, |e: &Entity<$A>, _: &mut $C| {
                            body(BObs { raw: Some(e.to_raw()), vals: vec![] });
                        });
                    } i += 1; )+
                }
                BKind::IterBorrowAnonM => {
                    let mut i = 0usize;
                    $( if i == col {
                        let mut n = 0usize;
                        ecs_iter_borrow!(w, |_: &mut $C, e: &Entity<$A>| {
                            if n == 0 {
                                body(BObs { raw: Some(e.to_raw()), vals: vec![] });
                            }
                            n += 1;
                        });
                    } i += 1; )+
                }
                BKind::IterBorrowCrossS => {
                    let mut i = 0usize;
                    $( if i == col {
                        let mut done = false;
                        ecs_iter_borrow!(w, |e: &EntityAny, c: &$C| {
                            if !done && e.archetype_id() == <$A as Archetype>::ARCHETYPE_ID {
                                done = true;
                                body(BObs { raw: Some(e.to_raw()), vals: vec![c.get()] });
                            }
                        });
                    } i += 1; )+
                }
                BKind::IterBorrowCrossM => {
                    let mut i = 0usize;
                    $( if i == col {
                        let mut done = false;
                        ecs_iter_borrow!(w, |c: &mut $C, e: &EntityAny| {
                            if !done && e.archetype_id() == <$A as Archetype>::ARCHETYPE_ID {
                                done = true;
                                let old = c.get();
                                c.set(val);
                                body(BObs { raw: Some(e.to_raw()), vals: vec![old] });
                            }
                        });
                    } i += 1; )+
                }
                BKind::FindBorrowDirectS => {
                    let k = Entity::<$A>::from_any(any(acc.key.expect("entity access needs a key")));
                    if let Some(d) = w.$f.to_direct(k) {
                        let mut i = 0usize;
                        $( if i == col {
                            ecs_find_borrow!(w, d, |e: &Entity<$A>, c: &$C| {
                                body(BObs { raw: Some(e.to_raw()), vals: vec![c.get()] });
                            });
                        } i += 1; )+
                    }
                }
                BKind::FindBorrowDirectM => {
                    let k = any(acc.key.expect("entity access needs a key"));
                    if let Some(d) = w.to_direct(k) {
                        let mut i = 0usize;
                        $( if i == col {
                            ecs_find_borrow!(w, d, |e: &EntityAny, c: &mut $C, _t: &Entity<$A>| {
                                let old = c.get();
                                c.set(val);
                                body(BObs { raw: Some(e.to_raw()), vals: vec![old] });
                            });
                        } i += 1; )+
                    }
                }
                BKind::CloneWorld | BKind::CloneFromWorld => unreachable!("world level"),
                BKind::CloneArch => {
                    let c = w.$f.clone();
                    drop(c);
                    body(BObs::default());
                }
                BKind::CloneFromArch => {
                    let mut dst = <$A>::with_capacity(w.$f.capacity());
                    dst.clone_from(&w.$f);
                    drop(dst);
                    body(BObs::default());
                }
            }
        }

        #[cfg(feature = "events")]
        pub fn events(w: &$W) -> (Vec<Raw>, Vec<Raw>) {
            (
                w.$f.iter_created().map(|e| e.to_raw()).collect(),
                w.archetype::<$A>().iter_destroyed().map(|e| e.to_raw()).collect(),
            )
        }
        #[cfg(not(feature = "events"))]
        pub fn events(_w: &$W) -> (Vec<Raw>, Vec<Raw>) {
            (Vec::new(), Vec::new())
        }
        #[cfg(feature = "events")]
        pub fn clear_events(w: &mut $W) {
            w.$f.clear_events();
        }
        #[cfg(not(feature = "events"))]
        pub fn clear_events(_w: &mut $W) {}

        pub fn typed_roundtrip(raw: Raw) -> TypedConv {
            let a = any(raw);
            let tf = Entity::<$A>::try_from(a);
            let from_any = $crate::util::catch(|| Entity::<$A>::from_any(a).into_any().raw());
            let mut ref_views_ok = true;
            let mut hash_agrees = true;
            let mut eq_reflexive = true;
            let mut typed_arch_id = None;
            if let Ok(mut t) = tf {
                typed_arch_id = Some(t.archetype_id());
                {
                    let r: &EntityAny = (&t).into();
                    ref_views_ok &= r.raw() == raw;
                }
                {
                    let r: &mut EntityAny = (&mut t).into();
                    ref_views_ok &= r.raw() == raw;
                }
                hash_agrees = hash2(&t) == hash2(&a);
                let t2: Entity<$A> = t;
                eq_reflexive = t == t2 && EntityAny::from(t) == a && t.clone() == t;
                // the generated dispatch enums built FROM a typed handle name this archetype
                let sel_ok = SelectArchetype::from(t).archetype_id() == <$A as Archetype>::ARCHETYPE_ID
                    && matches!(SelectEntity::from(t), SelectEntity::$A(e) if e == t)
                    && matches!(SelectEntity::from(&t), SelectEntity::$A(e) if e == t);
                ref_views_ok &= sel_ok;
            }
            TypedConv {
                try_from: tf.ok().map(|t| t.into_any().raw()),
                from_any,
                typed_arch_id,
                ref_views_ok,
                hash_agrees,
                eq_reflexive,
            }
        }

        pub fn typed_direct_roundtrip(d: EntityDirectAny) -> TypedConvD {
            let tf = EntityDirect::<$A>::try_from(d);
            let from_any = $crate::util::catch(|| EntityDirect::<$A>::from_any(d).into_any());
            let mut ref_views_ok = true;
            let mut hash_agrees = true;
            let mut typed_arch_id = None;
            if let Ok(mut t) = tf {
                typed_arch_id = Some(t.archetype_id());
                {
                    let r: &EntityDirectAny = (&t).into();
                    ref_views_ok &= *r == d;
                }
                {
                    let r: &mut EntityDirectAny = (&mut t).into();
                    ref_views_ok &= *r == d;
                }
                hash_agrees = hash2(&t) == hash2(&d);
                ref_views_ok &= EntityDirectAny::from(t) == d && t.clone() == t;
                ref_views_ok &= SelectArchetype::from(t).archetype_id() == <$A as Archetype>::ARCHETYPE_ID
                    && matches!(SelectEntityDirect::from(t), SelectEntityDirect::$A(e) if e == t)
                    && matches!(SelectEntityDirect::from(&t), SelectEntityDirect::$A(e) if e == t);
            }
            TypedConvD { try_from: tf.ok().map(|t| t.into_any()), from_any, typed_arch_id, ref_views_ok, hash_agrees }
        }
    };
}

/// Generates `impl WorldDriver for $W` by dispatching on the archetype index to the modules
/// produced by `arch_driver!`. The cross-archetype query functions `xiterate` / `xiter_destroy`
/// / `xqueries`, and `construct`, are world specific and passed in as paths.
#[macro_export]
macro_rules! world_driver {
    ($W:ident, $name:expr, [$( ($i:expr, $m:ident, $A:ident) ),+ $(,)?], $construct:path, $xqueries:path, $xiterate:path, $xiter_destroy:path) => {
        impl $crate::driver::WorldDriver for $W {
            const NAME: &'static str = $name;
            fn archs() -> Vec<$crate::types::ArchInfo> { vec![$( $m::info() ),+] }
            fn xqueries() -> Vec<$crate::types::XQuery> { $xqueries() }
            fn construct(ctor: $crate::types::Ctor, caps: &[usize]) -> Self { $construct(ctor, caps) }
            fn clone_world(&self) -> Self { self.clone() }
            fn clone_from_world(&mut self, src: &Self) { self.clone_from(src) }

            fn len(&self, a: usize) -> usize { match a { $( $i => $m::len(self), )+ _ => unreachable!() } }
            fn capacity(&self, a: usize) -> usize { match a { $( $i => $m::capacity(self), )+ _ => unreachable!() } }
            fn is_empty(&self, a: usize) -> bool { match a { $( $i => $m::is_empty(self), )+ _ => unreachable!() } }
            fn arch_version(&self, a: usize) -> $crate::driver::ArchetypeVersion { match a { $( $i => $m::arch_version(self), )+ _ => unreachable!() } }

            fn create(&mut self, a: usize, path: $crate::types::CreatePath, vals: &[u64]) -> $crate::types::CreateOut {
                match a { $( $i => $m::create(self, path, vals), )+ _ => unreachable!() }
            }
            fn destroy(&mut self, a: usize, level: $crate::types::Level, key: $crate::types::Key) -> Option<$crate::types::DestroyOut> {
                match a { $( $i => $m::destroy(self, level, key), )+ _ => unreachable!() }
            }
            fn lookup(&mut self, a: usize, path: $crate::types::LookupPath, key: $crate::types::Key) -> Option<$crate::types::Obs> {
                match a { $( $i => $m::lookup(self, path, key), )+ _ => unreachable!() }
            }
            fn write(&mut self, a: usize, path: $crate::types::WritePath, key: $crate::types::Key, col: usize, val: u64) -> bool {
                match a { $( $i => $m::write(self, path, key, col, val), )+ _ => unreachable!() }
            }
            fn iterate(&mut self, a: usize, path: $crate::types::IterPath, break_at: Option<usize>) -> Vec<$crate::types::Obs> {
                match a { $( $i => $m::iterate(self, path, break_at), )+ _ => unreachable!() }
            }
            fn iter_destroy(&mut self, a: usize, variant: $crate::types::DestroyIterVariant, decide: &mut dyn FnMut(&$crate::types::Obs) -> $crate::types::Step) {
                match a { $( $i => $m::iter_destroy(self, variant, decide), )+ _ => unreachable!() }
            }
            fn xiterate(&mut self, q: usize, borrow: bool, break_at: Option<usize>) -> Vec<$crate::types::Obs> { $xiterate(self, q, borrow, break_at) }
            fn xiter_destroy(&mut self, q: usize, decide: &mut dyn FnMut(&$crate::types::Obs) -> $crate::types::Step) { $xiter_destroy(self, q, decide) }

            fn baccess(&self, acc: &$crate::types::BAccess, body: &mut dyn FnMut($crate::types::BObs)) {
                if acc.kind == $crate::types::BKind::CloneWorld {
                    let c = self.clone();
                    drop(c);
                    body($crate::types::BObs::default());
                    return;
                }
                if acc.kind == $crate::types::BKind::CloneFromWorld {
                    let n = <Self as $crate::driver::WorldDriver>::archs().len();
                    let caps: Vec<usize> = (0..n).map(|a| <Self as $crate::driver::WorldDriver>::capacity(self, a)).collect();
                    let mut dst = <Self as $crate::driver::WorldDriver>::construct($crate::types::Ctor::WithCapacity, &caps);
                    dst.clone_from(self);
                    drop(dst);
                    body($crate::types::BObs::default());
                    return;
                }
                match acc.arch { $( $i => $m::baccess(self, acc, body), )+ _ => unreachable!() }
            }
            fn find_alternating(w1: &mut Self, w2: &mut Self, a: usize, borrow: bool, key: $crate::types::Key) -> (Option<$crate::types::Obs>, usize) {
                match a { $( $i => $m::find_alternating(w1, w2, borrow, key), )+ _ => unreachable!() }
            }
            fn leak_guard(&self, a: usize, col: usize, mutable: bool) { match a { $( $i => $m::leak_guard(self, col, mutable), )+ _ => unreachable!() } }
            fn reentrant_clone(&self, a: usize, world_level: bool, hook: &mut dyn FnMut()) { match a { $( $i => $m::reentrant_clone(self, world_level, hook), )+ _ => unreachable!() } }
            fn dump(&self, a: usize) -> $crate::types::VerifDump { match a { $( $i => $m::dump(self), )+ _ => unreachable!() } }
            fn preset(&mut self, a: usize, slot_gens: &[u32], arch_gen: u32) { match a { $( $i => $m::preset(self, slot_gens, arch_gen), )+ _ => unreachable!() } }
            fn new_direct(a: usize, idx: usize, version: $crate::driver::ArchetypeVersion) -> EntityDirectAny {
                match a { $( $i => $m::new_direct(idx, version), )+ _ => unreachable!() }
            }

            fn events(&self, a: usize) -> (Vec<$crate::types::Raw>, Vec<$crate::types::Raw>) { match a { $( $i => $m::events(self), )+ _ => unreachable!() } }
            #[cfg(feature = "events")]
            fn world_events(&self) -> (Vec<$crate::types::Raw>, Vec<$crate::types::Raw>, Option<String>) {
                let (c, e1) = $crate::util::drain_exact(self.iter_created());
                let (d, e2) = $crate::util::drain_exact(self.iter_destroyed());
                let e3 = $crate::util::adaptors_agree(|| self.iter_created(), &c);
                let e4 = $crate::util::adaptors_agree(|| self.iter_destroyed(), &d);
                (c, d, e1.or(e2).or(e3).or(e4))
            }
            #[cfg(not(feature = "events"))]
            fn world_events(&self) -> (Vec<$crate::types::Raw>, Vec<$crate::types::Raw>, Option<String>) { (Vec::new(), Vec::new(), None) }
            #[cfg(feature = "events")]
            fn clear_events(&mut self, a: Option<usize>) {
                match a { None => World::clear_events(self), $( Some($i) => $m::clear_events(self), )+ _ => unreachable!() }
            }
            #[cfg(not(feature = "events"))]
            fn clear_events(&mut self, _a: Option<usize>) {}

            fn select_archetype_from_id(id: u8) -> Option<u8> {
                SelectArchetype::try_from(id).ok().map(|s| s.archetype_id())
            }
            fn select_archetype_from_any(raw: $crate::types::Raw) -> Option<u8> {
                SelectArchetype::try_from($crate::types::any(raw)).ok().map(|s| s.archetype_id())
            }
            fn select_entity(raw: $crate::types::Raw) -> Option<(u8, $crate::types::Raw)> {
                match SelectEntity::try_from($crate::types::any(raw)) {
                    $( Ok(SelectEntity::$A(e)) => Some((<$A as Archetype>::ARCHETYPE_ID, e.into_any().raw())), )+
                    Err(_) => None,
                }
            }
            fn select_direct(d: EntityDirectAny) -> Option<(u8, EntityDirectAny)> {
                match SelectEntityDirect::try_from(d) {
                    $( Ok(SelectEntityDirect::$A(e)) => Some((<$A as Archetype>::ARCHETYPE_ID, e.into_any())), )+
                    Err(_) => None,
                }
            }
            fn select_archetype_from_direct(d: EntityDirectAny) -> Option<u8> {
                // SelectArchetype has no TryFrom<EntityDirectAny>; go through the typed form
                match SelectEntityDirect::try_from(d) {
                    $( Ok(SelectEntityDirect::$A(e)) => Some(SelectArchetype::from(e).archetype_id()), )+
                    Err(_) => None,
                }
            }
            fn select_error_variants(id: u8, raw: $crate::types::Raw) -> Option<String> {
                use gecs::error::EcsError;
                if let Err(e) = SelectArchetype::try_from(id) {
                    if e != EcsError::InvalidEntityType { return Some(format!("SelectArchetype::try_from({}u8) fails with {:?}", id, e)); }
                }
                if let Err(e) = SelectArchetype::try_from($crate::types::any(raw)) {
                    if e != EcsError::InvalidEntityType { return Some(format!("SelectArchetype::try_from(EntityAny {:?}) fails with {:?}", raw, e)); }
                }
                if let Err(e) = SelectEntity::try_from($crate::types::any(raw)) {
                    if e != EcsError::InvalidEntityType { return Some(format!("SelectEntity::try_from({:?}) fails with {:?}", raw, e)); }
                }
                None
            }
            fn typed_roundtrip(a: usize, raw: $crate::types::Raw) -> $crate::driver::TypedConv {
                match a { $( $i => $m::typed_roundtrip(raw), )+ _ => unreachable!() }
            }
            fn typed_direct_roundtrip(a: usize, d: EntityDirectAny) -> $crate::driver::TypedConvD {
                match a { $( $i => $m::typed_direct_roundtrip(d), )+ _ => unreachable!() }
            }
        }
    };
}
