//! C12 (and C10): the 2^24 entities-per-archetype limit, reached by `with_capacity` and by growth.

use crate::driver::WorldDriver;
use crate::probe::rep_invariant;
use crate::types::*;
use crate::util::catch;

pub const LIMIT: usize = 1 << 24;

pub struct BoundaryStats {
    pub creates: u64,
    pub growth_events: u32,
    pub checks: u64,
}

/// Fills archetype `a` (preferably a zero-sized one) up to the limit starting from
/// `with_capacity(start_cap)` and checks the documented behaviour at the limit.
pub fn run<W: WorldDriver>(a: usize, start_cap: usize) -> Result<BoundaryStats, String> {
    crate::comps::reg_reset();
    crate::comps::suspend();
    let infos = W::archs();
    let n = infos.len();
    let name = infos[a].name;
    let ncols = infos[a].ncols();
    let mut caps = vec![0usize; n];
    caps[a] = start_cap;
    let mut st = BoundaryStats { creates: 0, growth_events: 0, checks: 0 };
    let mut w = catch(|| W::construct(if start_cap == 0 { Ctor::New } else { Ctor::WithCapacity }, &caps)).map_err(|m| format!("with_capacity({}) panicked: {}", start_cap, m))?;
    let mut cap = W::capacity(&w, a);
    if cap < start_cap || W::len(&w, a) != 0 {
        return Err(format!("with_capacity({}) gives capacity {} len {}", start_cap, cap, W::len(&w, a)));
    }
    let vals: Vec<u64> = vec![0x51; ncols];
    let masked: Vec<u64> = vals.iter().zip(infos[a].masks.iter()).map(|(v, m)| v & m).collect();
    let mut seen = vec![0u64; LIMIT / 64];
    let mut samples: Vec<Raw> = Vec::new();
    let mut len = 0usize;
    while len < LIMIT {
        let r = catch(|| W::create(&mut w, a, CreatePath::ACreate, &vals));
        let raw = match r {
            Ok(CreateOut::Created { raw, .. }) => raw,
            Ok(_) => return Err("harness bug: create reported Full".into()),
            Err(m) => {
                let still = catch(|| samples.iter().all(|s| W::lookup(&mut w, a, LookupPath::AContains, Key::Ent(*s)).is_some())).unwrap_or(false);
                // C10's part: whatever made it panic, the world must be as it was before the call
                // (the entity fully absent: len() unchanged, the entity list as long as before)
                let len_now = catch(|| W::len(&w, a)).unwrap_or(usize::MAX);
                let listed = catch(|| W::iterate(&mut w, a, IterPath::Entities, None).len()).unwrap_or(usize::MAX);
                let state = if len_now == len && listed == len && still {
                    "the world is as before the call".to_string()
                } else {
                    format!("state inconsistent after the panic: len() {} and {} listed entities with {} live entities, earlier handles resolve: {}", len_now, listed, len, still)
                };
                return Err(format!("create on {} panicked with only {} < 16777216 entities (capacity {}): {}; {}", name, len, cap, m, state));
            }
        };
        len += 1;
        st.creates += 1;
        let slot = raw_slot(raw) as usize;
        if raw_arch_id(raw) != infos[a].id || slot >= LIMIT {
            return Err(format!("create #{} on {} returned unexpected handle {:?}", len, name, raw));
        }
        if seen[slot / 64] & (1 << (slot % 64)) != 0 {
            return Err(format!("create #{} on {} returned handle {:?} whose slot was already issued", len, name, raw));
        }
        seen[slot / 64] |= 1 << (slot % 64);
        if len % (1 << 20) == 1 || len + 4 > LIMIT || len < 4 {
            samples.push(raw);
        }
        // capacity laws at the growth points and regularly in between
        if len > cap || len % 65536 == 0 || len + 2 > LIMIT {
            let c2 = W::capacity(&w, a);
            st.checks += 1;
            if c2 < len || c2 < cap || c2 > LIMIT || W::len(&w, a) != len {
                return Err(format!("after {} creations on {}: len() {} capacity() {} (previous capacity {})", len, name, W::len(&w, a), c2, cap));
            }
            if c2 != cap {
                st.growth_events += 1;
                cap = c2;
            }
        }
    }
    if W::capacity(&w, a) != LIMIT {
        return Err(format!("{} holds 16777216 entities but capacity() is {}", name, W::capacity(&w, a)));
    }
    // at the limit: create_within_capacity refuses, create panics with the documented message
    match catch(|| W::create(&mut w, a, CreatePath::ACreateWithin, &vals)) {
        Ok(CreateOut::Full { vals: back, .. }) if back == masked => {}
        other => return Err(format!("create_within_capacity at the limit: {:?}", other.map(|o| format!("{:?}", o)))),
    }
    let check_intact = |w: &mut W, samples: &Vec<Raw>, what: &str| -> Result<(), String> {
        if W::len(w, a) != LIMIT || W::capacity(w, a) != LIMIT {
            return Err(format!("{}: len() {} capacity() {}", what, W::len(w, a), W::capacity(w, a)));
        }
        for (i, s) in samples.iter().enumerate() {
            // every accessor family must work on a full-at-the-limit archetype (views, whole-archetype
            // slices as used by ecs_iter!, single slices, runtime borrows)
            let paths: &[LookupPath] = if i < 3 { &[LookupPath::AView, LookupPath::AResolveAllSlices, LookupPath::AResolveSlices, LookupPath::AResolveBorrowSlices, LookupPath::ABorrow, LookupPath::Find] } else { &[LookupPath::AView] };
            for p in paths {
                match catch(|| W::lookup(w, a, *p, Key::Any(*s))) {
                    Ok(Some(o)) if o.raw == Some(*s) && o.vals == masked => {}
                    other => return Err(format!("{}: {:?} of handle {:?} no longer yields its entity: {:?}", what, p, s, other)),
                }
            }
        }
        Ok(())
    };
    check_intact(&mut w, &samples, "with exactly 16777216 entities")?;
    for round in 0..2 {
        match catch(|| W::create(&mut w, a, CreatePath::WCreate, &vals)) {
            Err(m) if m.contains("capacity overflow") => {}
            Err(m) => return Err(format!("create at the limit panicked with an undocumented message: {}", m)),
            Ok(o) => return Err(format!("create at the limit (16777216 entities) did not panic: {:?}", o)),
        }
        check_intact(&mut w, &samples, "after the caught 'capacity overflow' panic")?;
        if round == 0 {
            // every freed position is reusable, also at the limit
            let victim = samples[samples.len() / 2];
            match catch(|| W::destroy(&mut w, a, Level::World, Key::Any(victim))) {
                Ok(Some(_)) => {}
                other => return Err(format!("destroy at the limit failed: {:?}", other.map(|o| o.is_some()))),
            }
            if W::len(&w, a) != LIMIT - 1 {
                return Err(format!("len() after one destroy at the limit is {}", W::len(&w, a)));
            }
            match catch(|| W::create(&mut w, a, CreatePath::WCreateWithin, &vals)) {
                Ok(CreateOut::Created { raw, .. }) => {
                    // the only free position must be reused, under a handle different from the old one
                    if raw_slot(raw) != raw_slot(victim) || raw == victim {
                        return Err(format!("the position freed at the limit was not reused: destroyed {:?}, created {:?}", victim, raw));
                    }
                    if W::lookup(&mut w, a, LookupPath::AContains, Key::Any(victim)).is_some() {
                        return Err("stale handle accepted at the limit".into());
                    }
                    let i = samples.iter().position(|s| *s == victim).unwrap();
                    samples[i] = raw;
                }
                other => return Err(format!("create_within_capacity after a destroy at the limit: {:?}", other.map(|o| format!("{:?}", o)))),
            }
        }
    }
    let d = W::dump(&w, a);
    rep_invariant(&d, infos[a].id).map_err(|m| format!("representation invariant at the limit: {}", m))?;
    drop(d);
    // a world at the limit can be cloned like any other (C13: same len and capacity, same handles)
    match catch(|| W::clone_world(&w)) {
        Ok(mut c) => {
            check_intact(&mut c, &samples, "in a clone of the world holding 16777216 entities")?;
            let mut c2 = W::construct(Ctor::New, &vec![0usize; infos.len()]);
            match catch(|| W::clone_from_world(&mut c2, &w)) {
                Ok(()) => check_intact(&mut c2, &samples, "after clone_from of the world holding 16777216 entities")?,
                Err(m) => return Err(format!("clone_from of a world at the capacity limit panicked: {}", m)),
            }
            drop(c2);
            drop(c);
        }
        Err(m) => return Err(format!("cloning a world at the capacity limit panicked: {}", m)),
    }
    drop(w);
    Ok(st)
}

/// `with_capacity(2^24)` is the largest accepted request.
pub fn with_capacity_limit<W: WorldDriver>(a: usize) -> Result<(), String> {
    let n = W::archs().len();
    let mut caps = vec![0usize; n];
    caps[a] = LIMIT;
    let w = catch(|| W::construct(Ctor::WithCapacity, &caps)).map_err(|m| format!("with_capacity(2^24) panicked: {}", m))?;
    if W::capacity(&w, a) != LIMIT || W::len(&w, a) != 0 || !W::is_empty(&w, a) {
        return Err(format!("with_capacity(2^24): capacity {} len {}", W::capacity(&w, a), W::len(&w, a)));
    }
    drop(w);
    caps[a] = LIMIT + 1;
    match catch(|| W::construct(Ctor::WithCapacity, &caps)) {
        Err(m) if m.contains("capacity may not exceed") => Ok(()),
        Err(m) => Err(format!("with_capacity(2^24 + 1) panicked with an undocumented message: {}", m)),
        Ok(_) => Err("with_capacity(2^24 + 1) did not panic".into()),
    }
}
