//! Neutral value types exchanged between the interpreter and the per-world drivers.

use gecs::prelude::*;

use crate::comps::Stamp;

/// `EntityAny::raw()`: `(slot_index << 8 | archetype_id, generation)`.
pub type Raw = (u32, u32);

#[inline]
pub fn any(raw: Raw) -> EntityAny {
    EntityAny::from_raw(raw).expect("harness only builds handles with non-zero generation")
}

#[inline]
pub fn raw_arch_id(raw: Raw) -> u8 {
    raw.0 as u8
}

#[inline]
pub fn raw_slot(raw: Raw) -> u32 {
    raw.0 >> 8
}

/// A lookup key in one of the four key kinds (plus the unchecked conversions used for forging).
#[derive(Clone, Copy, Debug, PartialEq)]
pub enum Key {
    /// `Entity<A>` built with the checked `from_any`
    Ent(Raw),
    /// `Entity<A>` built with `from_any_unchecked` (the archetype byte may be foreign)
    EntU(Raw),
    /// `EntityAny`
    Any(Raw),
    /// `EntityDirect<A>` built with the checked `from_any`
    Dir(EntityDirectAny),
    /// `EntityDirect<A>` built with `from_any_unchecked`
    DirU(EntityDirectAny),
    /// `EntityDirectAny`
    DirAny(EntityDirectAny),
}

impl Key {
    pub fn kind_name(&self) -> &'static str {
        match self {
            Key::Ent(_) => "Entity<A>",
            Key::EntU(_) => "Entity<A>(unchecked)",
            Key::Any(_) => "EntityAny",
            Key::Dir(_) => "EntityDirect<A>",
            Key::DirU(_) => "EntityDirect<A>(unchecked)",
            Key::DirAny(_) => "EntityDirectAny",
        }
    }
    pub fn is_direct(&self) -> bool {
        matches!(self, Key::Dir(_) | Key::DirU(_) | Key::DirAny(_))
    }
    pub fn is_typed(&self) -> bool {
        matches!(self, Key::Ent(_) | Key::EntU(_) | Key::Dir(_) | Key::DirU(_))
    }
}

/// One observation of an entity through some access path.
#[derive(Clone, Debug, Default, PartialEq)]
pub struct Obs {
    /// handle read back through the path (if the path exposes one)
    pub raw: Option<Raw>,
    /// stamps read, in column order of the archetype (or parameter order for cross queries)
    pub vals: Vec<u64>,
    /// registry ids read (0 for untracked columns), parallel to `vals`
    pub trk: Vec<u64>,
    /// direct handle handed out by the path (if any)
    pub direct: Option<EntityDirectAny>,
    /// dense index reported by the path (if any)
    pub index: Option<usize>,
}

impl Obs {
    #[inline]
    pub fn bare() -> Self {
        Obs::default()
    }
    #[inline]
    pub fn of(raw: Raw) -> Self {
        Obs { raw: Some(raw), ..Default::default() }
    }
    #[inline]
    pub fn push<S: Stamp>(&mut self, s: &S) {
        self.vals.push(s.get());
        self.trk.push(s.trk());
    }
    #[inline]
    pub fn with_direct(mut self, d: EntityDirectAny) -> Self {
        self.direct = Some(d);
        self
    }
    #[inline]
    pub fn with_index(mut self, i: usize) -> Self {
        self.index = Some(i);
        self
    }
}

macro_rules! path_enum {
    ($name:ident { $($v:ident),+ $(,)? }) => {
        #[derive(Clone, Copy, Debug, PartialEq, Eq, PartialOrd, Ord, Hash)]
        pub enum $name { $($v),+ }
        impl $name {
            pub const ALL: &'static [$name] = &[$($name::$v),+];
            pub fn name(&self) -> &'static str { match self { $($name::$v => stringify!($v)),+ } }
            pub fn from_name(s: &str) -> Option<Self> { match s { $(stringify!($v) => Some($name::$v),)+ _ => None } }
            pub fn pick(i: usize) -> Self { Self::ALL[i % Self::ALL.len()] }
        }
    };
}

path_enum!(CreatePath { WCreate, ACreate, WCreateWithin, ACreateWithin });

impl CreatePath {
    pub fn within(&self) -> bool {
        matches!(self, CreatePath::WCreateWithin | CreatePath::ACreateWithin)
    }
}

path_enum!(Level { World, Arch });

path_enum!(LookupPath {
    WContains,
    AContains,
    WToDirect,
    AToDirect,
    AResolve,
    AResolveSlices,
    AResolveBorrowSlices,
    AResolveAllSlices,
    AView,
    AViewComp,
    WView,
    ABorrow,
    WBorrow,
    Find,
    FindAny,
    FindWild,
    FindBorrow,
    FindBorrowAny,
    FindBorrowWild,
});

impl LookupPath {
    /// World-level `view`/`borrow` only accept typed keys.
    pub fn typed_only(&self) -> bool {
        matches!(self, LookupPath::WView | LookupPath::WBorrow)
    }
    /// Whether an accepted lookup reads all components (and the handle) back.
    pub fn reads_values(&self) -> bool {
        !matches!(
            self,
            LookupPath::WContains | LookupPath::AContains | LookupPath::WToDirect | LookupPath::AToDirect | LookupPath::AResolve
        )
    }
}

path_enum!(WritePath {
    Find,
    FindBorrow,
    AViewField,
    AViewCompMut,
    WViewCompMut,
    ABorrowCompMut,
    WBorrowCompMut,
    AResolveSliceMut,
    AResolveBorrowSliceMut,
    AResolveAllSlices,
    IterMut,
    EcsIter,
    EcsIterBorrow,
});

impl WritePath {
    pub fn typed_only(&self) -> bool {
        matches!(self, WritePath::WViewCompMut | WritePath::WBorrowCompMut)
    }
    /// Paths that find their target by scanning for a handle (need an `Entity`/`EntityAny` key).
    pub fn by_scan(&self) -> bool {
        matches!(self, WritePath::IterMut | WritePath::EcsIter | WritePath::EcsIterBorrow)
    }
}

path_enum!(IterPath {
    EcsIter,
    EcsIterAny,
    EcsIterWild,
    EcsIterBorrow,
    EcsIterBorrowAny,
    EcsIterBorrowWild,
    ArchIter,
    ArchIterMut,
    Entities,
    Slices,
    SlicesMut,
    BorrowSlices,
    BorrowSlicesMut,
    AllSlices,
    ArchIterSkip,
    ArchIterStepBy,
    ArchIterMutNth,
    ArchIterCount,
});

impl IterPath {
    pub fn supports_break(&self) -> bool {
        matches!(
            self,
            IterPath::EcsIter
                | IterPath::EcsIterAny
                | IterPath::EcsIterWild
                | IterPath::EcsIterBorrow
                | IterPath::EcsIterBorrowAny
                | IterPath::EcsIterBorrowWild
        )
    }
    pub fn reads_values(&self) -> bool {
        !matches!(self, IterPath::Entities)
    }
    pub fn hands_direct(&self) -> bool {
        self.supports_break()
    }
    /// Paths that consume `Archetype::iter(_mut)` through an iterator adaptor with parameter k.
    pub fn adaptor(&self) -> bool {
        matches!(self, IterPath::ArchIterSkip | IterPath::ArchIterStepBy | IterPath::ArchIterMutNth | IterPath::ArchIterCount)
    }
    /// Number of items the path must yield for `n` live entities and adaptor parameter `k`.
    pub fn expected_items(&self, n: usize, k: usize) -> usize {
        match self {
            IterPath::ArchIterSkip => n.saturating_sub(k),
            IterPath::ArchIterStepBy => (n + k.max(1) - 1) / k.max(1),
            // nth(k) then the rest
            IterPath::ArchIterMutNth => n.saturating_sub(k),
            _ => n,
        }
    }
}

path_enum!(DestroyIterVariant { Typed, Any, Wild, Mut, ViaStep });

/// Decision returned by an `ecs_iter_destroy!` closure.
#[derive(Clone, Copy, Debug, PartialEq, Eq, PartialOrd, Ord, Hash)]
pub enum Step {
    Continue,
    Break,
    ContinueDestroy,
    BreakDestroy,
}

impl Step {
    pub fn from_u8(v: u8) -> Step {
        match v % 4 {
            0 => Step::Continue,
            1 => Step::ContinueDestroy,
            2 => Step::Break,
            _ => Step::BreakDestroy,
        }
    }
    pub fn is_destroy(&self) -> bool {
        matches!(self, Step::ContinueDestroy | Step::BreakDestroy)
    }
    pub fn is_break(&self) -> bool {
        matches!(self, Step::Break | Step::BreakDestroy)
    }
    /// The same decision expressed through the documented conversions: `EcsStep -> EcsStepDestroy`
    /// for the two-valued answers and `()` for "continue".
    pub fn to_gecs_via_conversions(self, unit_for_continue: bool) -> EcsStepDestroy {
        match self {
            Step::Continue if unit_for_continue => ().into(),
            Step::Continue => EcsStep::Continue.into(),
            Step::Break => EcsStep::Break.into(),
            Step::ContinueDestroy => EcsStepDestroy::ContinueDestroy,
            Step::BreakDestroy => EcsStepDestroy::BreakDestroy,
        }
    }

    pub fn to_gecs(self) -> EcsStepDestroy {
        match self {
            Step::Continue => EcsStepDestroy::Continue,
            Step::Break => EcsStepDestroy::Break,
            Step::ContinueDestroy => EcsStepDestroy::ContinueDestroy,
            Step::BreakDestroy => EcsStepDestroy::BreakDestroy,
        }
    }
}

/// Result of a create call.
#[derive(Clone, Debug, PartialEq)]
pub enum CreateOut {
    /// handle issued, registry ids of the components moved in
    Created { raw: Raw, trk: Vec<u64> },
    /// `create_within_capacity` refused: the components handed back
    Full { vals: Vec<u64>, trk: Vec<u64>, given_trk: Vec<u64> },
}

/// Result of a destroy call that was accepted.
#[derive(Clone, Debug, PartialEq)]
pub struct DestroyOut {
    /// components handed back (None for `Option<()>` results of dynamic keys at world level)
    pub comps: Option<(Vec<u64>, Vec<u64>)>,
}

/// How the world under test is constructed.
#[derive(Clone, Copy, Debug, PartialEq, Eq)]
pub enum Ctor {
    New,
    Default,
    WithCapacity,
}

/// Static description of one archetype of a world under test.
#[derive(Clone, Debug)]
pub struct ArchInfo {
    pub name: &'static str,
    pub id: u8,
    pub masks: Vec<u64>,
    pub tracked: Vec<bool>,
    pub col_names: Vec<&'static str>,
    /// number of zero-sized tracked columns (Ztrk)
    pub zst_tracked: usize,
    /// number of `Tok` columns (no drop glue, observable Clone)
    pub tok_cols: usize,
}

impl ArchInfo {
    pub fn ncols(&self) -> usize {
        self.masks.len()
    }
}

/// Static description of a cross-archetype query offered by a world driver.
#[derive(Clone, Debug)]
pub struct XQuery {
    pub text: &'static str,
    /// (archetype index, columns bound in parameter order)
    pub matches: Vec<(usize, Vec<usize>)>,
    pub hands_direct: bool,
}

/// Copy of a storage's bookkeeping (from the `gecs_verif` hook).
pub use gecs::__internal::VerifDump;

/// Engine B (C11): one runtime-borrowed access.
#[derive(Clone, Copy, Debug, PartialEq, Eq, Hash, PartialOrd, Ord)]
pub enum BKind {
    FindBorrowS,
    FindBorrowM,
    IterBorrowS,
    IterBorrowM,
    CompS,
    CompM,
    SliceS,
    SliceM,
    CloneWorld,
    /// the same accesses with the component named through `OneOf<C, Nope>`
    FindBorrowOneOfS,
    FindBorrowOneOfM,
    IterBorrowOneOfS,
    IterBorrowOneOfM,
    /// the component parameter is literally named `_` (it still declares an access)
    FindBorrowAnonS,
    FindBorrowAnonM,
    IterBorrowAnonM,
    /// `ecs_iter_borrow!` WITHOUT an `Entity<A>` parameter: the query matches every archetype
    /// holding the component; the nested accesses run while an entity of this archetype is visited
    /// (only used as the outermost access of a nesting)
    IterBorrowCrossS,
    IterBorrowCrossM,
    /// `dst.clone_from(&world)` into a fresh world of the same capacities (world level)
    CloneFromWorld,
    /// `world.arch.clone()` (one archetype: only ITS columns matter)
    CloneArch,
    /// `dst_arch.clone_from(&world.arch)` into a fresh archetype of the same capacity
    CloneFromArch,
    /// `ecs_find_borrow!` keyed by a direct handle (minted right before, which takes no runtime
    /// borrow): typed `EntityDirect<A>` for the shared, `EntityDirectAny` for the mutable flavour
    FindBorrowDirectS,
    FindBorrowDirectM,
}

impl BKind {
    pub const ALL: [BKind; 23] = [
        BKind::FindBorrowS,
        BKind::FindBorrowM,
        BKind::IterBorrowS,
        BKind::IterBorrowM,
        BKind::CompS,
        BKind::CompM,
        BKind::SliceS,
        BKind::SliceM,
        BKind::CloneWorld,
        BKind::FindBorrowOneOfS,
        BKind::FindBorrowOneOfM,
        BKind::IterBorrowOneOfS,
        BKind::IterBorrowOneOfM,
        BKind::FindBorrowAnonS,
        BKind::FindBorrowAnonM,
        BKind::IterBorrowAnonM,
        BKind::IterBorrowCrossS,
        BKind::IterBorrowCrossM,
        BKind::CloneFromWorld,
        BKind::CloneArch,
        BKind::CloneFromArch,
        BKind::FindBorrowDirectS,
        BKind::FindBorrowDirectM,
    ];
    /// clone-like accesses: they read every column (of the world / of one archetype) and are
    /// refused exactly while one of those columns is mutably borrowed
    pub fn is_clone(&self) -> bool {
        matches!(self, BKind::CloneWorld | BKind::CloneFromWorld | BKind::CloneArch | BKind::CloneFromArch)
    }
    pub fn clone_is_world_level(&self) -> bool {
        matches!(self, BKind::CloneWorld | BKind::CloneFromWorld)
    }
    pub fn mutable(&self) -> bool {
        matches!(self, BKind::FindBorrowM | BKind::IterBorrowM | BKind::CompM | BKind::SliceM | BKind::FindBorrowOneOfM | BKind::IterBorrowOneOfM | BKind::FindBorrowAnonM | BKind::IterBorrowAnonM | BKind::IterBorrowCrossM | BKind::FindBorrowDirectM)
    }
    /// The access observes (and, if mutable, overwrites) the component value.
    pub fn reads_value(&self) -> bool {
        !matches!(self, BKind::FindBorrowAnonS | BKind::FindBorrowAnonM | BKind::IterBorrowAnonM)
    }
    pub fn is_cross(&self) -> bool {
        matches!(self, BKind::IterBorrowCrossS | BKind::IterBorrowCrossM)
    }
    pub fn needs_entity(&self) -> bool {
        matches!(self, BKind::FindBorrowS | BKind::FindBorrowM | BKind::CompS | BKind::CompM | BKind::FindBorrowOneOfS | BKind::FindBorrowOneOfM | BKind::FindBorrowAnonS | BKind::FindBorrowAnonM | BKind::FindBorrowDirectS | BKind::FindBorrowDirectM)
    }
    pub fn is_iter(&self) -> bool {
        matches!(self, BKind::IterBorrowS | BKind::IterBorrowM | BKind::IterBorrowOneOfS | BKind::IterBorrowOneOfM | BKind::IterBorrowAnonM | BKind::IterBorrowCrossS | BKind::IterBorrowCrossM)
    }
    pub fn name(&self) -> &'static str {
        match self {
            BKind::FindBorrowS => "find_borrow(&)",
            BKind::FindBorrowM => "find_borrow(&mut)",
            BKind::IterBorrowS => "iter_borrow(&)",
            BKind::IterBorrowM => "iter_borrow(&mut)",
            BKind::CompS => "Borrow::component",
            BKind::CompM => "Borrow::component_mut",
            BKind::SliceS => "borrow_slice",
            BKind::SliceM => "borrow_slice_mut",
            BKind::CloneWorld => "clone",
            BKind::FindBorrowOneOfS => "find_borrow(&OneOf)",
            BKind::FindBorrowOneOfM => "find_borrow(&mut OneOf)",
            BKind::IterBorrowOneOfS => "iter_borrow(&OneOf)",
            BKind::IterBorrowOneOfM => "iter_borrow(&mut OneOf)",
            BKind::FindBorrowAnonS => "find_borrow(_: &)",
            BKind::FindBorrowAnonM => "find_borrow(_: &mut)",
            BKind::IterBorrowAnonM => "iter_borrow(_: &mut)",
            BKind::IterBorrowCrossS => "iter_borrow(& , all archetypes)",
            BKind::IterBorrowCrossM => "iter_borrow(&mut , all archetypes)",
            BKind::CloneFromWorld => "clone_from",
            BKind::CloneArch => "Archetype::clone",
            BKind::CloneFromArch => "Archetype::clone_from",
            BKind::FindBorrowDirectS => "find_borrow(&, direct key)",
            BKind::FindBorrowDirectM => "find_borrow(&mut, dynamic direct key)",
        }
    }
}

#[derive(Clone, Copy, Debug, PartialEq)]
pub struct BAccess {
    pub kind: BKind,
    pub arch: usize,
    pub col: usize,
    /// entity for find_borrow / Borrow::component(_mut); may be a stale handle
    pub key: Option<Raw>,
    /// stamp written by mutable accesses (to the entity / the first visited entity / position 0)
    pub write: u64,
}

/// What an access saw when it executed: the handle it was about (if any) and the stamp(s)
/// it read before writing.
#[derive(Clone, Debug, Default, PartialEq)]
pub struct BObs {
    pub raw: Option<Raw>,
    pub vals: Vec<u64>,
}
