//! C07: exhaustive enumeration of all 4^n decision vectors (n <= max_n) of `ecs_iter_destroy!` on
//! populations produced by a small set of prior histories (fresh, churned, cross-archetype).

use crate::driver::WorldDriver;
use crate::interp::*;
use crate::ops::*;

fn unscale(i: usize, n: usize) -> u16 {
    // smallest h with (h * n) >> 16 == i
    (((i << 16) + n - 1) / n) as u16
}

fn creates(arch: u8, n: usize) -> Vec<Op> {
    (0..n).map(|_| Op::Create { sim: 0, arch, path: 0 }).collect()
}

/// (description, prefix ops, the loop op builder taking the decision word)
pub fn populations(n: usize, nxq: usize) -> Vec<(String, Vec<Op>, Vec<Box<dyn Fn(u16) -> Op>>)> {
    let mut v: Vec<(String, Vec<Op>, Vec<Box<dyn Fn(u16) -> Op>>)> = Vec::new();
    // fresh single archetype (index 3 of WMix = ArchD: tracked + zst + word; index 0 elsewhere)
    let single = |a: u8| -> Vec<Box<dyn Fn(u16) -> Op>> { (0..5u8).map(move |var| Box::new(move |seed| Op::IterDestroy { sim: 0, arch: a, variant: var, seed }) as Box<dyn Fn(u16) -> Op>).collect() };
    v.push((format!("fresh n={}", n), creates(3, n), single(3)));
    // churned: create n+2, destroy the first and a middle one, create one more (slot reuse, permuted dense order)
    if n >= 1 {
        let mut ops = creates(3, n + 1);
        ops.push(Op::Destroy { sim: 0, h: unscale(0, n + 1), kind: 0, level: 0 });
        ops.push(Op::Destroy { sim: 0, h: unscale((n + 1) / 2, n + 1), kind: 1, level: 1 });
        ops.push(Op::Create { sim: 0, arch: 3, path: 1 });
        ops.push(Op::Create { sim: 0, arch: 3, path: 0 });
        // now n + 1 live: remove one more to land at n
        ops.push(Op::Destroy { sim: 0, h: unscale(n, n + 3), kind: 0, level: 0 });
        v.push((format!("churned n={}", n), ops, single(3)));
    }
    // cross-archetype queries: the population is split over the matched archetypes
    if nxq > 0 {
        let splits: Vec<(usize, usize, usize)> = vec![(n / 3, n / 3, n - 2 * (n / 3)), (0, n, 0), (n, 0, 0), (n / 2, 0, n - n / 2)];
        for (i, (a, b, c)) in splits.into_iter().enumerate() {
            // cross query 0 of WMix: &Word over ArchA (0), ArchB (1), ArchD (3)
            let mut ops = creates(0, a);
            ops.extend(creates(1, b));
            ops.extend(creates(3, c));
            v.push((format!("cross-word split{} n={}", i, n), ops, vec![Box::new(|seed| Op::XIterDestroy { sim: 0, q: 0, seed }) as Box<dyn Fn(u16) -> Op>]));
        }
    }
    v
}

pub struct EnumResult {
    pub cases: u64,
    pub vectors: u64,
    pub nontrivial: u64,
    pub failure: Option<(Case, Fail)>,
    pub samples: Vec<String>,
}

pub fn run<W: WorldDriver>(max_n: usize) -> EnumResult {
    let narch = W::archs().len();
    let nxq = W::xqueries().len();
    let cfg = Cfg::new(Intensity::Full);
    let mut res = EnumResult { cases: 0, vectors: 0, nontrivial: 0, failure: None, samples: Vec::new() };
    for n in 0..=max_n {
        for (desc, prefix, loops) in populations(n, nxq) {
            for lp in &loops {
                for word in 0..(1u32 << (2 * n)) {
                    let mut ops = prefix.clone();
                    ops.push(lp(word as u16));
                    ops.push(Op::Probe);
                    let case = Case { world: W::NAME.to_string(), header: Header { ctor: 0, caps: vec![0; narch] }, ops };
                    let out = Session::<W>::run(&case, &cfg);
                    res.cases += 1;
                    res.vectors += 1;
                    if out.labels.contains("iter_destroy_nontrivial") {
                        res.nontrivial += 1;
                        if res.samples.len() < 2 && n == 3 {
                            res.samples.push(format!("# {}\n{}", desc, case.to_text()));
                        }
                    }
                    if let Some(f) = out.fail {
                        if f.tags.contains(&"C07") {
                            res.failure = Some((case, f));
                            return res;
                        }
                    }
                }
            }
        }
    }
    res
}
