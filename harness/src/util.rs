//! Small helpers shared by drivers and interpreter.

use std::panic::{catch_unwind, AssertUnwindSafe};

use gecs::prelude::EntityAny;

use crate::types::Raw;

/// Extracts the message of a panic payload.
pub fn panic_msg(p: Box<dyn std::any::Any + Send>) -> String {
    if let Some(s) = p.downcast_ref::<&str>() {
        s.to_string()
    } else if let Some(s) = p.downcast_ref::<String>() {
        s.clone()
    } else {
        "<non-string panic payload>".to_string()
    }
}

/// Runs `f`, turning a panic into `Err(message)`.
pub fn catch<T>(f: impl FnOnce() -> T) -> Result<T, String> {
    catch_unwind(AssertUnwindSafe(f)).map_err(panic_msg)
}

/// Silences the default panic hook (the harness catches panics on purpose, constantly).
pub fn quiet_panics() {
    std::panic::set_hook(Box::new(|_| {}));
}

/// Drains an event iterator, checking that `size_hint` is exact before every `next()` and
/// stays `(0, Some(0))` after exhaustion. Returns the items and the first inexactness found.
/// The world-level event iterators consumed through the standard adaptors (`nth`, `skip`,
/// `step_by`, `count`, `last`) must yield what plain `next()` calls yield: `plain` is the sequence
/// obtained from `next()` on an identical iterator.
pub fn adaptors_agree<'a, I: Iterator<Item = &'a EntityAny>>(mk: impl Fn() -> I, plain: &[Raw]) -> Option<String> {
    for k in 1..=3usize {
        let got: Vec<Raw> = mk().step_by(k).map(|e| e.raw()).collect();
        let want: Vec<Raw> = plain.iter().copied().step_by(k).collect();
        if got != want {
            return Some(format!("step_by({}) yields {:?}, but next() yields {:?}", k, got, plain));
        }
    }
    for k in [1usize, 2, 5] {
        let got: Vec<Raw> = mk().skip(k).map(|e| e.raw()).collect();
        let want: Vec<Raw> = plain.iter().copied().skip(k).collect();
        if got != want {
            return Some(format!("skip({}) yields {:?}, but next() yields {:?}", k, got, plain));
        }
    }
    // repeated nth with a cycling argument, until it reports the end (and once more after it)
    let mut it = mk();
    let mut pos = 0usize;
    let mut j = 0usize;
    loop {
        let n = j % 3;
        j += 1;
        let got = it.nth(n).map(|e| e.raw());
        let want = plain.get(pos + n).copied();
        if got != want {
            return Some(format!("nth({}) at position {} yields {:?}, expected {:?} (next() yields {:?})", n, pos, got, want, plain));
        }
        if got.is_none() {
            break;
        }
        pos += n + 1;
    }
    if it.next().is_some() {
        return Some("iterator yields an item after nth() returned None".into());
    }
    if mk().count() != plain.len() {
        return Some(format!("count() is {}, next() yields {} items", mk().count(), plain.len()));
    }
    if mk().last().map(|e| e.raw()) != plain.last().copied() {
        return Some("last() disagrees with next()".into());
    }
    None
}

pub fn drain_exact<'a>(mut it: impl Iterator<Item = &'a EntityAny>) -> (Vec<Raw>, Option<String>) {
    let mut out = Vec::new();
    let mut err = None;
    // first pass without consuming: the initial hint is the total
    let (lo0, hi0) = it.size_hint();
    if Some(lo0) != hi0 {
        err = Some(format!("initial size_hint not exact: ({}, {:?})", lo0, hi0));
    }
    let mut expect = lo0;
    loop {
        let (lo, hi) = it.size_hint();
        if err.is_none() && (lo != expect || hi != Some(expect)) {
            err = Some(format!(
                "size_hint ({}, {:?}) after {} items, expected exactly {} remaining",
                lo,
                hi,
                out.len(),
                expect
            ));
        }
        match it.next() {
            Some(e) => {
                out.push(e.raw());
                if expect == 0 {
                    if err.is_none() {
                        err = Some(format!("iterator yielded more items than its initial size_hint {}", lo0));
                    }
                } else {
                    expect -= 1;
                }
            }
            None => {
                if err.is_none() && expect != 0 {
                    err = Some(format!("iterator ended with {} items still promised by size_hint", expect));
                }
                break;
            }
        }
        if out.len() > (1 << 26) {
            err = Some("event iterator does not terminate".into());
            break;
        }
    }
    for _ in 0..2 {
        let (lo, hi) = it.size_hint();
        if err.is_none() && (lo != 0 || hi != Some(0)) {
            err = Some(format!("size_hint ({}, {:?}) after exhaustion", lo, hi));
        }
        if it.next().is_some() && err.is_none() {
            err = Some("iterator yielded an item after returning None".into());
        }
    }
    (out, err)
}

/// SplitMix64: the stamp function (a pure function of its inputs; not an RNG source).
#[inline]
pub fn mix(mut z: u64) -> u64 {
    z = z.wrapping_add(0x9E3779B97F4A7C15);
    z = (z ^ (z >> 30)).wrapping_mul(0xBF58476D1CE4E5B9);
    z = (z ^ (z >> 27)).wrapping_mul(0x94D049BB133111EB);
    z ^ (z >> 31)
}

/// Stamp of (entity uid, column, write number).
#[inline]
pub fn stamp(uid: u64, col: usize, write: u64) -> u64 {
    mix(uid.wrapping_mul(0x1000193) ^ ((col as u64) << 40) ^ (write << 48) ^ 0x5eed)
}

/// FNV-1a over bytes; used for case hashes in the statistics (deterministic across runs).
pub fn fnv(bytes: &[u8]) -> u64 {
    let mut h: u64 = 0xcbf29ce484222325;
    for b in bytes {
        h ^= *b as u64;
        h = h.wrapping_mul(0x100000001b3);
    }
    h
}
