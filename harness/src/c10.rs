//! C10: fault enumeration. A generated history is first run without faults while counting, per
//! op, the points at which user code is called back (query closures, `Clone::clone`,
//! `Drop::drop` of tracked components). Then it is re-run once per such point with exactly that
//! one panic injected inside `catch_unwind`, followed by the rest of the history as "arbitrary
//! further use". Documented overflow panics are reached through the preset hook by the
//! generator itself (no injection needed).

use std::collections::BTreeSet;

use proptest::collection::vec;
use proptest::prelude::*;
use proptest::test_runner::{TestCaseError, TestError, TestRunner};

use crate::comps::Site;
use crate::driver::WorldDriver;
use crate::interp::*;
use crate::ops::*;
use crate::run::{make_case, seeded_config, spec, Stats};

pub fn site_name(s: Site) -> &'static str {
    match s {
        Site::Closure => "closure",
        Site::Clone => "clone",
        Site::Drop => "drop",
    }
}

pub fn site_from(s: &str) -> Option<Site> {
    match s {
        "closure" => Some(Site::Closure),
        "clone" => Some(Site::Clone),
        "drop" => Some(Site::Drop),
        _ => None,
    }
}

pub fn inject_line(i: &Injection) -> String {
    format!("inject {} {} {}", i.op, site_name(i.site), i.k)
}

pub fn parse_inject(text: &str) -> Option<Injection> {
    for l in text.lines() {
        let l = l.split('#').next().unwrap().trim();
        if let Some(r) = l.strip_prefix("inject ") {
            let t: Vec<&str> = r.split_whitespace().collect();
            if t.len() == 3 {
                return Some(Injection { op: t[0].parse().ok()?, site: site_from(t[1])?, k: t[2].parse().ok()? });
            }
        }
    }
    None
}

/// Result of enumerating all injection points of one case.
pub struct Enumerated {
    /// number of executions (baseline + one per injection point)
    pub runs: u64,
    pub points: u64,
    pub fired: u64,
    /// (injection, labels contained "injected_fired_ge2_live")
    pub nontrivial: Vec<Injection>,
    pub baseline_nontrivial: bool,
    pub failure: Option<(Option<Injection>, Fail)>,
    pub collateral: Option<Fail>,
    pub by_site: [u64; 3],
}

/// Enumerates the injection points of `case`; stops at the first C10 failure.
/// `max_k` bounds the number of points tried per (op, site) (all of them if large enough).
pub fn enumerate<W: WorldDriver>(case: &Case, base_cfg: &Cfg, max_k: u64) -> Enumerated {
    let mut e = Enumerated { runs: 0, points: 0, fired: 0, nontrivial: Vec::new(), baseline_nontrivial: false, failure: None, collateral: None, by_site: [0; 3] };
    let mut cfg = base_cfg.clone();
    cfg.count_ticks = true;
    cfg.inject = None;
    let base = Session::<W>::run(case, &cfg);
    e.runs += 1;
    e.baseline_nontrivial = base.labels.contains("overflow_panic");
    if let Some(f) = base.fail {
        if f.tags.contains(&"C10") {
            e.failure = Some((None, f));
        } else {
            e.collateral = Some(f);
        }
        return e;
    }
    cfg.count_ticks = false;
    let sites = [Site::Closure, Site::Clone, Site::Drop];
    for (op, t) in base.ticks.iter().enumerate() {
        for (si, site) in sites.iter().enumerate() {
            let n = t[si];
            // all points when few; first, last and an even spread when many
            let ks: Vec<u64> = if n <= max_k {
                (0..n).collect()
            } else {
                let mut v: BTreeSet<u64> = BTreeSet::new();
                for j in 0..max_k {
                    v.insert(j * (n - 1) / (max_k - 1).max(1));
                }
                v.into_iter().collect()
            };
            for k in ks {
                let inj = Injection { op, site: *site, k };
                cfg.inject = Some(inj);
                let out = Session::<W>::run(case, &cfg);
                e.runs += 1;
                e.points += 1;
                e.by_site[si] += 1;
                if out.injected_fired {
                    e.fired += 1;
                    if out.labels.contains("injected_fired_ge2_live") {
                        e.nontrivial.push(inj);
                    }
                }
                if let Some(f) = out.fail {
                    if f.tags.contains(&"C10") {
                        e.failure = Some((Some(inj), f));
                        return e;
                    }
                    // the baseline passed, so a non-C10 failure here can only be a harness
                    // disagreement about the partial effect of the interrupted op
                    e.collateral = Some(f);
                }
            }
        }
    }
    e
}

pub struct C10Search {
    pub stats: Stats,
    pub runs: u64,
    pub points: u64,
    pub fired: u64,
    pub by_site: [u64; 3],
    pub nontrivial: BTreeSet<u64>,
    pub failure: Option<(Case, Option<Injection>, Fail)>,
}

pub fn search<W: WorldDriver>(cfg: &Cfg, cases: u32, max_len: usize, seed: u64, max_k: u64, last_case: Option<&str>) -> C10Search {
    let sp = spec("C10").unwrap();
    let narch = W::archs().len();
    let strategy = (vec(any::<u8>(), 1 + narch), vec(any::<Rec>(), 0..=max_len));
    let (mut config, rng) = seeded_config(cases, seed);
    config.max_shrink_iters = 300;
    let mut runner = TestRunner::new_with_rng(config, rng);
    let st = std::cell::RefCell::new((Stats::default(), 0u64, 0u64, 0u64, [0u64; 3], BTreeSet::<u64>::new()));
    let result = runner.run(&strategy, |(hdr, recs)| {
        let case = make_case::<W>(&sp, &hdr, &recs);
        if let Some(p) = last_case {
            let _ = std::fs::write(p, case.to_text());
        }
        let e = enumerate::<W>(&case, cfg, max_k);
        let mut s = st.borrow_mut();
        if !s.0.frozen {
            s.0.evaluations += 1;
            s.1 += e.runs;
            s.2 += e.points;
            s.3 += e.fired;
            for i in 0..3 {
                s.4[i] += e.by_site[i];
            }
            let h = case.hash();
            for inj in &e.nontrivial {
                let key = crate::util::mix(h ^ crate::util::fnv(inject_line(inj).as_bytes()));
                if s.5.insert(key) && s.0.samples.len() < 2 && case.ops.len() <= 30 {
                    s.0.samples.push(format!("{}{}\n", case.to_text(), inject_line(inj)));
                }
            }
            if e.baseline_nontrivial {
                s.5.insert(h);
            }
            if let Some(f) = &e.collateral {
                *s.0.collateral.entry(format!("{}:{}", f.tags.join("+"), f.sig)).or_insert(0) += 1;
            }
        }
        match e.failure {
            Some((_, f)) => {
                s.0.frozen = true;
                Err(TestCaseError::fail(f.sig))
            }
            None => Ok(()),
        }
    });
    let mut failure = None;
    if let Err(TestError::Fail(_, (hdr, recs))) = result {
        let mut case = make_case::<W>(&sp, &hdr, &recs);
        // greedy op deletion, keeping "some injection point fails with C10"
        let mut changed = true;
        while changed {
            changed = false;
            let mut i = 0;
            while i < case.ops.len() {
                let mut c2 = case.clone();
                c2.ops.remove(i);
                if enumerate::<W>(&c2, cfg, max_k).failure.is_some() {
                    case = c2;
                    changed = true;
                } else {
                    i += 1;
                }
            }
        }
        let e = enumerate::<W>(&case, cfg, max_k);
        match e.failure {
            Some((inj, f)) => failure = Some((case, inj, f)),
            None => failure = Some((case, None, Fail { tags: vec!["C10"], msg: "shrunk case no longer fails (non-deterministic?)".into(), step: 0, sig: "flaky".into(), parts: Vec::new() })),
        }
    }
    let (stats, runs, points, fired, by_site, nontrivial) = st.into_inner();
    C10Search { stats, runs, points, fired, by_site, nontrivial, failure }
}

/// A column guard leaked with `mem::forget` (safe code) leaves its RefCell borrowed forever. The
/// statically borrowed API (`destroy`, `create`, views, `ecs_find!`, `Archetype::iter`) does not go
/// through the cell; if an operation nevertheless panics with a borrow conflict, it must not
/// leave the entity torn. Every (column, position) of every multi-entity archetype is tried.
pub fn leaked_guard_scenarios<W: WorldDriver>() -> Result<u64, String> {
    // a panic anywhere in here (e.g. a debug assertion of gecs tripping over a torn entity on a
    // path that is not individually wrapped) is a failure of the scenario, not of the harness
    match crate::util::catch(leaked_guard_scenarios_inner::<W>) {
        Ok(r) => r,
        Err(m) => Err(format!("leaked-guard scenario: an operation after the interrupted destroy panicked: {}", m)),
    }
}

fn leaked_guard_scenarios_inner<W: WorldDriver>() -> Result<u64, String> {
    use crate::types::*;
    use crate::util::{catch, stamp};
    let infos = W::archs();
    let n = infos.len();
    let mut count = 0u64;
    for a in 0..n {
        let ncols = infos[a].ncols();
        for col in 0..ncols {
            for mutable in [true, false] {
                for victim in 0..3usize {
                    crate::comps::reg_reset();
                    crate::comps::suspend();
                    let mut w = W::construct(Ctor::New, &vec![0; n]);
                    let mut ents: Vec<(Raw, Vec<u64>)> = Vec::new();
                    for i in 0..3u64 {
                        let vals: Vec<u64> = (0..ncols).map(|c| stamp(i + 1, c, 0)).collect();
                        if let CreateOut::Created { raw, .. } = W::create(&mut w, a, CreatePath::WCreate, &vals) {
                            ents.push((raw, vals.iter().zip(infos[a].masks.iter()).map(|(v, m)| v & m).collect()));
                        }
                    }
                    w.leak_guard(a, col, mutable);
                    let (vraw, _) = ents[victim].clone();
                    let r = catch(|| W::destroy(&mut w, a, if victim % 2 == 0 { Level::World } else { Level::Arch }, Key::Ent(vraw)));
                    let what = format!("{} with a leaked {} guard on column {} ({}), destroying the entity at dense position {}", infos[a].name, if mutable { "mutable" } else { "shared" }, col, infos[a].col_names[col], victim);
                    // either it worked or it panicked; in both cases every entity is fully present or fully absent
                    let gone = match &r {
                        Ok(Some(_)) => true,
                        Ok(None) => return Err(format!("{}: destroy rejected a live handle", what)),
                        Err(_) => W::lookup(&mut w, a, LookupPath::AContains, Key::Ent(vraw)).is_none(),
                    };
                    if gone {
                        ents.remove(victim);
                    }
                    if W::len(&w, a) != ents.len() {
                        return Err(format!("{}: destroy {}; len() is {} but {} entities are alive", what, if r.is_err() { "panicked" } else { "returned" }, W::len(&w, a), ents.len()));
                    }
                    for (raw, vals) in &ents {
                        for path in [LookupPath::AView, LookupPath::Find, LookupPath::AResolveSlices, LookupPath::AResolveAllSlices] {
                            match catch(|| W::lookup(&mut w, a, path, Key::Any(*raw))) {
                                Ok(Some(o)) if o.raw == Some(*raw) && &o.vals == vals => {}
                                other => return Err(format!("{}: afterwards {:?} of live entity {:?} gives {:?}, expected stamps {:x?} (destroy {})", what, path, raw, other, vals, if r.is_err() { "panicked" } else { "returned" })),
                            }
                        }
                    }
                    let it = catch(|| W::iterate(&mut w, a, IterPath::ArchIter, None)).map_err(|m| format!("{}: iteration panicked: {}", what, m))?;
                    let mut got: Vec<Raw> = it.iter().filter_map(|o| o.raw).collect();
                    let mut want: Vec<Raw> = ents.iter().map(|e| e.0).collect();
                    got.sort();
                    want.sort();
                    if got != want {
                        return Err(format!("{}: afterwards Archetype::iter yields {:?}, live entities are {:?}", what, got, want));
                    }
                    let d = W::dump(&w, a);
                    crate::probe::rep_invariant(&d, infos[a].id).map_err(|m| format!("{}: representation invariant: {}", what, m))?;
                    let _ = catch(move || drop(w));
                    let dd = crate::comps::reg(|r| (r.double_drops.clone(), r.zst_underflow));
                    if !dd.0.is_empty() || dd.1 > 0 {
                        return Err(format!("{}: components dropped twice ({:?}) when the world was dropped", what, dd.0));
                    }
                    count += 1;
                }
            }
        }
    }
    Ok(count)
}

/// Fixed documented-panic scenarios that need no history.
pub fn fixed_scenarios<W: WorldDriver>() -> Result<u64, String> {
    use crate::types::Ctor;
    use crate::util::catch;
    let n = W::archs().len();
    let mut count = leaked_guard_scenarios::<W>()?;
    for a in 0..n {
        // with_capacity beyond 2^24 panics with the documented message and builds nothing
        let mut caps = vec![0usize; n];
        caps[a] = (1 << 24) + 1;
        crate::comps::reg_reset();
        match catch(|| W::construct(Ctor::WithCapacity, &caps)) {
            Err(m) if m.contains("capacity may not exceed") => {}
            Err(m) => return Err(format!("with_capacity(2^24 + 1) panicked with an undocumented message: {}", m)),
            Ok(w) => {
                drop(w);
                return Err("with_capacity(2^24 + 1) did not panic".into());
            }
        }
        count += 1;
    }
    Ok(count)
}
