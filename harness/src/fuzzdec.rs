//! Byte-level decoding shared by the libFuzzer target and `vh-run decode`.
//!
//! layout: [profile selector][world selector][1 + narch header bytes][6-byte records ...]

use crate::driver::WorldDriver;
use crate::interp::*;
use crate::ops::*;
use crate::run::spec;

pub const PROFILES: [&str; 10] = ["C01", "C02", "C03", "C04", "C06", "C07", "C09", "C12", "C13", "C08"];

fn decode_for<W: WorldDriver>(profile: &str, rest: &[u8]) -> Option<Case> {
    let narch = W::archs().len();
    if rest.len() < 1 + narch {
        return None;
    }
    let (hdr, body) = rest.split_at(1 + narch);
    let recs: Vec<Rec> = body.chunks_exact(6).take(400).map(|c| (c[0], u16::from_le_bytes([c[1], c[2]]), u16::from_le_bytes([c[3], c[4]]), c[5])).collect();
    let sp = spec(profile)?;
    Some(Case { world: W::NAME.to_string(), header: Header::decode(hdr, narch), ops: sp.profile().decode_all(&recs) })
}

pub fn decode(data: &[u8]) -> Option<(Case, &'static str)> {
    if data.len() < 2 {
        return None;
    }
    let profile = PROFILES[data[0] as usize % PROFILES.len()];
    let case = if data[1] % 4 == 3 { decode_for::<crate::worlds::wone::WOne>(profile, &data[2..]) } else { decode_for::<crate::worlds::wmix::WMix>(profile, &data[2..]) };
    case.map(|c| (c, profile))
}

/// Runs the case with every oracle; returns the failure, if any.
pub fn run(case: &Case) -> Option<Fail> {
    // Light intensity: under ASan + coverage instrumentation every probe is ~15x dearer
    let cfg = Cfg::new(if cfg!(fuzzing) { Intensity::Light } else { Intensity::Normal });
    let out = if case.world == "WOne" { Session::<crate::worlds::wone::WOne>::run(case, &cfg) } else { Session::<crate::worlds::wmix::WMix>::run(case, &cfg) };
    out.fail
}

/// Encodes a header + records back into bytes (seed corpus from proptest-style cases is not
/// possible from decoded ops, so the corpus is seeded with structured random records instead).
pub fn seed_input(profile_ix: u8, world_sel: u8, n: usize, mut z: u64) -> Vec<u8> {
    let mut v = vec![profile_ix, world_sel];
    for _ in 0..(7 + n * 6) {
        z = crate::util::mix(z);
        v.push(z as u8);
    }
    v
}
