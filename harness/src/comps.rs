//! Component types used by the worlds under test.
//!
//! Every component is a distinct type (gecs components must be plain identifiers) that
//! implements [`Stamp`]: it can be built from, read back as and overwritten with a 64-bit
//! stamp (truncated to the component's width). Two of them are drop-instrumented.

use std::cell::RefCell;
use std::collections::{BTreeMap, BTreeSet};

/// Uniform access to a component value as a (truncated) 64-bit stamp.
pub trait Stamp: Sized {
    /// Bits of the stamp that survive a round trip through this component.
    const MASK: u64;
    /// Whether values of this type are registered in the drop registry.
    const TRACKED: bool = false;
    fn mk(v: u64) -> Self;
    fn get(&self) -> u64;
    fn set(&mut self, v: u64);
    /// Registry id of this value (0 for untracked types).
    fn trk(&self) -> u64 {
        0
    }
}

/// Marker returned by `get` when a value is internally inconsistent (torn / foreign bits).
pub const GARBAGE: u64 = 0xBAD0_BAD0_BAD0_BAD0;

// ------------------------------------------------------------------------------------------
// Drop / clone registry and fault injection (thread-local: one history runs on one thread)
// ------------------------------------------------------------------------------------------

#[derive(Clone, Copy, Debug, PartialEq, Eq, PartialOrd, Ord)]
pub enum Site {
    /// A user closure of one of the query macros is entered.
    Closure,
    /// `Clone::clone` of a tracked component.
    Clone,
    /// `Drop::drop` of a tracked component.
    Drop,
}

pub const INJECTED: &str = "VERIF-INJECTED-PANIC";

#[derive(Default)]
pub struct Registry {
    next_id: u64,
    /// ids of tracked values currently alive
    pub live: BTreeSet<u64>,
    /// ids dropped although not alive (double drop / drop of garbage)
    pub double_drops: Vec<u64>,
    /// (source id, new id) for every clone since the log was last taken
    pub clone_log: Vec<(u64, u64)>,
    /// ids dropped since the log was last taken
    pub drop_log: Vec<u64>,
    /// live count of the zero-sized tracked type
    pub zst_live: i64,
    pub zst_clones: u64,
    pub zst_drops: u64,
    pub zst_underflow: u64,
    /// number of `Tok::clone` calls
    pub tok_clones: u64,
    /// fault injection: (site, remaining ticks before the panic)
    armed: Option<(Site, u64)>,
    /// ticks seen per site since last reset (used to enumerate injection points)
    pub ticks: BTreeMap<Site, u64>,
    pub fired: bool,
    /// while set, ticks are neither counted nor able to fire (harness-internal probing)
    pub suspended: bool,
}

thread_local! {
    pub static REG: RefCell<Registry> = RefCell::new(Registry::default());
}

pub fn reg_reset() {
    REG.with(|r| *r.borrow_mut() = Registry::default());
}

pub fn reg<T>(f: impl FnOnce(&mut Registry) -> T) -> T {
    REG.with(|r| f(&mut r.borrow_mut()))
}

/// Arms a single injected panic: the `k`-th (0-based) tick at `site` from now on panics.
pub fn arm(site: Site, k: u64) {
    reg(|r| {
        r.armed = Some((site, k));
        r.fired = false;
    });
}

pub fn disarm() {
    reg(|r| r.armed = None);
}

/// Ticks are ignored until `resume` (used around harness-internal probing).
pub fn suspend() {
    reg(|r| r.suspended = true);
}

pub fn resume() {
    reg(|r| r.suspended = false);
}

pub fn reset_ticks() {
    reg(|r| r.ticks.clear());
}

pub fn ticks(site: Site) -> u64 {
    reg(|r| r.ticks.get(&site).copied().unwrap_or(0))
}

thread_local! {
    /// Re-entrancy hook: called once, from inside the next `Clone::clone` of an instrumented
    /// component (i.e. while gecs is in the middle of copying a column). See `with_clone_hook`.
    static CLONE_HOOK: std::cell::Cell<Option<*mut (dyn FnMut() + 'static)>> = std::cell::Cell::new(None);
}

/// Runs `f`; the first `Clone::clone` of an instrumented component that happens inside it calls
/// `hook` (once). This is how "user code that runs in the middle of `World::clone`" is modelled:
/// a component's `Clone` impl may reach the world being cloned through an `Rc` / thread-local.
pub fn with_clone_hook<R>(hook: &mut dyn FnMut(), f: impl FnOnce() -> R) -> R {
    struct Reset;
    impl Drop for Reset {
        fn drop(&mut self) {
            CLONE_HOOK.with(|h| h.set(None));
        }
    }
    // SAFETY: the pointer is only dereferenced while `f` runs (the guard clears it on every exit,
    // unwinding included), and it is taken out of the cell before the call, so it is never aliased.
    let p: *mut (dyn FnMut() + '_) = hook;
    let p: *mut (dyn FnMut() + 'static) = unsafe { std::mem::transmute(p) };
    CLONE_HOOK.with(|h| h.set(Some(p)));
    let _g = Reset;
    f()
}

#[inline]
pub fn run_clone_hook() {
    if let Some(p) = CLONE_HOOK.with(|h| h.take()) {
        // SAFETY: see `with_clone_hook`
        unsafe { (*p)() }
    }
}

/// Called at every potential injection point. Panics if this is the armed one.
#[inline]
pub fn tick(site: Site) {
    if site == Site::Clone {
        run_clone_hook();
    }
    let fire = REG.with(|r| {
        let mut r = r.borrow_mut();
        if r.suspended {
            return false;
        }
        *r.ticks.entry(site).or_insert(0) += 1;
        match r.armed {
            Some((s, 0)) if s == site => {
                r.armed = None;
                r.fired = true;
                true
            }
            Some((s, k)) if s == site => {
                r.armed = Some((s, k - 1));
                false
            }
            _ => false,
        }
    });
    if fire && !std::thread::panicking() {
        panic!("{}", INJECTED);
    }
}

fn new_id() -> u64 {
    reg(|r| {
        r.next_id += 1;
        let id = r.next_id;
        r.live.insert(id);
        id
    })
}

// ------------------------------------------------------------------------------------------
// Plain components
// ------------------------------------------------------------------------------------------

macro_rules! int_comp {
    ($name:ident, $ty:ty) => {
        #[derive(Clone, Debug, PartialEq)]
        pub struct $name(pub $ty);
        impl Stamp for $name {
            const MASK: u64 = <$ty>::MAX as u64;
            #[inline]
            fn mk(v: u64) -> Self {
                $name(v as $ty)
            }
            #[inline]
            fn get(&self) -> u64 {
                self.0 as u64
            }
            #[inline]
            fn set(&mut self, v: u64) {
                self.0 = v as $ty;
            }
        }
    };
}

int_comp!(Word, u32);
int_comp!(Byte, u8);
int_comp!(Quad, u64);

/// No drop glue, but an observable `Clone`: a clone that is skipped (e.g. replaced by a bitwise
/// copy) shows up as a missing tick of `tok_clones`.
#[derive(Debug, PartialEq)]
pub struct Tok(pub u64);
impl Stamp for Tok {
    const MASK: u64 = u64::MAX;
    fn mk(v: u64) -> Self {
        Tok(v)
    }
    fn get(&self) -> u64 {
        self.0
    }
    fn set(&mut self, v: u64) {
        self.0 = v;
    }
}
impl Clone for Tok {
    fn clone(&self) -> Self {
        run_clone_hook();
        reg(|r| r.tok_clones += 1);
        Tok(self.0)
    }
}

/// A component type that no archetype of any world under test holds (second member of the
/// `OneOf<C, Nope>` parameters used by the borrow matrix).
int_comp!(Nope, u64);

/// Zero-sized, untracked.
#[derive(Clone, Debug, PartialEq)]
pub struct Zst;
impl Stamp for Zst {
    const MASK: u64 = 0;
    fn mk(_: u64) -> Self {
        Zst
    }
    fn get(&self) -> u64 {
        0
    }
    fn set(&mut self, _: u64) {}
}

/// 16 bytes, 16-aligned; both halves carry the stamp so a torn value is visible.
#[derive(Clone, Debug, PartialEq)]
pub struct Wide(pub u128);
impl Stamp for Wide {
    const MASK: u64 = u64::MAX;
    fn mk(v: u64) -> Self {
        Wide(((v as u128) << 64) | (!v as u128))
    }
    fn get(&self) -> u64 {
        let hi = (self.0 >> 64) as u64;
        let lo = self.0 as u64;
        if hi == !lo {
            hi
        } else {
            GARBAGE
        }
    }
    fn set(&mut self, v: u64) {
        *self = Self::mk(v);
    }
}

/// Heap owner (24 bytes): the stamp as 16 hex digits.
#[derive(Clone, Debug, PartialEq)]
pub struct Text(pub String);
impl Stamp for Text {
    const MASK: u64 = u64::MAX;
    fn mk(v: u64) -> Self {
        Text(format!("{:016x}", v))
    }
    fn get(&self) -> u64 {
        if self.0.len() != 16 {
            return GARBAGE;
        }
        u64::from_str_radix(&self.0, 16).unwrap_or(GARBAGE)
    }
    fn set(&mut self, v: u64) {
        self.0 = format!("{:016x}", v);
    }
}

/// Heap owner (24 bytes): 1..=4 copies of the stamp.
#[derive(Clone, Debug, PartialEq)]
pub struct List(pub Vec<u64>);
impl Stamp for List {
    const MASK: u64 = u64::MAX;
    fn mk(v: u64) -> Self {
        List(vec![v; (v % 4) as usize + 1])
    }
    fn get(&self) -> u64 {
        match self.0.first() {
            Some(&v) if self.0.len() == (v % 4) as usize + 1 && self.0.iter().all(|&x| x == v) => v,
            _ => GARBAGE,
        }
    }
    fn set(&mut self, v: u64) {
        *self = Self::mk(v);
    }
}

/// 64-byte aligned, 64 bytes.
#[derive(Clone, Debug, PartialEq)]
#[repr(align(64))]
pub struct Aligned(pub u64, pub u64);
impl Stamp for Aligned {
    const MASK: u64 = u64::MAX;
    fn mk(v: u64) -> Self {
        Aligned(v, !v)
    }
    fn get(&self) -> u64 {
        let addr = self as *const Self as usize;
        if self.0 == !self.1 && addr % 64 == 0 {
            self.0
        } else {
            GARBAGE
        }
    }
    fn set(&mut self, v: u64) {
        self.0 = v;
        self.1 = !v;
    }
}

// ------------------------------------------------------------------------------------------
// Drop-instrumented components
// ------------------------------------------------------------------------------------------

/// Tracked value: carries a registry id; clone makes a fresh id; drop unregisters.
#[derive(Debug, PartialEq)]
pub struct Trk {
    pub id: u64,
    pub val: u64,
}
impl Stamp for Trk {
    const MASK: u64 = u64::MAX;
    const TRACKED: bool = true;
    fn mk(v: u64) -> Self {
        Trk { id: new_id(), val: v }
    }
    fn get(&self) -> u64 {
        self.val
    }
    fn set(&mut self, v: u64) {
        self.val = v;
    }
    fn trk(&self) -> u64 {
        self.id
    }
}
impl Clone for Trk {
    fn clone(&self) -> Self {
        tick(Site::Clone);
        let id = new_id();
        reg(|r| r.clone_log.push((self.id, id)));
        Trk { id, val: self.val }
    }
}
impl Drop for Trk {
    fn drop(&mut self) {
        let id = self.id;
        reg(|r| {
            if !r.live.remove(&id) {
                r.double_drops.push(id);
            }
            r.drop_log.push(id);
        });
        tick(Site::Drop);
    }
}

/// Tracked value in an over-aligned cell (alignment beyond what the allocator's `realloc` fast
/// paths guarantee): growth of such a column must still move every element intact.
#[derive(Debug, PartialEq, Clone)]
#[repr(align(64))]
pub struct TrkA(pub Trk);
impl Stamp for TrkA {
    const MASK: u64 = u64::MAX;
    const TRACKED: bool = true;
    fn mk(v: u64) -> Self {
        TrkA(Trk::mk(v))
    }
    fn get(&self) -> u64 {
        if (self as *const Self as usize) % 64 == 0 {
            self.0.get()
        } else {
            GARBAGE
        }
    }
    fn set(&mut self, v: u64) {
        self.0.set(v)
    }
    fn trk(&self) -> u64 {
        self.0.trk()
    }
}

/// Zero-sized tracked value: only a live counter can be kept.
#[derive(Debug, PartialEq)]
pub struct Ztrk;
impl Stamp for Ztrk {
    const MASK: u64 = 0;
    fn mk(_: u64) -> Self {
        reg(|r| r.zst_live += 1);
        Ztrk
    }
    fn get(&self) -> u64 {
        0
    }
    fn set(&mut self, _: u64) {}
}
impl Clone for Ztrk {
    fn clone(&self) -> Self {
        run_clone_hook();
        reg(|r| {
            r.zst_live += 1;
            r.zst_clones += 1;
        });
        Ztrk
    }
}
impl Drop for Ztrk {
    fn drop(&mut self) {
        reg(|r| {
            r.zst_live -= 1;
            r.zst_drops += 1;
            if r.zst_live < 0 {
                r.zst_underflow += 1;
            }
        });
    }
}

// ------------------------------------------------------------------------------------------
// The 16 (32) columns of the wide archetypes: mixed widths so columns have different strides
// ------------------------------------------------------------------------------------------

int_comp!(Ma, u8);
int_comp!(Mb, u16);
int_comp!(Mc, u32);
int_comp!(Md, u64);
int_comp!(Me, u16);
int_comp!(Mf, u8);
int_comp!(Mg, u64);
int_comp!(Mh, u32);
int_comp!(Mi, u16);
int_comp!(Mj, u16);
int_comp!(Mk, u8);
int_comp!(Ml, u32);
int_comp!(Mm, u64);
int_comp!(Mn, u16);
int_comp!(Mo, u32);
int_comp!(Mp, u8);

int_comp!(Na, u16);
int_comp!(Nb, u8);
int_comp!(Nc, u64);
int_comp!(Nd, u32);
int_comp!(Ne, u16);
int_comp!(Nf, u16);
int_comp!(Ng, u8);
int_comp!(Nh, u64);
int_comp!(Ni, u32);
int_comp!(Nj, u16);
int_comp!(Nk, u8);
int_comp!(Nl, u16);
int_comp!(Nm, u32);
int_comp!(Nn, u64);
int_comp!(No, u16);
int_comp!(Np, u8);
