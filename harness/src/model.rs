//! Reference model: independent of gecs internals, built only from public observations.

use std::collections::{BTreeMap, BTreeSet};

use gecs::prelude::EntityDirectAny;

use crate::types::*;

#[derive(Clone, Debug, PartialEq)]
pub struct MEntity {
    pub uid: u64,
    /// stamps per column, already masked to the column width
    pub vals: Vec<u64>,
    /// registry ids per column (0 = untracked)
    pub trk: Vec<u64>,
    pub writes: u64,
}

#[derive(Clone, Debug, Default)]
pub struct MArch {
    pub live: BTreeMap<Raw, MEntity>,
    /// every handle this world lineage ever issued for this archetype
    pub issued: BTreeSet<Raw>,
    pub creations: u64,
    pub removals: u64,
    /// capacity observed after the previous step
    pub last_cap: usize,
    /// archetype version the model expects (1 + removals, or preset), as u64 to see overflow
    pub version: u64,
    pub created_log: Vec<Raw>,
    pub destroyed_log: Vec<Raw>,
    /// slots whose generation reached the maximum were used at least once (labels only)
    pub max_gen_seen: u32,
    /// number of growth events, and of growth events after at least one removal
    pub growths: u32,
    pub growths_after_churn: u32,
    /// dense positions at which removals happened since the last refill (labels only)
    pub removal_positions: BTreeSet<usize>,
    /// set once a documented overflow panic was observed: state after it is C10's business
    pub poisoned: bool,
    /// last generation issued per slot (labels only: detects a wraparound)
    pub last_gen: std::collections::BTreeMap<u32, u32>,
}

/// A handle ever issued by this world lineage.
#[derive(Clone, Debug, PartialEq)]
pub struct HandleRec {
    pub raw: Raw,
    pub arch: usize,
    pub uid: u64,
}

/// A direct handle ever obtained in this world lineage.
#[derive(Clone, Debug, PartialEq)]
pub struct DirectRec {
    pub d: EntityDirectAny,
    pub arch: usize,
    /// the entity it was minted for
    pub ent: Raw,
    pub removals_at_mint: u64,
    pub creations_at_mint: u64,
    /// whether it came out of a query closure (labels only)
    pub from_closure: bool,
    /// dense index at mint time, when known (labels only)
    pub index: Option<usize>,
    pub used_after_query: bool,
}

/// What C09 demands of a direct handle right now.
#[derive(Clone, Copy, Debug, PartialEq, Eq)]
pub enum DirectExpect {
    /// no structural change since mint: must be accepted and designate `ent`
    MustAccept,
    /// a removal happened since mint: must be rejected by every path
    MustReject,
    /// only creations since mint: either, but if accepted it designates `ent`
    Either,
}

impl DirectRec {
    pub fn expect(&self, m: &MArch) -> DirectExpect {
        if m.removals > self.removals_at_mint {
            DirectExpect::MustReject
        } else if m.creations > self.creations_at_mint {
            DirectExpect::Either
        } else {
            DirectExpect::MustAccept
        }
    }
}
