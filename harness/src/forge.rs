//! Forged-handle probes (C03): values constructed for the boundary classes of the live state,
//! passed to every safe API. Allowed outcomes (DESIGN.md soundness decision 3): absence, a clean
//! panic from a short allow-list, or — only when the value is bit-identical (slot, generation)
//! to a live entity of the addressed archetype — exactly that entity.

use gecs::prelude::EntityDirectAny;

use crate::driver::WorldDriver;
use crate::interp::*;
use crate::ops::scale;
use crate::probe::{BOOL_PATHS, VALUE_PATHS};
use crate::types::*;
use crate::util::catch;

const ALLOWED_PANICS: [&str; 4] = [
    "invalid entity handle",      // bounds debug_assert!s in storage.rs (debug builds)
    "invalid entity type",        // world-level dispatch / find macros on an undeclared id
    "invalid entity conversion",  // checked from_any
    "entity.archetype_id() == A::ARCHETYPE_ID", // debug_assert! inside from_any_unchecked
];

fn allowed_panic(m: &str) -> bool {
    ALLOWED_PANICS.iter().any(|a| m.contains(a))
}

impl<'c, W: WorldDriver> Session<'c, W> {
    /// Archetype index with the given id byte, if declared.
    fn arch_by_id(&self, id: u8) -> Option<usize> {
        self.infos.iter().position(|i| i.id == id)
    }

    /// The live entity of `(si, t)` whose (slot, generation) equal those of `raw`, if any.
    fn live_match(&self, si: usize, t: usize, raw: Raw) -> Option<Raw> {
        let want = ((raw.0 & !0xff) | self.infos[t].id as u32, raw.1);
        if self.sims[si].archs[t].live.contains_key(&want) {
            Some(want)
        } else {
            None
        }
    }

    pub fn do_forge(&mut self, si: usize, a: usize, class: u8, x: u16, y: u16, route: u8) -> R {
        self.only_tag = Some("C03");
        let narch = self.infos.len();
        let dump = W::dump(&self.sims[si].w, a);
        let cap = dump.capacity as u32;
        let len = dump.len as u32;
        let my_id = self.infos[a].id as u32;
        let live_raws: Vec<Raw> = self.sims[si].archs[a].live.keys().copied().collect();
        let free_slots: Vec<(u32, u32)> = dump.slots.iter().enumerate().filter(|(_, s)| s.0 & (1 << 31) != 0).map(|(i, s)| (i as u32, s.1)).collect();
        let r16 = ((x as u32) << 16) | y as u32;
        let some_gen = |k: u16| -> u32 {
            match k % 5 {
                0 => 1,
                1 => u32::MAX,
                2 => 2,
                _ => (crate::util::mix(k as u64) as u32).max(1),
            }
        };
        let class = class % 12;
        // ---- direct-handle classes -----------------------------------------------------------
        if class == 7 || class == 8 {
            return self.forge_direct(si, a, class, x, y, route);
        }
        // ---- entity-handle classes -----------------------------------------------------------
        let mut dangerous = false;
        let raw: Raw = match class {
            0 => (r16, (crate::util::mix(r16 as u64) as u32).max(1)),
            1 => {
                // a free slot with its current generation
                if free_slots.is_empty() {
                    ((cap << 8) | my_id, 1)
                } else {
                    dangerous = true;
                    let (i, g) = free_slots[scale(x, free_slots.len())];
                    ((i << 8) | my_id, g)
                }
            }
            2 => {
                // a live slot with a neighbouring generation
                if live_raws.is_empty() {
                    (my_id, some_gen(y))
                } else {
                    let r = live_raws[scale(x, live_raws.len())];
                    let g = match y % 3 {
                        0 => r.1.wrapping_add(1).max(1),
                        1 => r.1.wrapping_sub(1).max(1),
                        _ => some_gen(y),
                    };
                    (r.0, g)
                }
            }
            3 => {
                // indices around len and capacity
                let idx = match x % 6 {
                    0 => cap,
                    1 => cap + 1,
                    2 => cap.saturating_sub(1),
                    3 => len,
                    4 => len.saturating_sub(1),
                    _ => cap * 2 + 1,
                } & 0xff_ffff;
                if idx == cap {
                    dangerous = true;
                }
                let g = dump.slots.get(idx as usize).map(|s| s.1).filter(|_| y % 2 == 0).unwrap_or_else(|| some_gen(y));
                ((idx << 8) | my_id, g)
            }
            4 => ((0xff_ffffu32 << 8) | my_id, some_gen(y)),
            5 => {
                // undeclared archetype id, otherwise plausible
                let mut id = (x & 0xff) as u8;
                let mut tries = 0;
                while self.arch_by_id(id).is_some() && tries < 256 {
                    id = id.wrapping_add(1);
                    tries += 1;
                }
                dangerous = true;
                let base = live_raws.first().copied().unwrap_or((0, 1));
                ((base.0 & !0xff) | id as u32, base.1)
            }
            6 => {
                // a live handle of another archetype
                let b = (a + 1 + (x as usize % (narch.max(2) - 1))) % narch;
                let others: Vec<Raw> = self.sims[si].archs[b].live.keys().copied().collect();
                if others.is_empty() {
                    ((0u32 << 8) | self.infos[b].id as u32, 1)
                } else {
                    others[scale(y, others.len())]
                }
            }
            9 => {
                // a handle of another world (lineage), live or stale there
                let other = (si + 1) % self.sims.len();
                let hs = &self.sims[other].handles;
                if other == si || hs.is_empty() {
                    (((cap + 3) << 8) | my_id, 1)
                } else {
                    hs[scale(x, hs.len())].raw
                }
            }
            10 => {
                // bit-identical to a live handle: must reach exactly that entity
                if live_raws.is_empty() {
                    (my_id, 1)
                } else {
                    live_raws[scale(x, live_raws.len())]
                }
            }
            _ => {
                // stale handle bits with the generation of the slot's current occupant swapped in
                let hs = &self.sims[si].handles;
                if hs.is_empty() {
                    (my_id, 1)
                } else {
                    let h = &hs[scale(x, hs.len())];
                    (h.raw.0, h.raw.1.wrapping_add((y % 3) as u32).max(1))
                }
            }
        };
        if raw.1 == 0 {
            return Ok(());
        }
        if dangerous {
            self.label("forge_dangerous");
        }
        self.count("forged_probes", 1);
        let byte = raw_arch_id(raw);
        // route: API and key kind
        let all_paths: Vec<LookupPath> = BOOL_PATHS.iter().chain(VALUE_PATHS.iter()).copied().collect();
        let nroutes = all_paths.len() + 3; // + destroy world / destroy arch / write
        let r = route as usize % nroutes;
        let kind = (route as usize / nroutes) % 3; // 0 Any, 1 EntU, 2 Ent (only when the byte matches)
        let mut key = match kind {
            0 => Key::Any(raw),
            1 => Key::EntU(raw),
            _ => {
                if byte as u32 == my_id {
                    Key::Ent(raw)
                } else {
                    Key::EntU(raw)
                }
            }
        };
        // which archetype the call will look into (None = the call must report absence or panic cleanly)
        let world_level = |p: LookupPath| matches!(p, LookupPath::WContains | LookupPath::WToDirect | LookupPath::WView | LookupPath::WBorrow | LookupPath::Find | LookupPath::FindAny | LookupPath::FindWild | LookupPath::FindBorrow | LookupPath::FindBorrowAny | LookupPath::FindBorrowWild);
        if r < all_paths.len() {
            let path = all_paths[r];
            if path.typed_only() {
                if let Key::Any(rw) = key {
                    key = Key::EntU(rw);
                }
            }
            let target: Option<usize> = match key {
                Key::Any(_) => {
                    if world_level(path) {
                        self.arch_by_id(byte)
                    } else if byte as u32 == my_id {
                        Some(a)
                    } else {
                        None
                    }
                }
                _ => Some(a),
            };
            let res = catch(|| W::lookup(&mut self.sims[si].w, a, path, key));
            return self.judge_forged_lookup(si, a, path, key, raw, target, res);
        }
        // destroy / write routes
        let target: Option<usize> = match (key, r - all_paths.len()) {
            (Key::Any(_), 0) => self.arch_by_id(byte), // world-level destroy dispatches on the byte
            (Key::Any(_), _) => {
                if byte as u32 == my_id {
                    Some(a)
                } else {
                    None
                }
            }
            _ => Some(a),
        };
        let matched = target.and_then(|t| self.live_match(si, t, raw).map(|m| (t, m)));
        match r - all_paths.len() {
            0 | 1 => {
                let level = if r - all_paths.len() == 0 { Level::World } else { Level::Arch };
                // a legitimately matching forged handle would destroy an entity; that is fine, but
                // generation overflow must be treated like in do_destroy: avoid it here
                if let Some((t, m)) = matched {
                    if self.overflow_due_pub(si, t, m).is_some() {
                        return Ok(());
                    }
                }
                let res = catch(|| W::destroy(&mut self.sims[si].w, a, level, key));
                match (res, matched) {
                    (Err(m), _) => {
                        if allowed_panic(&m) {
                            self.label("forge_clean_panic");
                            Ok(())
                        } else {
                            Err(self.fail(&["C03"], "forge-panic", format!("destroy({}, {:?}) with forged handle {:?} on {} panicked uncleanly: {}", key.kind_name(), level, raw, self.infos[a].name, m)))
                        }
                    }
                    (Ok(None), None) => Ok(()),
                    (Ok(Some(out)), Some((t, m))) => {
                        let e = self.model_remove_pub(si, t, m);
                        if let (Some((vals, trk)), Some(e)) = (out.comps, e) {
                            if t == a && (vals != e.vals || trk != e.trk) {
                                return Err(self.fail(&["C03"], "forge-wrong-entity", format!("destroy with forged handle {:?} bit-identical to live {:?} returned other components", raw, m)));
                            }
                        }
                        self.label("forge_matched_live");
                        Ok(())
                    }
                    (Ok(None), Some((_, m))) => Err(self.fail(&["C03", "C01"], "forge-missed-identical", format!("destroy({}, {:?}) with a value bit-identical to live handle {:?} reported absence", key.kind_name(), level, m))),
                    (Ok(Some(_)), None) => Err(self.fail(&["C03"], "forge-accepted", format!("destroy({}, {:?}) accepted forged handle {:?} on {} although no live entity of the addressed archetype has these bits", key.kind_name(), level, raw, self.infos[a].name))),
                }
            }
            _ => {
                let col = (y as usize) % self.infos[a].ncols();
                let wp = WritePath::pick(x as usize);
                if wp.by_scan() || (wp.typed_only() && matches!(key, Key::Any(_))) {
                    return Ok(());
                }
                // value to write: keep the model in sync when the forged handle legitimately matches
                let val = crate::util::stamp(0xF0F0 + self.step as u64, col, 7);
                let res = catch(|| W::write(&mut self.sims[si].w, a, wp, key, col, val));
                let wl = matches!(wp, WritePath::Find | WritePath::FindBorrow | WritePath::WViewCompMut | WritePath::WBorrowCompMut);
                let target: Option<usize> = match key {
                    Key::Any(_) => {
                        if wl {
                            self.arch_by_id(byte)
                        } else if byte as u32 == my_id {
                            Some(a)
                        } else {
                            None
                        }
                    }
                    _ => Some(a),
                };
                let matched = target.and_then(|t| self.live_match(si, t, raw).map(|m| (t, m)));
                match (res, matched) {
                    (Err(m), _) => {
                        if allowed_panic(&m) {
                            self.label("forge_clean_panic");
                            Ok(())
                        } else {
                            Err(self.fail(&["C03"], "forge-panic", format!("write through {:?} with forged handle {:?} on {} panicked uncleanly: {}", wp, raw, self.infos[a].name, m)))
                        }
                    }
                    (Ok(false), None) => Ok(()),
                    (Ok(true), Some((t, m))) => {
                        // the write went to column `col` of the matched entity; with a dynamic key at
                        // world level the closure parameters are `a`'s columns, so only t == a is
                        // modelled exactly; otherwise re-read the value through a trusted path
                        if t == a {
                            let mask = self.infos[a].masks[col];
                            let e = self.sims[si].archs[a].live.get_mut(&m).unwrap();
                            e.vals[col] = val & mask;
                            e.writes += 1;
                        } else {
                            self.resync_entity(si, t, m);
                        }
                        self.label("forge_matched_live");
                        Ok(())
                    }
                    (Ok(false), Some((t, m))) => {
                        if t != a {
                            // the find closure names `a`'s components: an entity of another archetype is legitimately unmatched
                            Ok(())
                        } else {
                            Err(self.fail(&["C03", "C01"], "forge-missed-identical", format!("write through {:?} with a value bit-identical to live handle {:?} reported absence", wp, m)))
                        }
                    }
                    (Ok(true), None) => Err(self.fail(&["C03"], "forge-accepted", format!("write through {:?} accepted forged handle {:?} on {} although no live entity of the addressed archetype has these bits", wp, raw, self.infos[a].name))),
                }
            }
        }
    }

    /// Re-reads an entity's stamps into the model (used when a forged but legitimately matching
    /// dynamic handle wrote through a closure typed for another archetype).
    fn resync_entity(&mut self, si: usize, t: usize, m: Raw) {
        if let Ok(Some(o)) = catch(|| W::lookup(&mut self.sims[si].w, t, LookupPath::AResolveSlices, Key::Any(m))) {
            if let Some(e) = self.sims[si].archs[t].live.get_mut(&m) {
                if o.vals.len() == e.vals.len() {
                    e.vals = o.vals;
                }
            }
        }
    }

    fn judge_forged_lookup(&mut self, si: usize, a: usize, path: LookupPath, key: Key, raw: Raw, target: Option<usize>, res: Result<Option<Obs>, String>) -> R {
        let name = self.infos[a].name;
        let matched = target.and_then(|t| self.live_match(si, t, raw).map(|m| (t, m)));
        match (res, matched) {
            (Err(m), _) => {
                if allowed_panic(&m) {
                    self.label("forge_clean_panic");
                    Ok(())
                } else {
                    Err(self.fail(&["C03"], "forge-panic", format!("{:?} with forged {} {:?} on {} panicked uncleanly: {}", path, key.kind_name(), raw, name, m)))
                }
            }
            (Ok(None), None) => Ok(()),
            (Ok(None), Some((t, m))) => {
                // find macros with a dynamic key only match archetypes holding all of `a`'s components
                let via_find = matches!(path, LookupPath::Find | LookupPath::FindAny | LookupPath::FindWild | LookupPath::FindBorrow | LookupPath::FindBorrowAny | LookupPath::FindBorrowWild);
                if via_find && t != a {
                    Ok(())
                } else {
                    Err(self.fail(&["C03", "C01"], "forge-missed-identical", format!("{:?} with {} {:?}, bit-identical to live handle {:?}, reported absence", path, key.kind_name(), raw, m)))
                }
            }
            (Ok(Some(o)), None) => Err(self.fail(&["C03"], "forge-accepted", format!("{:?} with forged {} {:?} on {} was accepted (reached {:?}, stamps {:x?}) although no live entity of the addressed archetype has these bits", path, key.kind_name(), raw, name, o.raw, o.vals))),
            (Ok(Some(o)), Some((t, m))) => {
                self.label("forge_matched_live");
                if path.reads_values() {
                    if o.raw != Some(m) {
                        return Err(self.fail(&["C03"], "forge-wrong-entity", format!("{:?} with {} {:?} (bit-identical to live {:?}) reached {:?}", path, key.kind_name(), raw, m, o.raw)));
                    }
                    if t == a {
                        let e = &self.sims[si].archs[t].live[&m];
                        if o.vals != e.vals || o.trk != e.trk {
                            let (ev, et) = (e.vals.clone(), e.trk.clone());
                            return Err(self.fail(&["C03"], "forge-wrong-values", format!("{:?} with {} {:?} (bit-identical to live {:?}) read stamps {:x?} / instances {:?}, expected {:x?} / {:?}", path, key.kind_name(), raw, m, o.vals, o.trk, ev, et)));
                        }
                    }
                }
                Ok(())
            }
        }
    }

    fn forge_direct(&mut self, si: usize, a: usize, class: u8, x: u16, y: u16, route: u8) -> R {
        let len = self.sims[si].archs[a].live.len();
        let cap = self.sims[si].archs[a].last_cap;
        let narch = self.infos.len();
        let mut dangerous = false;
        // what the forged handle is made of: (archetype it is typed for, index, version)
        let my_version = W::arch_version(&self.sims[si].w, a);
        let d: EntityDirectAny = if class == 7 {
            let idx = match x % 7 {
                0 => 0,
                1 => len.saturating_sub(1),
                2 => len,
                3 => cap,
                4 => 0xff_ffff,
                5 => len + 1,
                _ => (y as usize) % (cap + 2),
            } & 0xff_ffff;
            let version = match y % 4 {
                0 | 1 => my_version,
                2 => W::arch_version(&self.sims[si].w, (a + 1) % narch),
                _ => W::arch_version(&self.sims[(si + 1) % self.sims.len()].w, a),
            };
            if idx == len && version == my_version {
                dangerous = true;
            }
            W::new_direct(a, idx, version)
        } else {
            // a direct handle of another world (clone that diverged, or the other lineage)
            let other = (si + 1) % self.sims.len();
            let ds = &self.sims[other].directs;
            if other == si || ds.is_empty() {
                W::new_direct(a, len, my_version)
            } else {
                let rec = &ds[scale(x, ds.len())];
                if rec.arch == a {
                    // does its version match ours? (ArchetypeVersion is PartialEq)
                    let probe = W::new_direct(a, 0, my_version);
                    let same_version = format!("{:?}", probe).rsplit("version:").next() == format!("{:?}", rec.d).rsplit("version:").next();
                    if same_version {
                        dangerous = true;
                    }
                }
                rec.d
            }
        };
        if dangerous {
            self.label("forge_dangerous");
        }
        self.count("forged_probes", 1);
        // decode the forged handle's fields from its Debug form
        let s = format!("{:?}", d);
        let nums: Vec<u64> = s.split(|c: char| !c.is_ascii_digit()).filter(|t| !t.is_empty()).filter_map(|t| t.parse().ok()).collect();
        if nums.len() != 3 {
            // the Debug format is not a contract: without the fields this probe cannot be judged
            return Ok(());
        }
        let (d_id, d_idx, d_ver) = (nums[0] as u8, nums[1] as usize, nums[2]);
        let my_id = self.infos[a].id;
        let all_paths: Vec<LookupPath> = BOOL_PATHS.iter().chain(VALUE_PATHS.iter()).copied().collect();
        let nroutes = all_paths.len() + 2;
        let r = route as usize % nroutes;
        let kind = (route as usize / nroutes) % 2;
        let mut key = if kind == 0 { Key::DirAny(d) } else { Key::DirU(d) };
        let world_level = |p: LookupPath| matches!(p, LookupPath::WContains | LookupPath::WToDirect | LookupPath::WView | LookupPath::WBorrow | LookupPath::Find | LookupPath::FindAny | LookupPath::FindWild | LookupPath::FindBorrow | LookupPath::FindBorrowAny | LookupPath::FindBorrowWild);
        let is_lookup = r < all_paths.len();
        let path = if is_lookup { all_paths[r] } else { LookupPath::AContains };
        if is_lookup && path.typed_only() {
            key = Key::DirU(d);
        }
        let level = if r == all_paths.len() { Level::World } else { Level::Arch };
        let target: Option<usize> = match key {
            Key::DirAny(_) => {
                let wl = if is_lookup { world_level(path) } else { level == Level::World };
                if wl {
                    self.arch_by_id(d_id)
                } else if d_id == my_id {
                    Some(a)
                } else {
                    None
                }
            }
            _ => Some(a),
        };
        // expected entity: version equals the target's current version and index < len
        let expected: Option<(usize, Raw)> = target.and_then(|t| {
            let tv = self.sims[si].archs[t].version;
            let tlen = self.sims[si].archs[t].live.len();
            if d_ver == tv && d_idx < tlen {
                // which entity sits at that dense index: public entities() slice
                let ents = catch(|| W::iterate(&mut self.sims[si].w, t, IterPath::Entities, None)).ok()?;
                ents.get(d_idx).and_then(|o| o.raw).map(|r| (t, r))
            } else {
                None
            }
        });
        if is_lookup {
            let res = catch(|| W::lookup(&mut self.sims[si].w, a, path, key));
            let name = self.infos[a].name;
            return match (res, expected) {
                (Err(m), _) => {
                    if allowed_panic(&m) {
                        self.label("forge_clean_panic");
                        Ok(())
                    } else {
                        Err(self.fail(&["C03"], "forge-panic", format!("{:?} with forged {} {:?} on {} panicked uncleanly: {}", path, key.kind_name(), d, name, m)))
                    }
                }
                (Ok(None), None) => Ok(()),
                (Ok(None), Some((t, m))) => {
                    let via_find = matches!(path, LookupPath::Find | LookupPath::FindAny | LookupPath::FindWild | LookupPath::FindBorrow | LookupPath::FindBorrowAny | LookupPath::FindBorrowWild);
                    if via_find && t != a {
                        Ok(())
                    } else {
                        Err(self.fail(&["C03", "C09"], "forge-missed-identical", format!("{:?} with {} {:?}, bit-identical to a valid direct handle of live entity {:?}, reported absence", path, key.kind_name(), d, m)))
                    }
                }
                (Ok(Some(o)), None) => Err(self.fail(&["C03"], "forge-accepted", format!("{:?} with forged {} {:?} on {} (len {}, version {}) was accepted (reached {:?})", path, key.kind_name(), d, name, self.sims[si].archs[a].live.len(), self.sims[si].archs[a].version, o.raw))),
                (Ok(Some(o)), Some((t, m))) => {
                    self.label("forge_matched_live");
                    if path.reads_values() && o.raw != Some(m) {
                        return Err(self.fail(&["C03"], "forge-wrong-entity", format!("{:?} with {} {:?} must reach {:?} (dense index {} of archetype index {}) but reached {:?}", path, key.kind_name(), d, m, d_idx, t, o.raw)));
                    }
                    Ok(())
                }
            };
        }
        // destroy with a forged direct handle
        if let Some((t, m)) = expected {
            if self.overflow_due_pub(si, t, m).is_some() {
                return Ok(());
            }
        }
        let res = catch(|| W::destroy(&mut self.sims[si].w, a, level, key));
        match (res, expected) {
            (Err(m), _) => {
                if allowed_panic(&m) {
                    self.label("forge_clean_panic");
                    Ok(())
                } else {
                    Err(self.fail(&["C03"], "forge-panic", format!("destroy({}, {:?}) with forged {:?} panicked uncleanly: {}", key.kind_name(), level, d, m)))
                }
            }
            (Ok(None), None) => Ok(()),
            (Ok(Some(_)), Some((t, m))) => {
                self.model_remove_pub(si, t, m);
                self.label("forge_matched_live");
                Ok(())
            }
            (Ok(None), Some((_, m))) => Err(self.fail(&["C03", "C09"], "forge-missed-identical", format!("destroy({}, {:?}) with {:?}, bit-identical to a valid direct handle of {:?}, reported absence", key.kind_name(), level, d, m))),
            (Ok(Some(_)), None) => Err(self.fail(&["C03"], "forge-accepted", format!("destroy({}, {:?}) accepted forged direct handle {:?} on {}", key.kind_name(), level, d, self.infos[a].name))),
        }
    }
}
