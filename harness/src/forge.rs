//! Forged-handle probes (C03). Filled in later.

use crate::driver::WorldDriver;
use crate::interp::*;

impl<'c, W: WorldDriver> Session<'c, W> {
    pub fn do_forge(&mut self, _si: usize, _a: usize, _class: u8, _x: u16, _y: u16, _route: u8) -> R {
        Ok(())
    }
}
