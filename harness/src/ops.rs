//! Operation alphabet of the history runner, its stable text form (replay files) and the
//! profile-dependent decoding from fixed-width records `(opcode u8, a u16, b u16, c u8)`.
//!
//! Indices inside ops are "soft": they are scaled onto the current table sizes at run time
//! (`i * n >> 16`, monotone, so shrinking a record moves towards smaller indices).

use std::fmt::Write as _;

/// A fixed-width record as produced by proptest / decoded from fuzzer bytes.
pub type Rec = (u8, u16, u16, u8);

#[derive(Clone, Debug, PartialEq, Eq, Hash)]
pub enum Op {
    /// one create through `path` (CreatePath index)
    Create { sim: u8, arch: u8, path: u8 },
    /// `n` creates in a row
    Burst { sim: u8, arch: u8, path: u8, n: u8 },
    /// `create_within_capacity` until it refuses
    Refill { sim: u8, arch: u8, path: u8 },
    /// destroy by handle `h` (any handle ever issued, live or stale);
    /// kind: 0 Entity<A>, 1 EntityAny, 2 EntityDirect<A> (minted now), 3 EntityDirectAny (minted now)
    Destroy { sim: u8, h: u16, kind: u8, level: u8 },
    /// destroy by a stored direct handle `d` (possibly long stale); typed or dynamic
    DestroyDirect { sim: u8, d: u16, typed: u8, level: u8 },
    /// `ecs_iter_destroy!` over one archetype; decision of visit i = (seed >> 2*(i%8)) & 3
    IterDestroy { sim: u8, arch: u8, variant: u8, seed: u16 },
    /// `ecs_iter_destroy!` over a cross-archetype query
    XIterDestroy { sim: u8, q: u8, seed: u16 },
    /// write a fresh stamp to column `col` of handle `h` through WritePath `path`; kind as Destroy
    Write { sim: u8, h: u16, path: u8, col: u8, kind: u8 },
    /// obtain direct handles for `h`: how = LookupPath index (paths that hand out a direct), kind as Destroy
    Mint { sim: u8, h: u16, how: u8, kind: u8 },
    /// iterate one archetype through IterPath `path`; brk: 0 = no break, k = break at visit k-1
    Iterate { sim: u8, arch: u8, path: u8, brk: u8 },
    /// iterate a cross-archetype query (ecs_iter! or ecs_iter_borrow!)
    XIterate { sim: u8, q: u8, borrow: u8, brk: u8 },
    /// clone the world (adds a simulation; at the limit the last one is dropped first)
    /// `into` = 0: `world.clone()`; k > 0: `dst.clone_from(&world)` into the existing simulation k-1
    CloneWorld { sim: u8, into: u8 },
    /// `std::mem::swap` of two worlds
    Swap { a: u8, b: u8 },
    /// drop a world (only if more than one exists)
    DropWorld { sim: u8 },
    /// clear events of one archetype (arch < n) or of the world (arch == 255)
    ClearEvents { sim: u8, arch: u8 },
    /// preset generations of an EMPTY archetype with capacity > 0 (hook): slot 0 gets
    /// `u32::MAX - d`, the others small values, archetype version consistent with that
    Preset { sim: u8, arch: u8, d: u8, spread: u8 },
    /// forged-handle probe (C03); class selects how the value is constructed, see forge.rs
    Forge { sim: u8, arch: u8, class: u8, x: u16, y: u16, route: u8 },
    /// full-intensity probe of everything
    Probe,
    /// `k * 1024` creations in a row through the cheap path (no per-entity probes): brings slot and
    /// dense indices beyond 16 bits into play. Never drawn by a profile; prepended by `--prefill`.
    Prefill { sim: u8, arch: u8, k: u8 },
}

/// Header of a history: which world, how it is constructed.
#[derive(Clone, Debug, PartialEq, Eq, Hash)]
pub struct Header {
    /// 0 = New, 1 = Default, 2 = WithCapacity
    pub ctor: u8,
    /// requested capacities per archetype (used with WithCapacity)
    pub caps: Vec<u32>,
}

pub const CAP_CHOICES: [u32; 16] = [0, 1, 2, 3, 4, 5, 8, 13, 16, 21, 32, 34, 55, 64, 100, 300];

impl Header {
    pub fn decode(bytes: &[u8], narch: usize) -> Header {
        let ctor = bytes.first().copied().unwrap_or(0) % 4;
        // 0 New, 1 Default, 2/3 WithCapacity
        let ctor = if ctor >= 2 { 2 } else { ctor };
        let caps = (0..narch)
            .map(|i| CAP_CHOICES[(bytes.get(1 + i).copied().unwrap_or(0) % 16) as usize])
            .collect();
        Header { ctor, caps }
    }
}

fn w(s: &mut String, name: &str, args: &[u32]) {
    s.push_str(name);
    for a in args {
        let _ = write!(s, " {}", a);
    }
}

impl Op {
    pub fn to_line(&self) -> String {
        let mut s = String::new();
        use Op::*;
        match *self {
            Create { sim, arch, path } => w(&mut s, "create", &[sim as u32, arch as u32, path as u32]),
            Burst { sim, arch, path, n } => w(&mut s, "burst", &[sim as u32, arch as u32, path as u32, n as u32]),
            Refill { sim, arch, path } => w(&mut s, "refill", &[sim as u32, arch as u32, path as u32]),
            Destroy { sim, h, kind, level } => w(&mut s, "destroy", &[sim as u32, h as u32, kind as u32, level as u32]),
            DestroyDirect { sim, d, typed, level } => w(&mut s, "destroy_direct", &[sim as u32, d as u32, typed as u32, level as u32]),
            IterDestroy { sim, arch, variant, seed } => w(&mut s, "iter_destroy", &[sim as u32, arch as u32, variant as u32, seed as u32]),
            XIterDestroy { sim, q, seed } => w(&mut s, "xiter_destroy", &[sim as u32, q as u32, seed as u32]),
            Write { sim, h, path, col, kind } => w(&mut s, "write", &[sim as u32, h as u32, path as u32, col as u32, kind as u32]),
            Mint { sim, h, how, kind } => w(&mut s, "mint", &[sim as u32, h as u32, how as u32, kind as u32]),
            Iterate { sim, arch, path, brk } => w(&mut s, "iterate", &[sim as u32, arch as u32, path as u32, brk as u32]),
            XIterate { sim, q, borrow, brk } => w(&mut s, "xiterate", &[sim as u32, q as u32, borrow as u32, brk as u32]),
            CloneWorld { sim, into } => {
                if into == 0 {
                    w(&mut s, "clone", &[sim as u32])
                } else {
                    w(&mut s, "clone", &[sim as u32, into as u32])
                }
            }
            Swap { a, b } => w(&mut s, "swap", &[a as u32, b as u32]),
            DropWorld { sim } => w(&mut s, "drop_world", &[sim as u32]),
            ClearEvents { sim, arch } => w(&mut s, "clear_events", &[sim as u32, arch as u32]),
            Preset { sim, arch, d, spread } => w(&mut s, "preset", &[sim as u32, arch as u32, d as u32, spread as u32]),
            Forge { sim, arch, class, x, y, route } => w(&mut s, "forge", &[sim as u32, arch as u32, class as u32, x as u32, y as u32, route as u32]),
            Probe => w(&mut s, "probe", &[]),
            Prefill { sim, arch, k } => w(&mut s, "prefill", &[sim as u32, arch as u32, k as u32]),
        }
        s
    }

    pub fn from_line(line: &str) -> Result<Op, String> {
        let line = line.split('#').next().unwrap().trim();
        let mut it = line.split_whitespace();
        let name = it.next().ok_or("empty line")?;
        let a: Vec<u32> = it.map(|t| t.parse::<u32>().map_err(|e| format!("{}: {}", t, e))).collect::<Result<_, _>>()?;
        let g = |i: usize| -> Result<u32, String> { a.get(i).copied().ok_or_else(|| format!("{}: missing argument {}", name, i)) };
        use Op::*;
        Ok(match name {
            "create" => Create { sim: g(0)? as u8, arch: g(1)? as u8, path: g(2)? as u8 },
            "burst" => Burst { sim: g(0)? as u8, arch: g(1)? as u8, path: g(2)? as u8, n: g(3)? as u8 },
            "refill" => Refill { sim: g(0)? as u8, arch: g(1)? as u8, path: g(2)? as u8 },
            "destroy" => Destroy { sim: g(0)? as u8, h: g(1)? as u16, kind: g(2)? as u8, level: g(3)? as u8 },
            "destroy_direct" => DestroyDirect { sim: g(0)? as u8, d: g(1)? as u16, typed: g(2)? as u8, level: g(3)? as u8 },
            "iter_destroy" => IterDestroy { sim: g(0)? as u8, arch: g(1)? as u8, variant: g(2)? as u8, seed: g(3)? as u16 },
            "xiter_destroy" => XIterDestroy { sim: g(0)? as u8, q: g(1)? as u8, seed: g(2)? as u16 },
            "write" => Write { sim: g(0)? as u8, h: g(1)? as u16, path: g(2)? as u8, col: g(3)? as u8, kind: g(4)? as u8 },
            "mint" => Mint { sim: g(0)? as u8, h: g(1)? as u16, how: g(2)? as u8, kind: g(3)? as u8 },
            "iterate" => Iterate { sim: g(0)? as u8, arch: g(1)? as u8, path: g(2)? as u8, brk: g(3)? as u8 },
            "xiterate" => XIterate { sim: g(0)? as u8, q: g(1)? as u8, borrow: g(2)? as u8, brk: g(3)? as u8 },
            "clone" => CloneWorld { sim: g(0)? as u8, into: a.get(1).copied().unwrap_or(0) as u8 },
            "swap" => Swap { a: g(0)? as u8, b: g(1)? as u8 },
            "drop_world" => DropWorld { sim: g(0)? as u8 },
            "clear_events" => ClearEvents { sim: g(0)? as u8, arch: g(1)? as u8 },
            "preset" => Preset { sim: g(0)? as u8, arch: g(1)? as u8, d: g(2)? as u8, spread: g(3)? as u8 },
            "forge" => Forge { sim: g(0)? as u8, arch: g(1)? as u8, class: g(2)? as u8, x: g(3)? as u16, y: g(4)? as u16, route: g(5)? as u8 },
            "probe" => Probe,
            "prefill" => Prefill { sim: g(0)? as u8, arch: g(1)? as u8, k: g(2)? as u8 },
            other => return Err(format!("unknown op '{}'", other)),
        })
    }
}

/// A complete, replayable case.
#[derive(Clone, Debug, PartialEq, Eq, Hash)]
pub struct Case {
    pub world: String,
    pub header: Header,
    pub ops: Vec<Op>,
}

impl Case {
    pub fn to_text(&self) -> String {
        let mut s = String::new();
        let _ = writeln!(s, "world {}", self.world);
        let _ = writeln!(s, "ctor {}", self.header.ctor);
        let _ = writeln!(s, "caps {}", self.header.caps.iter().map(|c| c.to_string()).collect::<Vec<_>>().join(" "));
        for op in &self.ops {
            let _ = writeln!(s, "{}", op.to_line());
        }
        s
    }

    pub fn from_text(text: &str) -> Result<Case, String> {
        let mut world = None;
        let mut ctor = 0u8;
        let mut caps = Vec::new();
        let mut ops = Vec::new();
        for line in text.lines() {
            let l = line.split('#').next().unwrap().trim();
            if l.is_empty() {
                continue;
            }
            if let Some(r) = l.strip_prefix("world ") {
                world = Some(r.trim().to_string());
            } else if let Some(r) = l.strip_prefix("ctor ") {
                ctor = r.trim().parse().map_err(|e| format!("ctor: {}", e))?;
            } else if l.starts_with("inject ") {
                // fault-injection directive of C10 replays: parsed by c10::parse_inject
            } else if let Some(r) = l.strip_prefix("caps") {
                caps = r.split_whitespace().map(|t| t.parse::<u32>().map_err(|e| format!("caps: {}", e))).collect::<Result<_, _>>()?;
            } else {
                ops.push(Op::from_line(l)?);
            }
        }
        Ok(Case { world: world.ok_or("missing 'world' line")?, header: Header { ctor, caps }, ops })
    }

    pub fn hash(&self) -> u64 {
        crate::util::fnv(self.to_text().as_bytes())
    }
}

/// Kinds of ops a profile can draw, with weights. The opcode byte is mapped through the
/// cumulative weights (monotone), so opcode 0 is always the first kind listed.
#[derive(Clone, Copy, Debug, PartialEq, Eq)]
pub enum Kind {
    Create,
    Burst,
    Refill,
    Destroy,
    DestroyDirect,
    IterDestroy,
    XIterDestroy,
    Write,
    Mint,
    Iterate,
    XIterate,
    CloneWorld,
    Swap,
    DropWorld,
    ClearEvents,
    Preset,
    Forge,
    Probe,
}

#[derive(Clone, Debug)]
pub struct Profile {
    pub name: &'static str,
    pub weights: Vec<(Kind, u32)>,
}

impl Profile {
    pub fn decode(&self, rec: Rec) -> Op {
        let (opc, a, b, c) = rec;
        let total: u32 = self.weights.iter().map(|w| w.1).sum();
        let x = (opc as u32 * total) >> 8;
        let mut acc = 0;
        let mut kind = self.weights[0].0;
        for (k, wt) in &self.weights {
            acc += wt;
            if x < acc {
                kind = *k;
                break;
            }
        }
        let sim = (c >> 6) as u8; // 0..3, scaled onto the live sims at run time
        let lo = c & 0x3f;
        match kind {
            Kind::Create => Op::Create { sim, arch: (a & 0xff) as u8, path: lo },
            Kind::Burst => Op::Burst { sim, arch: (a & 0xff) as u8, path: lo, n: (b % 24) as u8 + 1 },
            Kind::Refill => Op::Refill { sim, arch: (a & 0xff) as u8, path: lo },
            Kind::Destroy => Op::Destroy { sim, h: a, kind: (b & 3) as u8, level: ((b >> 2) & 1) as u8 },
            Kind::DestroyDirect => Op::DestroyDirect { sim, d: a, typed: (b & 1) as u8, level: ((b >> 1) & 1) as u8 },
            Kind::IterDestroy => Op::IterDestroy { sim, arch: (a & 0xff) as u8, variant: lo, seed: b },
            Kind::XIterDestroy => Op::XIterDestroy { sim, q: (a & 0xff) as u8, seed: b },
            Kind::Write => Op::Write { sim, h: a, path: (b & 0xff) as u8, col: (b >> 8) as u8, kind: lo & 3 },
            Kind::Mint => Op::Mint { sim, h: a, how: (b & 0xff) as u8, kind: lo & 3 },
            Kind::Iterate => Op::Iterate { sim, arch: (a & 0xff) as u8, path: (b & 0xff) as u8, brk: lo % 12 },
            Kind::XIterate => Op::XIterate { sim, q: (a & 0xff) as u8, borrow: (b & 1) as u8, brk: lo % 12 },
            Kind::CloneWorld => Op::CloneWorld { sim, into: if lo % 3 == 2 { 1 + ((lo >> 2) & 3) } else { 0 } },
            Kind::Swap => Op::Swap { a: (a & 3) as u8, b: (b & 3) as u8 },
            Kind::DropWorld => Op::DropWorld { sim },
            Kind::ClearEvents => Op::ClearEvents { sim, arch: if b & 3 == 0 { 255 } else { (a & 0xff) as u8 } },
            Kind::Preset => Op::Preset { sim, arch: (a & 0xff) as u8, d: (b % 6) as u8, spread: lo % 4 },
            Kind::Forge => Op::Forge { sim, arch: (a >> 8) as u8, class: (a & 0xff) as u8, x: b, y: ((c as u16) << 8) | (a ^ b) & 0xff, route: lo },
            Kind::Probe => Op::Probe,
        }
    }

    pub fn decode_all(&self, recs: &[Rec]) -> Vec<Op> {
        recs.iter().map(|r| self.decode(*r)).collect()
    }
}

/// Monotone scaling of a soft index onto `0..n`.
#[inline]
pub fn scale(i: u16, n: usize) -> usize {
    if n == 0 {
        0
    } else {
        ((i as usize) * n) >> 16
    }
}

/// Scaling of a small selector (u8 that is already "roughly an index") onto `0..n`.
#[inline]
pub fn pick(i: u8, n: usize) -> usize {
    if n == 0 {
        0
    } else {
        (i as usize) % n
    }
}
