; ModuleID = 'probe0.6c2779e547e7c6b5-cgu.0'
source_filename = "probe0.6c2779e547e7c6b5-cgu.0"
target datalayout = "e-m:e-p270:32:32-p271:32:32-p272:64:64-i64:64-i128:128-f80:128-n8:16:32:64-S128"
target triple = "x86_64-unknown-linux-gnu"

$asan.module_ctor = comdat any

@llvm.used = appending global [1 x ptr] [ptr @asan.module_ctor], section "llvm.metadata"
@___asan_globals_registered = common hidden global i64 0
@__start_asan_globals = extern_weak hidden global i64
@__stop_asan_globals = extern_weak hidden global i64
@llvm.global_ctors = appending global [1 x { i32, ptr, ptr }] [{ i32, ptr, ptr } { i32 1, ptr @asan.module_ctor, ptr @asan.module_ctor }]

declare void @__asan_before_dynamic_init(i64)

declare void @__asan_after_dynamic_init()

declare void @__asan_register_globals(i64, i64)

declare void @__asan_unregister_globals(i64, i64)

declare void @__asan_register_image_globals(i64)

declare void @__asan_unregister_image_globals(i64)

declare void @__asan_register_elf_globals(i64, i64, i64)

declare void @__asan_unregister_elf_globals(i64, i64, i64)

declare void @__asan_init()

; Function Attrs: nounwind
define internal void @asan.module_ctor() #0 comdat {
  call void @__asan_init()
  call void @__asan_version_mismatch_check_v8()
  call void @__asan_register_elf_globals(i64 ptrtoint (ptr @___asan_globals_registered to i64), i64 ptrtoint (ptr @__start_asan_globals to i64), i64 ptrtoint (ptr @__stop_asan_globals to i64))
  ret void
}

declare void @__asan_version_mismatch_check_v8()

attributes #0 = { nounwind }

!llvm.module.flags = !{!0, !1, !2}
!llvm.ident = !{!3}

!0 = !{i32 8, !"PIC Level", i32 2}
!1 = !{i32 2, !"RtLibUseGOT", i32 1}
!2 = !{i32 4, !"nosanitize_address", i32 1}
!3 = !{!"rustc version 1.97.0-nightly (ad3a598ca 2026-05-03)"}
