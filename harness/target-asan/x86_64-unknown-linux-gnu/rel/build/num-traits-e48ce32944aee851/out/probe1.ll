; ModuleID = 'probe1.1b5804d105718845-cgu.0'
source_filename = "probe1.1b5804d105718845-cgu.0"
target datalayout = "e-m:e-p270:32:32-p271:32:32-p272:64:64-i64:64-i128:128-f80:128-n8:16:32:64-S128"
target triple = "x86_64-unknown-linux-gnu"

$asan.module_ctor = comdat any

$asan.module_dtor = comdat any

$alloc_f93507f8ba4b5780b14b2c2584609be0.eddae01237c685b25f2d54306ec73c9c = comdat any

$alloc_ef0a1f828f3393ef691f2705e817091c.eddae01237c685b25f2d54306ec73c9c = comdat any

@alloc_f93507f8ba4b5780b14b2c2584609be0 = internal constant { [8 x i8], [24 x i8] } { [8 x i8] c"\00\00\00\00\00\00\F0?", [24 x i8] zeroinitializer }, comdat($alloc_f93507f8ba4b5780b14b2c2584609be0.eddae01237c685b25f2d54306ec73c9c), align 32
@alloc_ef0a1f828f3393ef691f2705e817091c = internal constant { [8 x i8], [24 x i8] } { [8 x i8] c"\00\00\00\00\00\00\00@", [24 x i8] zeroinitializer }, comdat($alloc_ef0a1f828f3393ef691f2705e817091c.eddae01237c685b25f2d54306ec73c9c), align 32
@___asan_gen_global = private unnamed_addr constant [39 x i8] c"alloc_f93507f8ba4b5780b14b2c2584609be0\00", align 1
@___asan_gen_module = private constant [30 x i8] c"probe1.1b5804d105718845-cgu.0\00", align 1
@___asan_gen_global.1 = private unnamed_addr constant [39 x i8] c"alloc_ef0a1f828f3393ef691f2705e817091c\00", align 1
@__asan_global_alloc_f93507f8ba4b5780b14b2c2584609be0 = private global { i64, i64, i64, i64, i64, i64, i64, i64 } { i64 ptrtoint (ptr @anon.a6ff5b060991134e51f6a9d27db0f8d5.0 to i64), i64 8, i64 32, i64 ptrtoint (ptr @___asan_gen_global to i64), i64 ptrtoint (ptr @___asan_gen_module to i64), i64 0, i64 0, i64 -1 }, section "asan_globals", comdat($alloc_f93507f8ba4b5780b14b2c2584609be0.eddae01237c685b25f2d54306ec73c9c), !associated !0
@__asan_global_alloc_ef0a1f828f3393ef691f2705e817091c = private global { i64, i64, i64, i64, i64, i64, i64, i64 } { i64 ptrtoint (ptr @anon.a6ff5b060991134e51f6a9d27db0f8d5.1 to i64), i64 8, i64 32, i64 ptrtoint (ptr @___asan_gen_global.1 to i64), i64 ptrtoint (ptr @___asan_gen_module to i64), i64 0, i64 0, i64 -1 }, section "asan_globals", comdat($alloc_ef0a1f828f3393ef691f2705e817091c.eddae01237c685b25f2d54306ec73c9c), !associated !1
@llvm.compiler.used = appending global [4 x ptr] [ptr @alloc_f93507f8ba4b5780b14b2c2584609be0, ptr @alloc_ef0a1f828f3393ef691f2705e817091c, ptr @__asan_global_alloc_f93507f8ba4b5780b14b2c2584609be0, ptr @__asan_global_alloc_ef0a1f828f3393ef691f2705e817091c], section "llvm.metadata"
@___asan_globals_registered = common hidden global i64 0
@__start_asan_globals = extern_weak hidden global i64
@__stop_asan_globals = extern_weak hidden global i64
@llvm.used = appending global [2 x ptr] [ptr @asan.module_ctor, ptr @asan.module_dtor], section "llvm.metadata"
@llvm.global_ctors = appending global [1 x { i32, ptr, ptr }] [{ i32, ptr, ptr } { i32 1, ptr @asan.module_ctor, ptr @asan.module_ctor }]
@llvm.global_dtors = appending global [1 x { i32, ptr, ptr }] [{ i32, ptr, ptr } { i32 1, ptr @asan.module_dtor, ptr @asan.module_dtor }]

@anon.a6ff5b060991134e51f6a9d27db0f8d5.0 = private alias { [8 x i8], [24 x i8] }, ptr @alloc_f93507f8ba4b5780b14b2c2584609be0
@anon.a6ff5b060991134e51f6a9d27db0f8d5.1 = private alias { [8 x i8], [24 x i8] }, ptr @alloc_ef0a1f828f3393ef691f2705e817091c

; probe1::probe
; Function Attrs: nonlazybind sanitize_address uwtable
define void @_RNvCs2ly8eUAtcdl_6probe15probe() unnamed_addr #0 {
start:
; call <f64>::total_cmp
  %_1 = call i8 @_RNvMNtCsanpdEcSfypT_4core3f64d9total_cmpCs2ly8eUAtcdl_6probe1(ptr align 8 @alloc_f93507f8ba4b5780b14b2c2584609be0, ptr align 8 @alloc_ef0a1f828f3393ef691f2705e817091c) #4
  ret void
}

; <f64>::total_cmp
; Function Attrs: inlinehint nonlazybind sanitize_address uwtable
define internal i8 @_RNvMNtCsanpdEcSfypT_4core3f64d9total_cmpCs2ly8eUAtcdl_6probe1(ptr align 8 %self, ptr align 8 %other) unnamed_addr #1 {
start:
  %_6 = alloca [8 x i8], align 8
  %_3 = alloca [8 x i8], align 8
  %0 = ptrtoint ptr %self to i64
  %1 = lshr i64 %0, 3
  %2 = add i64 %1, 2147450880
  %3 = inttoptr i64 %2 to ptr
  %4 = load i8, ptr %3, align 1
  %5 = icmp ne i8 %4, 0
  br i1 %5, label %6, label %7

6:                                                ; preds = %start
  call void @__asan_report_load8(i64 %0) #5
  unreachable

7:                                                ; preds = %start
  %_5 = load double, ptr %self, align 8
  %_4 = bitcast double %_5 to i64
  store i64 %_4, ptr %_3, align 8
  %8 = ptrtoint ptr %other to i64
  %9 = lshr i64 %8, 3
  %10 = add i64 %9, 2147450880
  %11 = inttoptr i64 %10 to ptr
  %12 = load i8, ptr %11, align 1
  %13 = icmp ne i8 %12, 0
  br i1 %13, label %14, label %15

14:                                               ; preds = %7
  call void @__asan_report_load8(i64 %8) #5
  unreachable

15:                                               ; preds = %7
  %_8 = load double, ptr %other, align 8
  %_7 = bitcast double %_8 to i64
  store i64 %_7, ptr %_6, align 8
  %_13 = load i64, ptr %_3, align 8
  %_12 = ashr i64 %_13, 63
  %_10 = lshr i64 %_12, 1
  %16 = load i64, ptr %_3, align 8
  %17 = xor i64 %16, %_10
  store i64 %17, ptr %_3, align 8
  %_18 = load i64, ptr %_6, align 8
  %_17 = ashr i64 %_18, 63
  %_15 = lshr i64 %_17, 1
  %18 = load i64, ptr %_6, align 8
  %19 = xor i64 %18, %_15
  store i64 %19, ptr %_6, align 8
  %20 = load i64, ptr %_3, align 8
  %21 = load i64, ptr %_6, align 8
  %_0 = call i8 @llvm.scmp.i8.i64(i64 %20, i64 %21)
  ret i8 %_0
}

; Function Attrs: nocallback nocreateundeforpoison nofree nosync nounwind speculatable willreturn memory(none)
declare range(i8 -1, 2) i8 @llvm.scmp.i8.i64(i64, i64) #2

declare void @__asan_report_load_n(i64, i64)

declare void @__asan_loadN(i64, i64)

declare void @__asan_report_load1(i64)

declare void @__asan_load1(i64)

declare void @__asan_report_load2(i64)

declare void @__asan_load2(i64)

declare void @__asan_report_load4(i64)

declare void @__asan_load4(i64)

declare void @__asan_report_load8(i64)

declare void @__asan_load8(i64)

declare void @__asan_report_load16(i64)

declare void @__asan_load16(i64)

declare void @__asan_report_store_n(i64, i64)

declare void @__asan_storeN(i64, i64)

declare void @__asan_report_store1(i64)

declare void @__asan_store1(i64)

declare void @__asan_report_store2(i64)

declare void @__asan_store2(i64)

declare void @__asan_report_store4(i64)

declare void @__asan_store4(i64)

declare void @__asan_report_store8(i64)

declare void @__asan_store8(i64)

declare void @__asan_report_store16(i64)

declare void @__asan_store16(i64)

declare void @__asan_report_exp_load_n(i64, i64, i32)

declare void @__asan_exp_loadN(i64, i64, i32)

declare void @__asan_report_exp_load1(i64, i32)

declare void @__asan_exp_load1(i64, i32)

declare void @__asan_report_exp_load2(i64, i32)

declare void @__asan_exp_load2(i64, i32)

declare void @__asan_report_exp_load4(i64, i32)

declare void @__asan_exp_load4(i64, i32)

declare void @__asan_report_exp_load8(i64, i32)

declare void @__asan_exp_load8(i64, i32)

declare void @__asan_report_exp_load16(i64, i32)

declare void @__asan_exp_load16(i64, i32)

declare void @__asan_report_exp_store_n(i64, i64, i32)

declare void @__asan_exp_storeN(i64, i64, i32)

declare void @__asan_report_exp_store1(i64, i32)

declare void @__asan_exp_store1(i64, i32)

declare void @__asan_report_exp_store2(i64, i32)

declare void @__asan_exp_store2(i64, i32)

declare void @__asan_report_exp_store4(i64, i32)

declare void @__asan_exp_store4(i64, i32)

declare void @__asan_report_exp_store8(i64, i32)

declare void @__asan_exp_store8(i64, i32)

declare void @__asan_report_exp_store16(i64, i32)

declare void @__asan_exp_store16(i64, i32)

declare ptr @__asan_memmove(ptr, ptr, i64)

declare ptr @__asan_memcpy(ptr, ptr, i64)

declare ptr @__asan_memset(ptr, i32, i64)

declare void @__asan_handle_no_return()

declare void @__sanitizer_ptr_cmp(i64, i64)

declare void @__sanitizer_ptr_sub(i64, i64)

; Function Attrs: nocallback nocreateundeforpoison nofree nosync nounwind speculatable willreturn memory(none)
declare i1 @llvm.amdgcn.is.shared(ptr) #2

; Function Attrs: nocallback nocreateundeforpoison nofree nosync nounwind speculatable willreturn memory(none)
declare i1 @llvm.amdgcn.is.private(ptr) #2

declare void @__asan_before_dynamic_init(i64)

declare void @__asan_after_dynamic_init()

declare void @__asan_register_globals(i64, i64)

declare void @__asan_unregister_globals(i64, i64)

declare void @__asan_register_image_globals(i64)

declare void @__asan_unregister_image_globals(i64)

declare void @__asan_register_elf_globals(i64, i64, i64)

declare void @__asan_unregister_elf_globals(i64, i64, i64)

declare void @__asan_init()

; Function Attrs: nounwind
define internal void @asan.module_ctor() #3 comdat {
  call void @__asan_init()
  call void @__asan_version_mismatch_check_v8()
  call void @__asan_register_elf_globals(i64 ptrtoint (ptr @___asan_globals_registered to i64), i64 ptrtoint (ptr @__start_asan_globals to i64), i64 ptrtoint (ptr @__stop_asan_globals to i64))
  ret void
}

declare void @__asan_version_mismatch_check_v8()

; Function Attrs: nounwind
define internal void @asan.module_dtor() #3 comdat {
  call void @__asan_unregister_elf_globals(i64 ptrtoint (ptr @___asan_globals_registered to i64), i64 ptrtoint (ptr @__start_asan_globals to i64), i64 ptrtoint (ptr @__stop_asan_globals to i64))
  ret void
}

attributes #0 = { nonlazybind sanitize_address uwtable "target-cpu"="x86-64" }
attributes #1 = { inlinehint nonlazybind sanitize_address uwtable "target-cpu"="x86-64" }
attributes #2 = { nocallback nocreateundeforpoison nofree nosync nounwind speculatable willreturn memory(none) }
attributes #3 = { nounwind }
attributes #4 = { inlinehint }
attributes #5 = { nomerge }

!llvm.module.flags = !{!2, !3, !4}
!llvm.ident = !{!5}

!0 = !{ptr @alloc_f93507f8ba4b5780b14b2c2584609be0}
!1 = !{ptr @alloc_ef0a1f828f3393ef691f2705e817091c}
!2 = !{i32 8, !"PIC Level", i32 2}
!3 = !{i32 2, !"RtLibUseGOT", i32 1}
!4 = !{i32 4, !"nosanitize_address", i32 1}
!5 = !{!"rustc version 1.97.0-nightly (ad3a598ca 2026-05-03)"}
