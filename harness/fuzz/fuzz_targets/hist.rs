#![no_main]
//! libFuzzer target: bytes -> (profile, world, header, op records) -> the same interpreter and
//! oracle suite as the proptest front end. Any oracle failure aborts (the message on stderr names
//! the property tags), so libFuzzer saves the input as an artifact; `vh-run decode` turns it into
//! a replayable .ops file.

use libfuzzer_sys::fuzz_target;

fuzz_target!(|data: &[u8]| {
    // libfuzzer-sys aborts on every panic, caught or not; the harness catches panics on purpose
    std::panic::set_hook(Box::new(|_| {}));
    if let Some((case, _)) = vh::fuzzdec::decode(data) {
        if let Some(f) = vh::fuzzdec::run(&case) {
            eprintln!("ORACLE-FAILURE tags={} sig={} step={} msg={}", f.tags.join("+"), f.sig, f.step, f.msg);
            std::process::abort();
        }
    }
});
