; ModuleID = 'probe1.103258e1af9ac305-cgu.0'
source_filename = "probe1.103258e1af9ac305-cgu.0"
target datalayout = "e-m:e-p270:32:32-p271:32:32-p272:64:64-i64:64-i128:128-f80:128-n8:16:32:64-S128"
target triple = "x86_64-unknown-linux-gnu"

@alloc_f93507f8ba4b5780b14b2c2584609be0 = private unnamed_addr constant [8 x i8] c"\00\00\00\00\00\00\F0?", align 8
@alloc_ef0a1f828f3393ef691f2705e817091c = private unnamed_addr constant [8 x i8] c"\00\00\00\00\00\00\00@", align 8

; core::f64::<impl f64>::total_cmp
; Function Attrs: inlinehint nonlazybind uwtable
define internal i8 @"_ZN4core3f6421_$LT$impl$u20$f64$GT$9total_cmp17h2464dd2b82c7459bE"(ptr align 8 %self, ptr align 8 %other) unnamed_addr #0 {
start:
  %_6 = alloca [8 x i8], align 8
  %_3 = alloca [8 x i8], align 8
  %_5 = load double, ptr %self, align 8
  %_4 = bitcast double %_5 to i64
  store i64 %_4, ptr %_3, align 8
  %_8 = load double, ptr %other, align 8
  %_7 = bitcast double %_8 to i64
  store i64 %_7, ptr %_6, align 8
  %_13 = load i64, ptr %_3, align 8
  %_12 = ashr i64 %_13, 63
  %_10 = lshr i64 %_12, 1
  %0 = load i64, ptr %_3, align 8
  %1 = xor i64 %0, %_10
  store i64 %1, ptr %_3, align 8
  %_18 = load i64, ptr %_6, align 8
  %_17 = ashr i64 %_18, 63
  %_15 = lshr i64 %_17, 1
  %2 = load i64, ptr %_6, align 8
  %3 = xor i64 %2, %_15
  store i64 %3, ptr %_6, align 8
  %4 = load i64, ptr %_3, align 8
  %5 = load i64, ptr %_6, align 8
  %_0 = call i8 @llvm.scmp.i8.i64(i64 %4, i64 %5)
  ret i8 %_0
}

; probe1::probe
; Function Attrs: nonlazybind uwtable
define void @_ZN6probe15probe17ha84fcc02d0d1c740E() unnamed_addr #1 {
start:
; call core::f64::<impl f64>::total_cmp
  %_1 = call i8 @"_ZN4core3f6421_$LT$impl$u20$f64$GT$9total_cmp17h2464dd2b82c7459bE"(ptr align 8 @alloc_f93507f8ba4b5780b14b2c2584609be0, ptr align 8 @alloc_ef0a1f828f3393ef691f2705e817091c) #3
  ret void
}

; Function Attrs: nocallback nocreateundeforpoison nofree nosync nounwind speculatable willreturn memory(none)
declare range(i8 -1, 2) i8 @llvm.scmp.i8.i64(i64, i64) #2

attributes #0 = { inlinehint nonlazybind uwtable "probe-stack"="inline-asm" "target-cpu"="x86-64" }
attributes #1 = { nonlazybind uwtable "probe-stack"="inline-asm" "target-cpu"="x86-64" }
attributes #2 = { nocallback nocreateundeforpoison nofree nosync nounwind speculatable willreturn memory(none) }
attributes #3 = { inlinehint }

!llvm.module.flags = !{!0, !1}
!llvm.ident = !{!2}

!0 = !{i32 8, !"PIC Level", i32 2}
!1 = !{i32 2, !"RtLibUseGOT", i32 1}
!2 = !{!"rustc version 1.95.0 (59807616e 2026-04-14)"}
