#!/usr/bin/env python3
"""Helper for seeded changes.

  seedtool.py confirm <worktree> <X> [--features F]   confirm a seed inside a scratch worktree:
        existing tests pass with the change, demo fails with it and passes without it
  seedtool.py run <patch.diff> <prop> [<prop> ...]     apply to /repo, run quick checks, revert
  seedtool.py keep <worktree> <X> <id> <prop> "<needs>" "<ran>"   copy into /verif/seeded/<id>/
"""
import json
import os
import shutil
import subprocess
import sys

VERIF = os.path.dirname(os.path.dirname(os.path.abspath(__file__)))
ENV = dict(os.environ, CARGO_NET_OFFLINE="true")


def sh(cmd, cwd, timeout=1800):
    p = subprocess.run(cmd, cwd=cwd, shell=True, env=ENV, stdout=subprocess.PIPE, stderr=subprocess.STDOUT, text=True, timeout=timeout)
    return p.returncode, p.stdout


def test_summary(out):
    passed = failed = 0
    for l in out.splitlines():
        if l.startswith("test result:"):
            parts = l.split()
            passed += int(parts[3])
            failed += int(parts[5])
    return passed, failed


def confirm(wt, x, features=""):
    seed = os.path.join(wt, "SEEDS", x)
    patch = os.path.join(seed, "patch.diff")
    demo_rs = os.path.join(seed, "demo.rs")
    demo_sh = os.path.join(seed, "demo.sh")
    feat = ("--features " + features) if features else ""
    rc, out = sh("git status --porcelain --untracked-files=no", wt)
    assert out.strip() == "", "worktree has tracked modifications: " + out
    demo_dst = os.path.join(wt, "tests", "zz_seed_demo.rs")
    use_sh = os.path.exists(demo_sh)

    def run_demo():
        if use_sh:
            rc, out = sh("bash %s 2>&1" % demo_sh, wt)
            return rc, out[-300:].replace("\n", " | ")
        shutil.copyfile(demo_rs, demo_dst)
        try:
            rc, out = sh("cargo test --offline %s --test zz_seed_demo 2>&1" % feat, wt)
            return rc, test_summary(out)
        finally:
            os.remove(demo_dst)

    res = {"demo": "demo.sh" if use_sh else "demo.rs"}
    try:
        res["demo_without_change"] = run_demo()
        rc, out = sh("git apply %s" % patch, wt)
        assert rc == 0, "patch does not apply: " + out
        res["demo_with_change"] = run_demo()
        rc, out = sh("cargo test --workspace --no-fail-fast --offline 2>&1", wt)
        res["suite_with_change"] = (rc, test_summary(out))
        rc, out = sh("cargo test --workspace --no-fail-fast --offline --features events 2>&1", wt)
        res["suite_with_change_events"] = (rc, test_summary(out))
    finally:
        if os.path.exists(demo_dst):
            os.remove(demo_dst)
        sh("git checkout -- .", wt)
        sh("git clean -fdq tests examples", wt)
    ok = (res["demo_without_change"][0] == 0 and res["demo_with_change"][0] != 0 and res["suite_with_change"][0] == 0 and res["suite_with_change_events"][0] == 0)
    print(json.dumps(res))
    print("CONFIRMED" if ok else "NOT CONFIRMED")
    return ok


def run(patch, props, tier="quick"):
    rc, out = sh("git status --porcelain --untracked-files=no", "/repo")
    assert out.strip() == "", "/repo has tracked modifications: " + out
    rc, out = sh("git apply %s" % os.path.abspath(patch), "/repo")
    assert rc == 0, "patch does not apply to /repo: " + out
    results = {}
    try:
        for p in props:
            rc, out = sh("./check %s --tier %s" % (p, tier), VERIF, timeout=7200)
            lines = [l for l in out.splitlines() if l.startswith(("VIOLATION", "OK", "INCONCLUSIVE", "KNOWN", "  signature"))]
            results[p] = (rc, lines[:4])
            print(p, rc, " | ".join(lines[:3])[:300], flush=True)
    finally:
        sh("git checkout -- .", "/repo")
    return results


def harvest(sid, prop):
    """Applies seeded/<sid>/patch.diff, runs the quick check of <prop>, and keeps the replay files it
    produced as committed regression inputs replays/<prop>/seed-<sid>*; then checks on the clean
    tree that they pass."""
    import glob
    patch = os.path.join(VERIF, "seeded", sid, "patch.diff")
    rc, out = sh("git status --porcelain --untracked-files=no", "/repo")
    assert out.strip() == "", "/repo has tracked modifications: " + out
    rc, out = sh("git apply %s" % patch, "/repo")
    assert rc == 0, "patch does not apply: " + out
    kept = []
    try:
        rc, out = sh("./check %s --tier quick" % prop, VERIF, timeout=7200)
        found = os.path.join(VERIF, "replays", prop, "found")
        sigs = set()
        for line in out.splitlines():
            if line.startswith("VIOLATION"):
                path = line.split("replay=", 1)[1].strip()
                if not os.path.exists(path) or "/found/" not in path:
                    continue  # already a committed regression input
                base = os.path.basename(path.rstrip("/"))
                ext = os.path.splitext(base)[1] if os.path.isfile(path) else ""
                dst = os.path.join(VERIF, "replays", prop, "seed-%s-%d%s" % (sid, len(kept), ext))
                if os.path.isdir(path):
                    shutil.rmtree(dst, ignore_errors=True)
                    shutil.copytree(path, dst)
                else:
                    if "crash" in base and ext == ".ops" and os.path.getsize(path) > 20000:
                        continue
                    shutil.copyfile(path, dst)
                kept.append(dst)
                if len(kept) >= 2:
                    break
        print(sid, prop, "check rc", rc, "kept", [os.path.basename(k) for k in kept])
        sigs = [l.split("signature:", 1)[1].strip() for l in out.splitlines() if "signature:" in l]
        verdict = {0: "MISSED", 1: "caught", 2: "inconclusive"}.get(rc, "rc=%s" % rc)
        with open(os.path.join(VERIF, "seeded", "RESULTS.tsv"), "a") as f:
            f.write("%s\t%s\t%s\t%s\t%s\n" % (sid, prop, verdict, ",".join(sorted(set(sigs)))[:200], ",".join(os.path.basename(k) for k in kept)))
    finally:
        sh("git checkout -- .", "/repo")
    return kept


def keep(wt, x, sid, prop, needs, ran):
    src = os.path.join(wt, "SEEDS", x)
    dst = os.path.join(VERIF, "seeded", sid)
    os.makedirs(dst, exist_ok=True)
    for f in ("patch.diff", "demo.rs", "demo.sh", "NOTES.md"):
        if os.path.exists(os.path.join(src, f)):
            shutil.copyfile(os.path.join(src, f), os.path.join(dst, f))
    meta = {"id": sid, "breaks_property": prop, "needs_to_manifest": needs, "confirmed_by": ran}
    with open(os.path.join(dst, "meta.json"), "w") as f:
        json.dump(meta, f, indent=1)
        f.write("\n")
    print("kept", dst)


if __name__ == "__main__":
    cmd = sys.argv[1]
    if cmd == "confirm":
        feats = ""
        if "--features" in sys.argv:
            feats = sys.argv[sys.argv.index("--features") + 1]
        sys.exit(0 if confirm(sys.argv[2], sys.argv[3], feats) else 1)
    elif cmd == "run":
        tier = "quick"
        args = sys.argv[2:]
        if "--tier" in args:
            i = args.index("--tier")
            tier = args[i + 1]
            del args[i:i + 2]
        run(args[0], args[1:], tier)
    elif cmd == "harvest":
        harvest(sys.argv[2], sys.argv[3])
    elif cmd == "keep":
        keep(*sys.argv[2:8])
