#!/bin/bash
# Runs every seeded change against the quick check of the property it was written for, records
# the verdict in seeded/RESULTS.tsv and keeps up to two replay files per seed as regression inputs.
cd "$(dirname "$0")/.."
: > seeded/RESULTS.tsv
for d in seeded/*/; do
  sid=$(basename $d)
  prop=$(python3 -c "import json,sys;print(json.load(open('$d/meta.json'))['breaks_property'].split()[0])")
  python3 tools/seedtool.py harvest $sid $prop 2>&1 | tail -1
done
git -C /repo status --short
