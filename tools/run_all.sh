#!/bin/bash
# Runs every claimed check once (tier from $1, default quick) and prints a summary.
cd "$(dirname "$0")/.."
tier=${1:-quick}
for p in $(python3 -c "import json;print(' '.join(c['property_id'] for c in json.load(open('MANIFEST.json'))['checks']))"); do
  start=$(date +%s)
  out=$(./check $p --tier $tier 2>&1); rc=$?
  echo "$p rc=$rc $(( $(date +%s) - start ))s $(echo "$out" | grep -E '^(OK|VIOLATION|INCONCLUSIVE|KNOWN)' | head -2 | tr '\n' ' ')"
done
