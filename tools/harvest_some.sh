#!/bin/bash
# harvest only the seeds matching a glob (default: round 3), appending to seeded/RESULTS.tsv
cd "$(dirname "$0")/.."
pat=${1:-R3}
for d in seeded/*-${pat}*/; do
  sid=$(basename $d)
  grep -q "^$sid	" seeded/RESULTS.tsv && continue
  prop=$(python3 -c "import json,sys;print(json.load(open('$d/meta.json'))['breaks_property'].split()[0])")
  python3 tools/seedtool.py harvest $sid $prop 2>&1 | tail -1
done
git -C /repo status --short
