#!/bin/bash
# confirm_round.sh <dir-with-worktrees> <P> [<P> ...]: confirms SEEDS/A and SEEDS/B of each worktree
# (sequentially inside a worktree, worktrees in parallel); logs to <dir>/confirm-<P>-<X>.log
D=$1; shift
for P in "$@"; do
  (
    for X in A B; do
      [ -f $D/$P/SEEDS/$X/patch.diff ] || continue
      F=""
      if [ -f $D/$P/SEEDS/$X/NOTES.md ] && grep -qiE -- "--features[ =]+\"?events|features: *events|feature .?events.? " $D/$P/SEEDS/$X/NOTES.md; then F="--features events"; fi
      if [ -f $D/$P/SEEDS/$X/FEATURES ]; then F="--features $(cat $D/$P/SEEDS/$X/FEATURES)"; fi
      python3 /verif/tools/seedtool.py confirm $D/$P $X $F > $D/confirm-$P-$X.log 2>&1
      echo "$P $X $(tail -1 $D/confirm-$P-$X.log)"
    done
  ) &
done
wait
