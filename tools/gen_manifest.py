#!/usr/bin/env python3
"""Regenerates /verif/MANIFEST.json from the table below (kept in one place so that the claimed
checks, the not_applicable list and the hooks record stay consistent)."""
import json
import os
import subprocess

VERIF = os.path.dirname(os.path.dirname(os.path.abspath(__file__)))

HOOK_COMMITS = ["3cc517e"]

H = "vh (engine H: model-based history runner)"
MP = "pg (engines M and P: macro generators as a library + generated client programs through rustc)"

CLAIMED = {
    # id: (engine, category, technique, level text, level note, design ref)
    "C01": (H, "exploration", "model-based stateful property testing (proptest op sequences vs reference model, shrinking)",
            "Generated histories (create / create_within_capacity / destroy by all key kinds / ecs_iter_destroy! / clone / drop over 6 archetypes and all initial capacities) are run against the real world and a reference map; after every step every handle ever issued is probed through every lookup path and must be accepted iff alive and designate its own entity; a dynamically typed key handed to another archetype's accessors must be rejected; extra shards run on an archetype prefilled with 98 304 entities (16-bit index boundary) and on the `events` build. Exploration is the right level: the property quantifies over unbounded histories, the oracle is exact, and the representation-invariant oracle flags latent slot-map corruption early.",
            "trusts the reference model in harness/src (no gecs code), proptest, rustc; the dump hook only feeds the additional representation-invariant oracle", "DESIGN.md 3/C01"),
    "C02": (H, "exploration", "model-based stateful property testing with unique per-(entity,column,write) stamps",
            "Every component value is a stamp unique per (entity, column, write); histories interleave structural ops with writes through every mutable path and read every live entity back through every read path after every step, so a value under the wrong entity or column is visible. Shapes: 1,2,3,4,5,16 columns (17/32 under C19), ZST, 1..64-byte, 64-aligned (with and without drop glue), heap-owning; extra shards on an archetype of 98 304 entities and on the `events` build.",
            "trusts the reference model and the Stamp components; u8 columns can only hold 256 distinct stamps (other columns of the same entity disambiguate)", "DESIGN.md 3/C02"),
    "C04": (H, "exploration", "model-based stateful property testing with a drop/clone registry",
            "Drop-instrumented components (registry of live ids, counted zero-sized type) make a double drop, a drop while alive and a leak observable after every step; clone must clone each live instance exactly once (as `w.clone()` and as `dst.clone_from(&w)`, whose former contents must be dropped exactly once); at the end (also after a failing step) all worlds are dropped and the registry must be empty.",
            "trusts the registry in harness/src/comps.rs; heap-level backstop (ASan/LSan) only in the thorough tier", "DESIGN.md 3/C04"),
    "C06": (H, "exploration", "model-based stateful property testing, multiset oracle over every iteration path",
            "Every iteration path (ecs_iter!, ecs_iter_borrow! incl. cross-archetype and OneOf queries, Archetype::iter/iter_mut, entities(), slice accessors) must yield exactly the model's live multiset with each entity's own stamps, count == len(), and Break must end the whole query after exactly k+1 calls.",
            "iteration order is unspecified and not asserted", "DESIGN.md 3/C06"),
    "C07": (H, "exploration", "model-based stateful property testing with generated decision tables",
            "ecs_iter_destroy! loops (4 parameter variants, single- and cross-archetype) are driven by generated decision tables; visits, destroyed set, stop-at-break, survivors' handles/values and the direct handles handed to the closure are judged against the model.",
            "decision of visit i is 2 bits of a generated 16-bit word (period 8)", "DESIGN.md 3/C07"),
    "C08": (H, "exploration", "model-based stateful property testing incl. preset generations at the 2^32 boundary",
            "Every handle returned by any create path is checked against all handles its world lineage issued before; histories may start from generations preset (hook) next to u32::MAX so the overflow boundary is crossed within a few ops, where the default configuration must panic rather than reissue; all 2^24 creations that fill an archetype to the capacity limit (growth clamped at the limit) must return positions not handed out before; extra shards start from 5 120 resp. 98 304 entities in one archetype (indices beyond 16 bits), and every second of the 5 120-entity cases drains the archetype completely and refills it (no handle may come back).",
            "2^32-distant states are reached through the preset hook (reachable combinations only); one real 2^32-cycle run on the optimised build in every tier", "DESIGN.md 3/C08"),
    "C09": (H, "exploration", "model-based stateful property testing of direct handles (mint anywhere, use anywhere)",
            "Direct handles are minted at arbitrary points through to_direct (all key kinds, both levels) and through EntityDirect parameters of all five query macros, and used later through every lookup/destroy path: rejected after any removal, accepted while nothing changed, never designating another entity, and rejected by the archetype-level accessors of every other archetype.",
            "after creations only, both outcomes are allowed (doc comment vs test_direct_basic), but an accepted handle must designate its entity", "DESIGN.md 3/C09"),
    "C12": (H, "exploration", "model-based stateful property testing of len/capacity laws",
            "After every step len()/is_empty()/capacity() are compared with the model; create_within_capacity must succeed exactly when len < capacity and hand back its argument otherwise; refills must perform exactly capacity - len creations without changing capacity; the free list must have exactly capacity - len nodes; world-level with_capacity must give every archetype its own capacity (one world declares its ids in descending order); the 2^24 limit is reached by growth and by with_capacity in dedicated scenarios; extra shards start from 5 120 resp. 98 304 entities in one archetype, and every second of the 5 120-entity cases drains that archetype completely and creates in it again (capacity must not shrink); builds: chk, rel, chk with `events`.",
            "the doubling formula is not asserted; the thorough tier runs the 2^24 scenarios from seven starting capacities instead of two", "DESIGN.md 3/C12"),
    "C13": (H, "exploration", "model-based stateful property testing with cloned worlds and diverging histories",
            "Clones are taken at arbitrary points; the full probe suite must give identical answers on the clone immediately, and afterwards each world is checked against its own model after every step, so bleed-through shows up in the untouched world; both can be refilled to capacity. Clones are also taken as `dst.clone_from(&w)`, under AddressSanitizer, with the `events` feature (pending events), and of a world whose archetype holds 2^24 entities.",
            "handles belong to a world lineage (soundness decision 10)", "DESIGN.md 3/C13"),
    "C03": (H, "exploration", "model-based property testing with state-aimed forged handles under AddressSanitizer",
            "Forged values are constructed from the live state for the boundary classes (free slot with matching generation, indices around len/capacity/2^24-1, undeclared archetype ids, cross-archetype unchecked conversions, cross-world handles and direct handles, hidden direct-handle constructor) and passed to every lookup, destroy and mutable path; allowed outcomes are absence, an allow-listed clean panic, or exactly the bit-identical live entity; the state must be unchanged afterwards. Builds: debug assertions on, off, and off under ASan.",
            "uniformly random 64-bit values are only one class; a defect confined to a value outside the constructed classes would be missed; Miri sample and libFuzzer target only in the thorough tier", "DESIGN.md 3/C03"),
    "C10": (H, "fault_enumeration", "fault injection at every callback point of generated histories (panic under catch_unwind), model-based",
            "Every point at which user code is called back in a generated history (k-th closure call of each query macro, k-th Clone during clone, k-th Drop during dynamic destroy / world drop) is tried once as a panic, documented overflow panics are reached via generation presets, and afterwards the full oracle suite (handles, values, drops - double drop strict, leaks tolerated -, iteration, len/capacity, representation invariant) must hold for the rest of the history. Fault enumeration is the right level: the fault space of a history is finite and enumerated.",
            "per (op, site) at most 16 (quick) / 64 (thorough) points, evenly spread; capacity overflow at 2^24 only in the thorough tier", "DESIGN.md 3/C10"),
    "C11": (H, "exploration", "exhaustive pair matrix + generated nestings against a RefCell model",
            "The full outer x inner pair matrix named in the property is enumerated on 8 populations (must-panic and must-not-panic directions, observed values, release after unwinding), plus generated sequences of nestings of depth <= 3. 23 access kinds: find/iter borrow (shared, mutable, OneOf, `_` parameters, direct-handle keys, cross-archetype), Borrow::component(_mut), borrow_slice(_mut), and world- and archetype-level clone / clone_from; additionally every access kind is made from inside a clone (from a component's Clone impl, while gecs is copying the columns) and must be refused iff it wants a column of the archetype being copied mutably.",
            "pair matrix exhaustive for the stated dimensions on the WMix shapes; deeper nestings sampled", "DESIGN.md 3/C11"),
    "C14": (H, "exploration", "property testing of conversion / Eq / Hash laws over edge-biased generated raw values",
            "from_raw/raw round trips, typed<->dynamic conversions for every archetype, Select* dispatch for declared and undeclared ids (incl. the error variant), reference conversions, Eq/Hash laws and HashSet/HashMap behaviour are checked over generated raw values, pairs differing in exactly one field and direct handles; histories check that created handles carry their creator's ARCHETYPE_ID.",
            "a merely weak hash is not a violation; Eq=>Hash direction only", "DESIGN.md 3/C14"),
    "C17": (H, "exploration", "model-based stateful property testing of the event logs (feature events)",
            "The harness is built with feature events; after every step the per-archetype and world-level created/destroyed iterators are compared as multisets with the model's logs, size_hint is checked before every next(), the world-level iterators consumed through step_by / skip / nth / count / last must agree with plain next(), and clears must empty the logs without touching entities; a generated client program with the maximum of 256 archetypes is compiled with overflow checks on and run (world-level iterators across all 256 archetypes).",
            "multiset comparison (no ordering guarantee is documented)", "DESIGN.md 3/C17"),
    "C05": (MP, "exploration", "property testing of the macro generators as a library against a reference matcher + differential testing of generated client programs through rustc",
            "Generated (declaration, query) pairs are pushed through the macro crate's own parse/bind/generate code in-process (tens of thousands per run, shrinkable) and compared with a reference matcher written from the documentation: accept/reject and error family, matched archetype set, bound types, columns read. The same generators emit complete client programs that rustc compiles and that are run; their output must equal the reference semantics. Negative programs must be rejected and their twins accepted.",
            "engine M reads the shape of the emitted token streams (a refactoring that changes the shape is reported inconclusive); engine P decides behaviourally", "DESIGN.md 3/C05"),
    "C15": (MP, "exploration", "property testing of id assignment against the discriminant fold + generated programs printing every id through rustc",
            "Declarations with arbitrary explicit / implicit / colliding / overflowing ids (and cfg-disabled items) are resolved by the macro's own DataWorld::new and compared with a reference fold incl. which error; compiled programs print ARCHETYPE_ID, COMPONENT_ID, ecs_component_id! (in and outside queries), handle archetype_id(), the Select table for all 256 ids; rejected declarations must fail to compile.",
            "up to 12 archetypes x 10 components per declaration in the generated family", "DESIGN.md 3/C15"),
    "C16": (MP, "exploration", "metamorphic testing over all 2^k cfg assignments (decorated program vs program with disabled items deleted), in-process and through rustc --cfg",
            "For every generated program P decorated with k predicates and every one of the 2^k assignments s, P under s must behave exactly like the cfg-free twin P|s: engine M compares the resolved world, matched sets and bound types; engine P compiles P with the --cfg flags of s and the twin without flags, runs both and compares their output with the reference.",
            "k <= 4 (M) / 3 (P); cfg on OneOf (explicit 'not supported' error) and degenerate all-disabled declarations are excluded by construction and counted", "DESIGN.md 3/C16"),
    "C18": (MP, "exploration", "token scan of generated expansions + rustc's forbid(unsafe_code) on generated programs + grammar-generated negative/twin compile corpus",
            "(a) every expansion produced by engine M (hundreds of thousands; generators built with and without the macro crate's `events` feature) is scanned for `unsafe` and for lint-level attributes, and every positive program of engine P carries #![forbid(unsafe_code)]; (b) 447 negative programs generated from the holder x structural-change grammar and the alias / &mut-entity / smuggling / nested-change / Send / Sync families must be rejected by rustc while each sound twin compiles; the families include the auto traits of the iterators of the direct API (Archetype::iter / iter_mut must not be Send / Sync for !Send / !Sync components); a sample of the corpus is also compiled against gecs built with `events`, the whole corpus against gecs built with `32_components`.",
            "(a) is universally quantified over generator output: sampling + rustc's lint on every sampled program is what this family of technique offers; (b) is a finite grammar, enumerated completely", "DESIGN.md 3/C18"),
    "C19": (H, "exploration", "configuration matrix (8 feature sets x debug/release) x model-based histories, differential trace comparison, feature-delta compile programs",
            "The harness is rebuilt under all 16 configurations; the same seeded histories must pass every oracle everywhere (incl. C03's forged-handle oracle and, under wrapping_version, boundary-crossing histories), the trace of everything the oracle is lenient about must be identical across builds, and fixed client programs check the documented deltas (event API iff events, 17/32-component archetypes iff 32_components); a generated 256-archetype program is run with overflow checks on under every feature set with events; the 2^24 capacity-limit scenario runs in every configuration.",
            "engine P's generated positive programs are rebuilt under the feature sets only in the thorough tier", "DESIGN.md 3/C19"),
}


def main():
    props = []
    with open(os.path.join(VERIF, "properties.jsonl")) as f:
        for line in f:
            if line.strip():
                props.append(json.loads(line))
    checks = []
    not_applicable = []
    for p in props:
        pid = p["id"]
        if pid in CLAIMED:
            engine, cat, tech, text, note, ref = CLAIMED[pid]
            checks.append({
                "property_id": pid,
                "quick_cmd": "./check %s --tier quick" % pid,
                "thorough_cmd": "./check %s --tier thorough" % pid,
                "evidence_file": "/verif/evidence/%s.json" % pid,
                "replay_cmd_template": "./check %s --replay {path}" % pid,
                "engine": engine,
                "level_claimed": {"category": cat, "text": text, "design_ref": ref},
                "level_note": note,
                "technique": tech,
            })
        else:
            not_applicable.append({"property_id": pid, "reason": "not claimed (see DESIGN.md section 8)"})
    manifest = {
        "version": 1,
        "setup_cmd": "./setup.sh",
        "hooks": {
            "guard": "--cfg gecs_verif",
            "enable": "RUSTFLAGS-equivalent `--cfg gecs_verif` supplied by /verif/harness/.cargo/config.toml (build.rustflags); off in every normal build of /repo",
            "baseline_off_cmd": "cd /repo && cargo test --workspace --no-fail-fast --offline",
            "source_commits": HOOK_COMMITS,
            "add_only": True,
        },
        "engines": [
            {"name": H, "path": "/verif/harness", "serves_properties": sorted(k for k, v in CLAIMED.items() if v[0] == H),
             "kind_free_text": "Rust crate: real ecs_world! worlds with drivers wrapping every access path, reference model, op interpreter, proptest front end (vh-run), sharded by the python driver /verif/check"},
            {"name": MP, "path": "/verif/proggen", "serves_properties": sorted(k for k, v in CLAIMED.items() if v[0] == MP),
             "kind_free_text": "Rust crate pg: #[path]-includes /repo/macros/src/{data.rs,parse,generate} so the proc-macro logic runs as a library (engine M), reference semantics, proptest generators, program emitter; python compile farm (vlib/farm.py) invoking rustc directly against a cargo-built libgecs (engine P)"},
        ],
        "checks": checks,
        "notes": "Every check: exit 0 held, 1 violation (VIOLATION line), 2 inconclusive. Known findings: /verif/known_findings.json (only 'fixed' entries at present).",
        "not_applicable": not_applicable,
    }
    with open(os.path.join(VERIF, "MANIFEST.json"), "w") as f:
        json.dump(manifest, f, indent=1)
        f.write("\n")
    print("claimed:", [c["property_id"] for c in checks])
    print("not claimed:", [n["property_id"] for n in not_applicable])


if __name__ == "__main__":
    main()
