#![forbid(unsafe_code)]
#![allow(warnings)]

pub mod comps {
    #[derive(Clone, Debug)] pub struct CompA(pub u64);
    #[derive(Clone, Debug)] pub struct CompB(pub u64);
    #[derive(Clone, Debug)] pub struct CompC(pub u64);
    #[derive(Clone, Debug)] pub struct CompD(pub u64);
    #[derive(Clone, Debug)] pub struct CompE(pub u64);
    #[derive(Clone, Debug)] pub struct CompF(pub u64);
    #[derive(Clone, Debug)] pub struct CompG(pub u64);
    #[derive(Clone, Debug)] pub struct CompH(pub u64);
    #[derive(Clone, Debug)] pub struct CompI(pub u64);
    #[derive(Clone, Debug)] pub struct CompJ(pub u64);
}
pub mod w0 {
    use gecs::prelude::*;
    use super::comps::*;

    ecs_world! {
    ecs_name!(WorldAa);
        #[archetype_id(7)] ecs_archetype!(ArchA, CompE, CompA, CompF);
        ecs_archetype!(ArchB, CompG, CompA);
        ecs_archetype!(ArchC, CompD);
        #[archetype_id(253)] ecs_archetype!(ArchD, CompA, CompF);
        #[archetype_id(9)] ecs_archetype!(ArchE, CompF);
        ecs_archetype!(ArchF, CompG, CompD);
        }

    pub fn run(out: &mut Vec<String>) {
        let mut world = WorldAa::new();
        let e_0_0 = world.create::<ArchA>((CompE(10104), CompA(10100), CompF(10105),));
        let e_1_0 = world.create::<ArchB>((CompG(20106), CompA(20100),));
        let e_2_0 = world.create::<ArchC>((CompD(30103),));
        let e_3_0 = world.create::<ArchD>((CompA(40100), CompF(40105),));
        let e_4_0 = world.create::<ArchE>((CompF(50105),));
        let e_5_0 = world.create::<ArchF>((CompG(60106), CompD(60103),));
        out.push(format!("w0 id ArchA {}", <ArchA as Archetype>::ARCHETYPE_ID));
        out.push(format!("w0 cid ArchA CompE {} {}", <ArchA as ArchetypeHas<CompE>>::COMPONENT_ID, ecs_component_id!(CompE, ArchA)));
        { let mut seen = false; ecs_iter!(world, |_c: &CompE, _e: &Entity<ArchA>| { if !seen { seen = true; out.push(format!("w0 qcid ArchA CompE {}", ecs_component_id!(CompE))); } }); }
        out.push(format!("w0 cid ArchA CompA {} {}", <ArchA as ArchetypeHas<CompA>>::COMPONENT_ID, ecs_component_id!(CompA, ArchA)));
        { let mut seen = false; ecs_iter!(world, |_c: &CompA, _e: &Entity<ArchA>| { if !seen { seen = true; out.push(format!("w0 qcid ArchA CompA {}", ecs_component_id!(CompA))); } }); }
        out.push(format!("w0 cid ArchA CompF {} {}", <ArchA as ArchetypeHas<CompF>>::COMPONENT_ID, ecs_component_id!(CompF, ArchA)));
        { let mut seen = false; ecs_iter!(world, |_c: &CompF, _e: &Entity<ArchA>| { if !seen { seen = true; out.push(format!("w0 qcid ArchA CompF {}", ecs_component_id!(CompF))); } }); }
        out.push(format!("w0 hid ArchA {} {}", e_0_0.archetype_id(), e_0_0.into_any().archetype_id()));
        out.push(format!("w0 len ArchA {}", world.archetype::<ArchA>().len()));
        out.push(format!("w0 id ArchB {}", <ArchB as Archetype>::ARCHETYPE_ID));
        out.push(format!("w0 cid ArchB CompG {} {}", <ArchB as ArchetypeHas<CompG>>::COMPONENT_ID, ecs_component_id!(CompG, ArchB)));
        { let mut seen = false; ecs_iter!(world, |_c: &CompG, _e: &Entity<ArchB>| { if !seen { seen = true; out.push(format!("w0 qcid ArchB CompG {}", ecs_component_id!(CompG))); } }); }
        out.push(format!("w0 cid ArchB CompA {} {}", <ArchB as ArchetypeHas<CompA>>::COMPONENT_ID, ecs_component_id!(CompA, ArchB)));
        { let mut seen = false; ecs_iter!(world, |_c: &CompA, _e: &Entity<ArchB>| { if !seen { seen = true; out.push(format!("w0 qcid ArchB CompA {}", ecs_component_id!(CompA))); } }); }
        out.push(format!("w0 hid ArchB {} {}", e_1_0.archetype_id(), e_1_0.into_any().archetype_id()));
        out.push(format!("w0 len ArchB {}", world.archetype::<ArchB>().len()));
        out.push(format!("w0 id ArchC {}", <ArchC as Archetype>::ARCHETYPE_ID));
        out.push(format!("w0 cid ArchC CompD {} {}", <ArchC as ArchetypeHas<CompD>>::COMPONENT_ID, ecs_component_id!(CompD, ArchC)));
        { let mut seen = false; ecs_iter!(world, |_c: &CompD, _e: &Entity<ArchC>| { if !seen { seen = true; out.push(format!("w0 qcid ArchC CompD {}", ecs_component_id!(CompD))); } }); }
        out.push(format!("w0 hid ArchC {} {}", e_2_0.archetype_id(), e_2_0.into_any().archetype_id()));
        out.push(format!("w0 len ArchC {}", world.archetype::<ArchC>().len()));
        out.push(format!("w0 id ArchD {}", <ArchD as Archetype>::ARCHETYPE_ID));
        out.push(format!("w0 cid ArchD CompA {} {}", <ArchD as ArchetypeHas<CompA>>::COMPONENT_ID, ecs_component_id!(CompA, ArchD)));
        { let mut seen = false; ecs_iter!(world, |_c: &CompA, _e: &Entity<ArchD>| { if !seen { seen = true; out.push(format!("w0 qcid ArchD CompA {}", ecs_component_id!(CompA))); } }); }
        out.push(format!("w0 cid ArchD CompF {} {}", <ArchD as ArchetypeHas<CompF>>::COMPONENT_ID, ecs_component_id!(CompF, ArchD)));
        { let mut seen = false; ecs_iter!(world, |_c: &CompF, _e: &Entity<ArchD>| { if !seen { seen = true; out.push(format!("w0 qcid ArchD CompF {}", ecs_component_id!(CompF))); } }); }
        out.push(format!("w0 hid ArchD {} {}", e_3_0.archetype_id(), e_3_0.into_any().archetype_id()));
        out.push(format!("w0 len ArchD {}", world.archetype::<ArchD>().len()));
        out.push(format!("w0 id ArchE {}", <ArchE as Archetype>::ARCHETYPE_ID));
        out.push(format!("w0 cid ArchE CompF {} {}", <ArchE as ArchetypeHas<CompF>>::COMPONENT_ID, ecs_component_id!(CompF, ArchE)));
        { let mut seen = false; ecs_iter!(world, |_c: &CompF, _e: &Entity<ArchE>| { if !seen { seen = true; out.push(format!("w0 qcid ArchE CompF {}", ecs_component_id!(CompF))); } }); }
        out.push(format!("w0 hid ArchE {} {}", e_4_0.archetype_id(), e_4_0.into_any().archetype_id()));
        out.push(format!("w0 len ArchE {}", world.archetype::<ArchE>().len()));
        out.push(format!("w0 id ArchF {}", <ArchF as Archetype>::ARCHETYPE_ID));
        out.push(format!("w0 cid ArchF CompG {} {}", <ArchF as ArchetypeHas<CompG>>::COMPONENT_ID, ecs_component_id!(CompG, ArchF)));
        { let mut seen = false; ecs_iter!(world, |_c: &CompG, _e: &Entity<ArchF>| { if !seen { seen = true; out.push(format!("w0 qcid ArchF CompG {}", ecs_component_id!(CompG))); } }); }
        out.push(format!("w0 cid ArchF CompD {} {}", <ArchF as ArchetypeHas<CompD>>::COMPONENT_ID, ecs_component_id!(CompD, ArchF)));
        { let mut seen = false; ecs_iter!(world, |_c: &CompD, _e: &Entity<ArchF>| { if !seen { seen = true; out.push(format!("w0 qcid ArchF CompD {}", ecs_component_id!(CompD))); } }); }
        out.push(format!("w0 hid ArchF {} {}", e_5_0.archetype_id(), e_5_0.into_any().archetype_id()));
        out.push(format!("w0 len ArchF {}", world.archetype::<ArchF>().len()));
        for id in 0..=255u8 { if let Ok(sel) = SelectArchetype::try_from(id) { out.push(format!("w0 sel {} {}", id, sel.archetype_id())); } }
        let _ = &mut world;
    }
}

fn main() {
    let mut out: Vec<String> = Vec::new();
    w0::run(&mut out);
    for l in out { println!("{}", l.trim_end()); }
}
