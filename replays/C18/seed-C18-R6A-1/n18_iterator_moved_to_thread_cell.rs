#![forbid(unsafe_code)]
#![allow(warnings)]
use gecs::prelude::*;

pub struct CompS(pub std::cell::Cell<u64>);
ecs_world! {
    ecs_archetype!(ArchS, CompS);
}
fn need_send<T: Send>(_t: &T) {}
fn need_sync<T: Sync>(_t: &T) {}

fn use_it<T: ?Sized>(_t: &T) {}
fn assert_send<T: Send>() {}
fn assert_sync<T: Sync>() {}
fn assert_copy<T: Copy>() {}

fn main() {
    let mut world = EcsWorld::new();
    let it = world.arch_s.iter();
    std::thread::scope(|s| { s.spawn(move || { let _n = it.count(); }); });
}
