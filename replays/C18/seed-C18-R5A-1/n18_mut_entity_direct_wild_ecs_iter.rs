#![forbid(unsafe_code)]
#![allow(warnings)]
use gecs::prelude::*;

#[derive(Clone, Debug, Default)]
pub struct CompA(pub u64);
#[derive(Clone, Debug, Default)]
pub struct CompB(pub u64);

ecs_world! {
    ecs_archetype!(ArchFoo, CompA, CompB);
    ecs_archetype!(ArchBar, CompA);
}

fn use_it<T: ?Sized>(_t: &T) {}
fn assert_send<T: Send>() {}
fn assert_sync<T: Sync>() {}
fn assert_copy<T: Copy>() {}

fn main() {
    let mut world = EcsWorld::new();
    let e0 = world.create::<ArchFoo>((CompA(1), CompB(2)));
    let e1 = world.create::<ArchFoo>((CompA(3), CompB(4)));
    let f0 = world.create::<ArchBar>((CompA(5),));
    ecs_iter!(world, |e: &mut EntityDirect<_>| { use_it(e); });
}
