#![forbid(unsafe_code)]
#![allow(warnings)]
use gecs::prelude::*;

pub struct CompS(pub std::sync::MutexGuard<'static, u64>);
ecs_world! {
    ecs_archetype!(ArchP, CompP);
    ecs_archetype!(ArchS, CompS);
}
pub struct CompP(pub u64);

fn use_it<T: ?Sized>(_t: &T) {}
fn assert_send<T: Send>() {}
fn assert_sync<T: Sync>() {}
fn assert_copy<T: Copy>() {}

fn main() {
    assert_send::<EcsWorld>();
}
