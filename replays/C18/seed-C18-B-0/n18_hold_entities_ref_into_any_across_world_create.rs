#![forbid(unsafe_code)]
#![allow(warnings)]
use gecs::prelude::*;

#[derive(Clone, Debug, Default)]
pub struct CompA(pub u64);
#[derive(Clone, Debug, Default)]
pub struct CompB(pub u64);

ecs_world! {
    ecs_archetype!(ArchFoo, CompA, CompB);
    ecs_archetype!(ArchBar, CompA);
}

fn use_it<T: ?Sized>(_t: &T) {}

fn main() {
    let mut world = EcsWorld::new();
    let e0 = world.create::<ArchFoo>((CompA(1), CompB(2)));
    let e1 = world.create::<ArchFoo>((CompA(3), CompB(4)));
    let _f0 = world.create::<ArchBar>((CompA(5),));
    let d1 = world.to_direct(e1).unwrap();
    let h: &EntityAny = (&world.arch_foo.entities()[0]).into();
    world.create::<ArchFoo>((CompA(9), CompB(9)));
    use_it(h);
}
