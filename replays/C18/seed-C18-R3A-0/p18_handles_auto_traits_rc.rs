#![forbid(unsafe_code)]
#![allow(warnings)]
use gecs::prelude::*;

pub struct CompS(pub std::rc::Rc<u64>);
ecs_world! {
    ecs_archetype!(ArchS, CompS);
}

fn use_it<T: ?Sized>(_t: &T) {}
fn assert_send<T: Send>() {}
fn assert_sync<T: Sync>() {}
fn assert_copy<T: Copy>() {}

fn main() {
    assert_send::<Entity<ArchS>>(); assert_sync::<Entity<ArchS>>(); assert_copy::<Entity<ArchS>>();
    assert_send::<EntityDirect<ArchS>>(); assert_sync::<EntityDirect<ArchS>>(); assert_copy::<EntityDirect<ArchS>>();
    assert_send::<EntityAny>(); assert_sync::<EntityAny>(); assert_copy::<EntityAny>();
    assert_send::<EntityDirectAny>(); assert_sync::<EntityDirectAny>(); assert_copy::<EntityDirectAny>();
    assert_send::<SelectEntity>(); assert_sync::<SelectEntityDirect>(); assert_copy::<SelectArchetype>();
}
