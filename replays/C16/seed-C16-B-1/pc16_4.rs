#![forbid(unsafe_code)]
#![allow(warnings)]

pub mod comps {
    #[derive(Clone, Debug)] pub struct CompA(pub u64);
    #[derive(Clone, Debug)] pub struct CompB(pub u64);
    #[derive(Clone, Debug)] pub struct CompC(pub u64);
    #[derive(Clone, Debug)] pub struct CompD(pub u64);
    #[derive(Clone, Debug)] pub struct CompE(pub u64);
    #[derive(Clone, Debug)] pub struct CompF(pub u64);
    #[derive(Clone, Debug)] pub struct CompG(pub u64);
    #[derive(Clone, Debug)] pub struct CompH(pub u64);
    #[derive(Clone, Debug)] pub struct CompI(pub u64);
    #[derive(Clone, Debug)] pub struct CompJ(pub u64);
}
pub mod w0 {
    use gecs::prelude::*;
    use super::comps::*;

    ecs_world! {
    ecs_name!(WorldEa);
        #[cfg(any())] ecs_archetype!(ArchA, #[cfg(vp_0)] CompA, CompF, #[cfg(not(vp_1))] CompC, CompD);
        #[cfg(not(vp_2))] #[archetype_id(11)] ecs_archetype!(ArchB, CompC);
        #[cfg(not(vp_0))] #[cfg(not(vp_2))] ecs_archetype!(ArchC, #[cfg(not(vp_0))] #[cfg(not(all()))] CompD, CompE, #[component_id(14)] CompF, #[component_id(28)] CompG);
        ecs_archetype!(ArchD, CompE, #[cfg(any())] #[component_id(241)] CompF, #[cfg(not(vp_2))] #[cfg(vp_1)] CompB);
        ecs_archetype!(ArchE, #[component_id(26)] CompE, CompA);
        }

    pub fn run(out: &mut Vec<String>) {
        let mut world = WorldEa::new();
        #[cfg(any())] let e_0_0 = world.create::<ArchA>((#[cfg(vp_0)] CompA(10100), CompF(10105), #[cfg(not(vp_1))] CompC(10102), CompD(10103),));
        #[cfg(any())] let e_0_1 = world.create::<ArchA>((#[cfg(vp_0)] CompA(10200), CompF(10205), #[cfg(not(vp_1))] CompC(10202), CompD(10203),));
        #[cfg(not(vp_2))] let e_1_0 = world.create::<ArchB>((CompC(20102),));
        #[cfg(not(vp_2))] let e_1_1 = world.create::<ArchB>((CompC(20202),));
        #[cfg(not(vp_0))] #[cfg(not(vp_2))] let e_2_0 = world.create::<ArchC>((#[cfg(not(vp_0))] #[cfg(not(all()))] CompD(30103), CompE(30104), CompF(30105), CompG(30106),));
        #[cfg(not(vp_0))] #[cfg(not(vp_2))] let e_2_1 = world.create::<ArchC>((#[cfg(not(vp_0))] #[cfg(not(all()))] CompD(30203), CompE(30204), CompF(30205), CompG(30206),));
        let e_3_0 = world.create::<ArchD>((CompE(40104), #[cfg(any())] CompF(40105), #[cfg(not(vp_2))] #[cfg(vp_1)] CompB(40101),));
        let e_3_1 = world.create::<ArchD>((CompE(40204), #[cfg(any())] CompF(40205), #[cfg(not(vp_2))] #[cfg(vp_1)] CompB(40201),));
        let e_4_0 = world.create::<ArchE>((CompE(50104), CompA(50100),));
        let e_4_1 = world.create::<ArchE>((CompE(50204), CompA(50200),));
        #[cfg(any())] out.push(format!("w0 id ArchA {}", <ArchA as Archetype>::ARCHETYPE_ID));
        #[cfg(all(any(), vp_0))] out.push(format!("w0 cid ArchA CompA {} {}", <ArchA as ArchetypeHas<CompA>>::COMPONENT_ID, ecs_component_id!(CompA, ArchA)));
        #[cfg(all(any(), vp_0))] { let mut seen = false; ecs_iter!(world, |_c: &CompA, _e: &Entity<ArchA>| { if !seen { seen = true; out.push(format!("w0 qcid ArchA CompA {}", ecs_component_id!(CompA))); } }); }
        #[cfg(all(any()))] out.push(format!("w0 cid ArchA CompF {} {}", <ArchA as ArchetypeHas<CompF>>::COMPONENT_ID, ecs_component_id!(CompF, ArchA)));
        #[cfg(all(any()))] { let mut seen = false; ecs_iter!(world, |_c: &CompF, _e: &Entity<ArchA>| { if !seen { seen = true; out.push(format!("w0 qcid ArchA CompF {}", ecs_component_id!(CompF))); } }); }
        #[cfg(all(any(), not(vp_1)))] out.push(format!("w0 cid ArchA CompC {} {}", <ArchA as ArchetypeHas<CompC>>::COMPONENT_ID, ecs_component_id!(CompC, ArchA)));
        #[cfg(all(any(), not(vp_1)))] { let mut seen = false; ecs_iter!(world, |_c: &CompC, _e: &Entity<ArchA>| { if !seen { seen = true; out.push(format!("w0 qcid ArchA CompC {}", ecs_component_id!(CompC))); } }); }
        #[cfg(all(any()))] out.push(format!("w0 cid ArchA CompD {} {}", <ArchA as ArchetypeHas<CompD>>::COMPONENT_ID, ecs_component_id!(CompD, ArchA)));
        #[cfg(all(any()))] { let mut seen = false; ecs_iter!(world, |_c: &CompD, _e: &Entity<ArchA>| { if !seen { seen = true; out.push(format!("w0 qcid ArchA CompD {}", ecs_component_id!(CompD))); } }); }
        #[cfg(any())] out.push(format!("w0 hid ArchA {} {}", e_0_0.archetype_id(), e_0_0.into_any().archetype_id()));
        #[cfg(any())] out.push(format!("w0 hid ArchA {} {}", e_0_1.archetype_id(), e_0_1.into_any().archetype_id()));
        #[cfg(any())] out.push(format!("w0 len ArchA {}", world.archetype::<ArchA>().len()));
        #[cfg(not(vp_2))] out.push(format!("w0 id ArchB {}", <ArchB as Archetype>::ARCHETYPE_ID));
        #[cfg(all(not(vp_2)))] out.push(format!("w0 cid ArchB CompC {} {}", <ArchB as ArchetypeHas<CompC>>::COMPONENT_ID, ecs_component_id!(CompC, ArchB)));
        #[cfg(all(not(vp_2)))] { let mut seen = false; ecs_iter!(world, |_c: &CompC, _e: &Entity<ArchB>| { if !seen { seen = true; out.push(format!("w0 qcid ArchB CompC {}", ecs_component_id!(CompC))); } }); }
        #[cfg(not(vp_2))] out.push(format!("w0 hid ArchB {} {}", e_1_0.archetype_id(), e_1_0.into_any().archetype_id()));
        #[cfg(not(vp_2))] out.push(format!("w0 hid ArchB {} {}", e_1_1.archetype_id(), e_1_1.into_any().archetype_id()));
        #[cfg(not(vp_2))] out.push(format!("w0 len ArchB {}", world.archetype::<ArchB>().len()));
        #[cfg(not(vp_0))] #[cfg(not(vp_2))] out.push(format!("w0 id ArchC {}", <ArchC as Archetype>::ARCHETYPE_ID));
        #[cfg(all(not(vp_0), not(vp_2), not(vp_0), not(all())))] out.push(format!("w0 cid ArchC CompD {} {}", <ArchC as ArchetypeHas<CompD>>::COMPONENT_ID, ecs_component_id!(CompD, ArchC)));
        #[cfg(all(not(vp_0), not(vp_2), not(vp_0), not(all())))] { let mut seen = false; ecs_iter!(world, |_c: &CompD, _e: &Entity<ArchC>| { if !seen { seen = true; out.push(format!("w0 qcid ArchC CompD {}", ecs_component_id!(CompD))); } }); }
        #[cfg(all(not(vp_0), not(vp_2)))] out.push(format!("w0 cid ArchC CompE {} {}", <ArchC as ArchetypeHas<CompE>>::COMPONENT_ID, ecs_component_id!(CompE, ArchC)));
        #[cfg(all(not(vp_0), not(vp_2)))] { let mut seen = false; ecs_iter!(world, |_c: &CompE, _e: &Entity<ArchC>| { if !seen { seen = true; out.push(format!("w0 qcid ArchC CompE {}", ecs_component_id!(CompE))); } }); }
        #[cfg(all(not(vp_0), not(vp_2)))] out.push(format!("w0 cid ArchC CompF {} {}", <ArchC as ArchetypeHas<CompF>>::COMPONENT_ID, ecs_component_id!(CompF, ArchC)));
        #[cfg(all(not(vp_0), not(vp_2)))] { let mut seen = false; ecs_iter!(world, |_c: &CompF, _e: &Entity<ArchC>| { if !seen { seen = true; out.push(format!("w0 qcid ArchC CompF {}", ecs_component_id!(CompF))); } }); }
        #[cfg(all(not(vp_0), not(vp_2)))] out.push(format!("w0 cid ArchC CompG {} {}", <ArchC as ArchetypeHas<CompG>>::COMPONENT_ID, ecs_component_id!(CompG, ArchC)));
        #[cfg(all(not(vp_0), not(vp_2)))] { let mut seen = false; ecs_iter!(world, |_c: &CompG, _e: &Entity<ArchC>| { if !seen { seen = true; out.push(format!("w0 qcid ArchC CompG {}", ecs_component_id!(CompG))); } }); }
        #[cfg(not(vp_0))] #[cfg(not(vp_2))] out.push(format!("w0 hid ArchC {} {}", e_2_0.archetype_id(), e_2_0.into_any().archetype_id()));
        #[cfg(not(vp_0))] #[cfg(not(vp_2))] out.push(format!("w0 hid ArchC {} {}", e_2_1.archetype_id(), e_2_1.into_any().archetype_id()));
        #[cfg(not(vp_0))] #[cfg(not(vp_2))] out.push(format!("w0 len ArchC {}", world.archetype::<ArchC>().len()));
        out.push(format!("w0 id ArchD {}", <ArchD as Archetype>::ARCHETYPE_ID));
        out.push(format!("w0 cid ArchD CompE {} {}", <ArchD as ArchetypeHas<CompE>>::COMPONENT_ID, ecs_component_id!(CompE, ArchD)));
        { let mut seen = false; ecs_iter!(world, |_c: &CompE, _e: &Entity<ArchD>| { if !seen { seen = true; out.push(format!("w0 qcid ArchD CompE {}", ecs_component_id!(CompE))); } }); }
        #[cfg(all(any()))] out.push(format!("w0 cid ArchD CompF {} {}", <ArchD as ArchetypeHas<CompF>>::COMPONENT_ID, ecs_component_id!(CompF, ArchD)));
        #[cfg(all(any()))] { let mut seen = false; ecs_iter!(world, |_c: &CompF, _e: &Entity<ArchD>| { if !seen { seen = true; out.push(format!("w0 qcid ArchD CompF {}", ecs_component_id!(CompF))); } }); }
        #[cfg(all(not(vp_2), vp_1))] out.push(format!("w0 cid ArchD CompB {} {}", <ArchD as ArchetypeHas<CompB>>::COMPONENT_ID, ecs_component_id!(CompB, ArchD)));
        #[cfg(all(not(vp_2), vp_1))] { let mut seen = false; ecs_iter!(world, |_c: &CompB, _e: &Entity<ArchD>| { if !seen { seen = true; out.push(format!("w0 qcid ArchD CompB {}", ecs_component_id!(CompB))); } }); }
        out.push(format!("w0 hid ArchD {} {}", e_3_0.archetype_id(), e_3_0.into_any().archetype_id()));
        out.push(format!("w0 hid ArchD {} {}", e_3_1.archetype_id(), e_3_1.into_any().archetype_id()));
        out.push(format!("w0 len ArchD {}", world.archetype::<ArchD>().len()));
        out.push(format!("w0 id ArchE {}", <ArchE as Archetype>::ARCHETYPE_ID));
        out.push(format!("w0 cid ArchE CompE {} {}", <ArchE as ArchetypeHas<CompE>>::COMPONENT_ID, ecs_component_id!(CompE, ArchE)));
        { let mut seen = false; ecs_iter!(world, |_c: &CompE, _e: &Entity<ArchE>| { if !seen { seen = true; out.push(format!("w0 qcid ArchE CompE {}", ecs_component_id!(CompE))); } }); }
        out.push(format!("w0 cid ArchE CompA {} {}", <ArchE as ArchetypeHas<CompA>>::COMPONENT_ID, ecs_component_id!(CompA, ArchE)));
        { let mut seen = false; ecs_iter!(world, |_c: &CompA, _e: &Entity<ArchE>| { if !seen { seen = true; out.push(format!("w0 qcid ArchE CompA {}", ecs_component_id!(CompA))); } }); }
        out.push(format!("w0 hid ArchE {} {}", e_4_0.archetype_id(), e_4_0.into_any().archetype_id()));
        out.push(format!("w0 hid ArchE {} {}", e_4_1.archetype_id(), e_4_1.into_any().archetype_id()));
        out.push(format!("w0 len ArchE {}", world.archetype::<ArchE>().len()));
        for id in 0..=255u8 { if let Ok(sel) = SelectArchetype::try_from(id) { out.push(format!("w0 sel {} {}", id, sel.archetype_id())); } }
        #[cfg(any())] { let key = e_0_0; let r = ecs_find!(world, key, || { let mut line = String::new();  out.push(format!("w0 q0 call a0e0 {}", line)); }); out.push(format!("w0 q0 find a0e0 k0 {}", r.is_some())); }
        #[cfg(any())] { let key = e_0_1.into_any(); let r = ecs_find!(world, key, || { let mut line = String::new();  out.push(format!("w0 q0 call a0e1 {}", line)); }); out.push(format!("w0 q0 find a0e1 k1 {}", r.is_some())); }
        #[cfg(not(vp_2))] { let key = e_1_0.into_any(); let r = ecs_find!(world, key, || { let mut line = String::new();  out.push(format!("w0 q0 call a1e0 {}", line)); }); out.push(format!("w0 q0 find a1e0 k1 {}", r.is_some())); }
        #[cfg(not(vp_2))] { let key = world.to_direct(e_1_1).unwrap(); let r = ecs_find!(world, key, || { let mut line = String::new();  out.push(format!("w0 q0 call a1e1 {}", line)); }); out.push(format!("w0 q0 find a1e1 k2 {}", r.is_some())); }
        #[cfg(not(vp_0))] #[cfg(not(vp_2))] { let key = world.to_direct(e_2_0).unwrap(); let r = ecs_find!(world, key, || { let mut line = String::new();  out.push(format!("w0 q0 call a2e0 {}", line)); }); out.push(format!("w0 q0 find a2e0 k2 {}", r.is_some())); }
        #[cfg(not(vp_0))] #[cfg(not(vp_2))] { let key = world.to_direct(e_2_1.into_any()).unwrap(); let r = ecs_find!(world, key, || { let mut line = String::new();  out.push(format!("w0 q0 call a2e1 {}", line)); }); out.push(format!("w0 q0 find a2e1 k3 {}", r.is_some())); }
        { let key = world.to_direct(e_3_0.into_any()).unwrap(); let r = ecs_find!(world, key, || { let mut line = String::new();  out.push(format!("w0 q0 call a3e0 {}", line)); }); out.push(format!("w0 q0 find a3e0 k3 {}", r.is_some())); }
        { let key = e_3_1; let r = ecs_find!(world, key, || { let mut line = String::new();  out.push(format!("w0 q0 call a3e1 {}", line)); }); out.push(format!("w0 q0 find a3e1 k0 {}", r.is_some())); }
        { let key = e_4_0; let r = ecs_find!(world, key, || { let mut line = String::new();  out.push(format!("w0 q0 call a4e0 {}", line)); }); out.push(format!("w0 q0 find a4e0 k0 {}", r.is_some())); }
        { let key = e_4_1.into_any(); let r = ecs_find!(world, key, || { let mut line = String::new();  out.push(format!("w0 q0 call a4e1 {}", line)); }); out.push(format!("w0 q0 find a4e1 k1 {}", r.is_some())); }
        #[cfg(any())] { let key = e_0_0.into_any(); let r = ecs_find_borrow!(world, key, || { let mut line = String::new();  out.push(format!("w0 q1 call a0e0 {}", line)); }); out.push(format!("w0 q1 find a0e0 k1 {}", r.is_some())); }
        #[cfg(any())] { let key = world.to_direct(e_0_1).unwrap(); let r = ecs_find_borrow!(world, key, || { let mut line = String::new();  out.push(format!("w0 q1 call a0e1 {}", line)); }); out.push(format!("w0 q1 find a0e1 k2 {}", r.is_some())); }
        #[cfg(not(vp_2))] { let key = world.to_direct(e_1_0).unwrap(); let r = ecs_find_borrow!(world, key, || { let mut line = String::new();  out.push(format!("w0 q1 call a1e0 {}", line)); }); out.push(format!("w0 q1 find a1e0 k2 {}", r.is_some())); }
        #[cfg(not(vp_2))] { let key = world.to_direct(e_1_1.into_any()).unwrap(); let r = ecs_find_borrow!(world, key, || { let mut line = String::new();  out.push(format!("w0 q1 call a1e1 {}", line)); }); out.push(format!("w0 q1 find a1e1 k3 {}", r.is_some())); }
        #[cfg(not(vp_0))] #[cfg(not(vp_2))] { let key = world.to_direct(e_2_0.into_any()).unwrap(); let r = ecs_find_borrow!(world, key, || { let mut line = String::new();  out.push(format!("w0 q1 call a2e0 {}", line)); }); out.push(format!("w0 q1 find a2e0 k3 {}", r.is_some())); }
        #[cfg(not(vp_0))] #[cfg(not(vp_2))] { let key = e_2_1; let r = ecs_find_borrow!(world, key, || { let mut line = String::new();  out.push(format!("w0 q1 call a2e1 {}", line)); }); out.push(format!("w0 q1 find a2e1 k0 {}", r.is_some())); }
        { let key = e_3_0; let r = ecs_find_borrow!(world, key, || { let mut line = String::new();  out.push(format!("w0 q1 call a3e0 {}", line)); }); out.push(format!("w0 q1 find a3e0 k0 {}", r.is_some())); }
        { let key = e_3_1.into_any(); let r = ecs_find_borrow!(world, key, || { let mut line = String::new();  out.push(format!("w0 q1 call a3e1 {}", line)); }); out.push(format!("w0 q1 find a3e1 k1 {}", r.is_some())); }
        { let key = e_4_0.into_any(); let r = ecs_find_borrow!(world, key, || { let mut line = String::new();  out.push(format!("w0 q1 call a4e0 {}", line)); }); out.push(format!("w0 q1 find a4e0 k1 {}", r.is_some())); }
        { let key = world.to_direct(e_4_1).unwrap(); let r = ecs_find_borrow!(world, key, || { let mut line = String::new();  out.push(format!("w0 q1 call a4e1 {}", line)); }); out.push(format!("w0 q1 find a4e1 k2 {}", r.is_some())); }
        ecs_iter!(world, || { let mut line = String::new();  out.push(format!("w0 q2 visit {}", line)); });
        ecs_iter_borrow!(world, || { let mut line = String::new();  out.push(format!("w0 q3 visit {}", line)); });
        let _ = &mut world;
    }
}

pub mod w1 {
    use gecs::prelude::*;
    use super::comps::*;

    ecs_world! {
    ecs_name!(WorldEb);
        ecs_archetype!(ArchA, CompD, CompF, CompE, #[component_id(249)] CompB);
        #[cfg(vp_2)] ecs_archetype!(ArchB, #[cfg(vp_1)] CompD, CompF, #[component_id(14)] CompB, #[component_id(36)] CompE, #[cfg(any(any(), not(all())))] #[component_id(25)] CompA);
        }

    pub fn run(out: &mut Vec<String>) {
        let mut world = WorldEb::new();
        #[cfg(vp_2)] let e_1_0 = world.create::<ArchB>((#[cfg(vp_1)] CompD(20103), CompF(20105), CompB(20101), CompE(20104), #[cfg(any(any(), not(all())))] CompA(20100),));
        #[cfg(vp_2)] let e_1_1 = world.create::<ArchB>((#[cfg(vp_1)] CompD(20203), CompF(20205), CompB(20201), CompE(20204), #[cfg(any(any(), not(all())))] CompA(20200),));
        out.push(format!("w1 id ArchA {}", <ArchA as Archetype>::ARCHETYPE_ID));
        out.push(format!("w1 cid ArchA CompD {} {}", <ArchA as ArchetypeHas<CompD>>::COMPONENT_ID, ecs_component_id!(CompD, ArchA)));
        out.push(format!("w1 cid ArchA CompF {} {}", <ArchA as ArchetypeHas<CompF>>::COMPONENT_ID, ecs_component_id!(CompF, ArchA)));
        out.push(format!("w1 cid ArchA CompE {} {}", <ArchA as ArchetypeHas<CompE>>::COMPONENT_ID, ecs_component_id!(CompE, ArchA)));
        out.push(format!("w1 cid ArchA CompB {} {}", <ArchA as ArchetypeHas<CompB>>::COMPONENT_ID, ecs_component_id!(CompB, ArchA)));
        out.push(format!("w1 len ArchA {}", world.archetype::<ArchA>().len()));
        #[cfg(vp_2)] out.push(format!("w1 id ArchB {}", <ArchB as Archetype>::ARCHETYPE_ID));
        #[cfg(all(vp_2, vp_1))] out.push(format!("w1 cid ArchB CompD {} {}", <ArchB as ArchetypeHas<CompD>>::COMPONENT_ID, ecs_component_id!(CompD, ArchB)));
        #[cfg(all(vp_2, vp_1))] { let mut seen = false; ecs_iter!(world, |_c: &CompD, _e: &Entity<ArchB>| { if !seen { seen = true; out.push(format!("w1 qcid ArchB CompD {}", ecs_component_id!(CompD))); } }); }
        #[cfg(all(vp_2))] out.push(format!("w1 cid ArchB CompF {} {}", <ArchB as ArchetypeHas<CompF>>::COMPONENT_ID, ecs_component_id!(CompF, ArchB)));
        #[cfg(all(vp_2))] { let mut seen = false; ecs_iter!(world, |_c: &CompF, _e: &Entity<ArchB>| { if !seen { seen = true; out.push(format!("w1 qcid ArchB CompF {}", ecs_component_id!(CompF))); } }); }
        #[cfg(all(vp_2))] out.push(format!("w1 cid ArchB CompB {} {}", <ArchB as ArchetypeHas<CompB>>::COMPONENT_ID, ecs_component_id!(CompB, ArchB)));
        #[cfg(all(vp_2))] { let mut seen = false; ecs_iter!(world, |_c: &CompB, _e: &Entity<ArchB>| { if !seen { seen = true; out.push(format!("w1 qcid ArchB CompB {}", ecs_component_id!(CompB))); } }); }
        #[cfg(all(vp_2))] out.push(format!("w1 cid ArchB CompE {} {}", <ArchB as ArchetypeHas<CompE>>::COMPONENT_ID, ecs_component_id!(CompE, ArchB)));
        #[cfg(all(vp_2))] { let mut seen = false; ecs_iter!(world, |_c: &CompE, _e: &Entity<ArchB>| { if !seen { seen = true; out.push(format!("w1 qcid ArchB CompE {}", ecs_component_id!(CompE))); } }); }
        #[cfg(all(vp_2, any(any(), not(all()))))] out.push(format!("w1 cid ArchB CompA {} {}", <ArchB as ArchetypeHas<CompA>>::COMPONENT_ID, ecs_component_id!(CompA, ArchB)));
        #[cfg(all(vp_2, any(any(), not(all()))))] { let mut seen = false; ecs_iter!(world, |_c: &CompA, _e: &Entity<ArchB>| { if !seen { seen = true; out.push(format!("w1 qcid ArchB CompA {}", ecs_component_id!(CompA))); } }); }
        #[cfg(vp_2)] out.push(format!("w1 hid ArchB {} {}", e_1_0.archetype_id(), e_1_0.into_any().archetype_id()));
        #[cfg(vp_2)] out.push(format!("w1 hid ArchB {} {}", e_1_1.archetype_id(), e_1_1.into_any().archetype_id()));
        #[cfg(vp_2)] out.push(format!("w1 len ArchB {}", world.archetype::<ArchB>().len()));
        for id in 0..=255u8 { if let Ok(sel) = SelectArchetype::try_from(id) { out.push(format!("w1 sel {} {}", id, sel.archetype_id())); } }
        #[cfg(vp_2)] { let key = e_1_0.into_any(); let r = ecs_find_borrow!(world, key, |#[cfg(not(vp_1))] #[cfg(all(all(), not(any())))] p0: &EntityDirect<ArchA>, p1: &mut CompD| { let mut line = String::new(); #[cfg(not(vp_1))] #[cfg(all(all(), not(any())))] line.push_str(&format!("id{} ", p0.archetype_id())); line.push_str(&format!("c{} ", p1.0));  out.push(format!("w1 q0 call a1e0 {}", line)); }); out.push(format!("w1 q0 find a1e0 k1 {}", r.is_some())); }
        #[cfg(vp_2)] { let key = world.to_direct(e_1_1).unwrap(); let r = ecs_find_borrow!(world, key, |#[cfg(not(vp_1))] #[cfg(all(all(), not(any())))] p0: &EntityDirect<ArchA>, p1: &mut CompD| { let mut line = String::new(); #[cfg(not(vp_1))] #[cfg(all(all(), not(any())))] line.push_str(&format!("id{} ", p0.archetype_id())); line.push_str(&format!("c{} ", p1.0));  out.push(format!("w1 q0 call a1e1 {}", line)); }); out.push(format!("w1 q0 find a1e1 k2 {}", r.is_some())); }
        #[cfg(vp_2)] { let key = world.to_direct(e_1_0).unwrap(); let r = ecs_find_borrow!(world, key, || { let mut line = String::new();  out.push(format!("w1 q1 call a1e0 {}", line)); }); out.push(format!("w1 q1 find a1e0 k2 {}", r.is_some())); }
        #[cfg(vp_2)] { let key = world.to_direct(e_1_1.into_any()).unwrap(); let r = ecs_find_borrow!(world, key, || { let mut line = String::new();  out.push(format!("w1 q1 call a1e1 {}", line)); }); out.push(format!("w1 q1 find a1e1 k3 {}", r.is_some())); }
        ecs_iter!(world, |p0: &EntityAny| { let mut line = String::new(); line.push_str(&format!("id{} ", p0.archetype_id()));  out.push(format!("w1 q2 visit {}", line)); });
        ecs_iter!(world, |p0: &mut CompB| { let mut line = String::new(); line.push_str(&format!("c{} ", p0.0));  out.push(format!("w1 q3 visit {}", line)); });
        ecs_iter_destroy!(world, || { let mut line = String::new();  out.push(format!("w1 q4 visit {}", line)); });
        let _ = &mut world;
    }
}

pub mod w2 {
    use gecs::prelude::*;
    use super::comps::*;

    ecs_world! {
    ecs_name!(WorldEc);
        #[archetype_id(230)] ecs_archetype!(ArchA, #[component_id(26)] CompB, CompF, #[component_id(17)] CompE, #[cfg(all(all(), not(any())))] #[component_id(35)] CompC, CompD);
        ecs_archetype!(ArchB, CompF, #[cfg(any(any(), not(all())))] #[component_id(30)] CompD);
        #[cfg(not(all()))] ecs_archetype!(ArchC, CompF, #[component_id(33)] CompB, #[cfg(vp_0)] CompA, CompD);
        }

    pub fn run(out: &mut Vec<String>) {
        let mut world = WorldEc::new();
        #[cfg(not(all()))] let e_2_0 = world.create::<ArchC>((CompF(30105), CompB(30101), #[cfg(vp_0)] CompA(30100), CompD(30103),));
        #[cfg(not(all()))] let e_2_1 = world.create::<ArchC>((CompF(30205), CompB(30201), #[cfg(vp_0)] CompA(30200), CompD(30203),));
        out.push(format!("w2 id ArchA {}", <ArchA as Archetype>::ARCHETYPE_ID));
        out.push(format!("w2 cid ArchA CompB {} {}", <ArchA as ArchetypeHas<CompB>>::COMPONENT_ID, ecs_component_id!(CompB, ArchA)));
        out.push(format!("w2 cid ArchA CompF {} {}", <ArchA as ArchetypeHas<CompF>>::COMPONENT_ID, ecs_component_id!(CompF, ArchA)));
        out.push(format!("w2 cid ArchA CompE {} {}", <ArchA as ArchetypeHas<CompE>>::COMPONENT_ID, ecs_component_id!(CompE, ArchA)));
        #[cfg(all(all(all(), not(any()))))] out.push(format!("w2 cid ArchA CompC {} {}", <ArchA as ArchetypeHas<CompC>>::COMPONENT_ID, ecs_component_id!(CompC, ArchA)));
        out.push(format!("w2 cid ArchA CompD {} {}", <ArchA as ArchetypeHas<CompD>>::COMPONENT_ID, ecs_component_id!(CompD, ArchA)));
        out.push(format!("w2 len ArchA {}", world.archetype::<ArchA>().len()));
        out.push(format!("w2 id ArchB {}", <ArchB as Archetype>::ARCHETYPE_ID));
        out.push(format!("w2 cid ArchB CompF {} {}", <ArchB as ArchetypeHas<CompF>>::COMPONENT_ID, ecs_component_id!(CompF, ArchB)));
        #[cfg(all(any(any(), not(all()))))] out.push(format!("w2 cid ArchB CompD {} {}", <ArchB as ArchetypeHas<CompD>>::COMPONENT_ID, ecs_component_id!(CompD, ArchB)));
        out.push(format!("w2 len ArchB {}", world.archetype::<ArchB>().len()));
        #[cfg(not(all()))] out.push(format!("w2 id ArchC {}", <ArchC as Archetype>::ARCHETYPE_ID));
        #[cfg(all(not(all())))] out.push(format!("w2 cid ArchC CompF {} {}", <ArchC as ArchetypeHas<CompF>>::COMPONENT_ID, ecs_component_id!(CompF, ArchC)));
        #[cfg(all(not(all())))] { let mut seen = false; ecs_iter!(world, |_c: &CompF, _e: &Entity<ArchC>| { if !seen { seen = true; out.push(format!("w2 qcid ArchC CompF {}", ecs_component_id!(CompF))); } }); }
        #[cfg(all(not(all())))] out.push(format!("w2 cid ArchC CompB {} {}", <ArchC as ArchetypeHas<CompB>>::COMPONENT_ID, ecs_component_id!(CompB, ArchC)));
        #[cfg(all(not(all())))] { let mut seen = false; ecs_iter!(world, |_c: &CompB, _e: &Entity<ArchC>| { if !seen { seen = true; out.push(format!("w2 qcid ArchC CompB {}", ecs_component_id!(CompB))); } }); }
        #[cfg(all(not(all()), vp_0))] out.push(format!("w2 cid ArchC CompA {} {}", <ArchC as ArchetypeHas<CompA>>::COMPONENT_ID, ecs_component_id!(CompA, ArchC)));
        #[cfg(all(not(all()), vp_0))] { let mut seen = false; ecs_iter!(world, |_c: &CompA, _e: &Entity<ArchC>| { if !seen { seen = true; out.push(format!("w2 qcid ArchC CompA {}", ecs_component_id!(CompA))); } }); }
        #[cfg(all(not(all())))] out.push(format!("w2 cid ArchC CompD {} {}", <ArchC as ArchetypeHas<CompD>>::COMPONENT_ID, ecs_component_id!(CompD, ArchC)));
        #[cfg(all(not(all())))] { let mut seen = false; ecs_iter!(world, |_c: &CompD, _e: &Entity<ArchC>| { if !seen { seen = true; out.push(format!("w2 qcid ArchC CompD {}", ecs_component_id!(CompD))); } }); }
        #[cfg(not(all()))] out.push(format!("w2 hid ArchC {} {}", e_2_0.archetype_id(), e_2_0.into_any().archetype_id()));
        #[cfg(not(all()))] out.push(format!("w2 hid ArchC {} {}", e_2_1.archetype_id(), e_2_1.into_any().archetype_id()));
        #[cfg(not(all()))] out.push(format!("w2 len ArchC {}", world.archetype::<ArchC>().len()));
        for id in 0..=255u8 { if let Ok(sel) = SelectArchetype::try_from(id) { out.push(format!("w2 sel {} {}", id, sel.archetype_id())); } }
        #[cfg(not(all()))] { let key = world.to_direct(e_2_0).unwrap(); let r = ecs_find_borrow!(world, key, |p0: &EntityAny| { let mut line = String::new(); line.push_str(&format!("id{} ", p0.archetype_id()));  out.push(format!("w2 q0 call a2e0 {}", line)); }); out.push(format!("w2 q0 find a2e0 k2 {}", r.is_some())); }
        #[cfg(not(all()))] { let key = world.to_direct(e_2_1.into_any()).unwrap(); let r = ecs_find_borrow!(world, key, |p0: &EntityAny| { let mut line = String::new(); line.push_str(&format!("id{} ", p0.archetype_id()));  out.push(format!("w2 q0 call a2e1 {}", line)); }); out.push(format!("w2 q0 find a2e1 k3 {}", r.is_some())); }
        #[cfg(not(all()))] { let key = world.to_direct(e_2_0.into_any()).unwrap(); let r = ecs_find!(world, key, |p0: &mut CompD| { let mut line = String::new(); line.push_str(&format!("c{} ", p0.0));  out.push(format!("w2 q1 call a2e0 {}", line)); }); out.push(format!("w2 q1 find a2e0 k3 {}", r.is_some())); }
        #[cfg(not(all()))] { let key = e_2_1; let r = ecs_find!(world, key, |p0: &mut CompD| { let mut line = String::new(); line.push_str(&format!("c{} ", p0.0));  out.push(format!("w2 q1 call a2e1 {}", line)); }); out.push(format!("w2 q1 find a2e1 k0 {}", r.is_some())); }
        ecs_iter_destroy!(world, || { let mut line = String::new();  out.push(format!("w2 q2 visit {}", line)); });
        ecs_iter_destroy!(world, |p0: &Entity<_>| { let mut line = String::new(); line.push_str(&format!("id{} ", p0.archetype_id()));  out.push(format!("w2 q3 visit {}", line)); });
        #[cfg(not(all()))] { let key = world.to_direct(e_2_0).unwrap(); let r = ecs_find!(world, key, |#[cfg(not(all()))] p0: &Entity<_>, p1: &mut CompD| { let mut line = String::new(); #[cfg(not(all()))] line.push_str(&format!("id{} ", p0.archetype_id())); line.push_str(&format!("c{} ", p1.0));  out.push(format!("w2 q4 call a2e0 {}", line)); }); out.push(format!("w2 q4 find a2e0 k2 {}", r.is_some())); }
        #[cfg(not(all()))] { let key = world.to_direct(e_2_1.into_any()).unwrap(); let r = ecs_find!(world, key, |#[cfg(not(all()))] p0: &Entity<_>, p1: &mut CompD| { let mut line = String::new(); #[cfg(not(all()))] line.push_str(&format!("id{} ", p0.archetype_id())); line.push_str(&format!("c{} ", p1.0));  out.push(format!("w2 q4 call a2e1 {}", line)); }); out.push(format!("w2 q4 find a2e1 k3 {}", r.is_some())); }
        let _ = &mut world;
    }
}

fn main() {
    let mut out: Vec<String> = Vec::new();
    w0::run(&mut out);
    w1::run(&mut out);
    w2::run(&mut out);
    for l in out { println!("{}", l.trim_end()); }
}
