#![forbid(unsafe_code)]
#![allow(warnings)]

pub mod comps {
    #[derive(Clone, Debug)] pub struct CompA(pub u64);
    #[derive(Clone, Debug)] pub struct CompB(pub u64);
    #[derive(Clone, Debug)] pub struct CompC(pub u64);
    #[derive(Clone, Debug)] pub struct CompD(pub u64);
    #[derive(Clone, Debug)] pub struct CompE(pub u64);
    #[derive(Clone, Debug)] pub struct CompF(pub u64);
    #[derive(Clone, Debug)] pub struct CompG(pub u64);
    #[derive(Clone, Debug)] pub struct CompH(pub u64);
    #[derive(Clone, Debug)] pub struct CompI(pub u64);
    #[derive(Clone, Debug)] pub struct CompJ(pub u64);
}
pub mod w0 {
    use gecs::prelude::*;
    use super::comps::*;

    ecs_world! {
    ecs_name!(WorldJa);
        ecs_archetype!(ArchA, CompD);
        }

    pub fn run(out: &mut Vec<String>) {
        let mut world = WorldJa::new();
        let e_0_0 = world.create::<ArchA>((CompD(10103),));
        out.push(format!("w0 id ArchA {}", <ArchA as Archetype>::ARCHETYPE_ID));
        out.push(format!("w0 cid ArchA CompD {} {}", <ArchA as ArchetypeHas<CompD>>::COMPONENT_ID, ecs_component_id!(CompD, ArchA)));
        { let mut seen = false; ecs_iter!(world, |_c: &CompD, _e: &Entity<ArchA>| { if !seen { seen = true; out.push(format!("w0 qcid ArchA CompD {}", ecs_component_id!(CompD))); } }); }
        out.push(format!("w0 hid ArchA {} {}", e_0_0.archetype_id(), e_0_0.into_any().archetype_id()));
        out.push(format!("w0 len ArchA {}", world.archetype::<ArchA>().len()));
        for id in 0..=255u8 { if let Ok(sel) = SelectArchetype::try_from(id) { out.push(format!("w0 sel {} {}", id, sel.archetype_id())); } }
        ecs_iter!(world, |#[cfg(vp_1)] p0: &EntityDirect<ArchA>, p1: &Entity<ArchA>| { let mut line = String::new(); #[cfg(vp_1)] line.push_str(&format!("id{} ", p0.archetype_id())); line.push_str(&format!("id{} ", p1.archetype_id()));  out.push(format!("w0 q0 visit {}", line)); });
        ecs_iter!(world, |p0: &OneOf<CompD>| { let mut line = String::new(); line.push_str(&format!("c{} ", p0.0));  out.push(format!("w0 q1 visit {}", line)); });
        { let key = world.to_direct(e_0_0).unwrap(); let r = ecs_find_borrow!(world, key, |p0: &EntityAny| { let mut line = String::new(); line.push_str(&format!("id{} ", p0.archetype_id()));  out.push(format!("w0 q2 call a0e0 {}", line)); }); out.push(format!("w0 q2 find a0e0 k2 {}", r.is_some())); }
        ecs_iter_borrow!(world, |#[cfg(any())] p0: &CompF| { let mut line = String::new(); #[cfg(any())] line.push_str(&format!("c{} ", p0.0));  out.push(format!("w0 q3 visit {}", line)); });
        ecs_iter_destroy!(world, |#[cfg(not(vp_0))] p0: &EntityDirectAny| { let mut line = String::new(); #[cfg(not(vp_0))] line.push_str(&format!("id{} ", p0.archetype_id()));  out.push(format!("w0 q4 visit {}", line)); });
        let _ = &mut world;
    }
}

pub mod w1 {
    use gecs::prelude::*;
    use super::comps::*;

    ecs_world! {
    ecs_name!(WorldJb);
        #[cfg(not(vp_1))] #[cfg(not(vp_0))] #[archetype_id(14)] ecs_archetype!(ArchA, #[component_id(214)] CompD, #[component_id(32)] CompA, #[cfg(not(vp_2))] #[component_id(25)] CompF, CompB);
        ecs_archetype!(ArchB, CompE);
        }

    pub fn run(out: &mut Vec<String>) {
        let mut world = WorldJb::new();
        #[cfg(not(vp_1))] #[cfg(not(vp_0))] let e_0_0 = world.create::<ArchA>((CompD(10103), CompA(10100), #[cfg(not(vp_2))] CompF(10105), CompB(10101),));
        #[cfg(not(vp_1))] #[cfg(not(vp_0))] out.push(format!("w1 id ArchA {}", <ArchA as Archetype>::ARCHETYPE_ID));
        #[cfg(all(not(vp_1), not(vp_0)))] out.push(format!("w1 cid ArchA CompD {} {}", <ArchA as ArchetypeHas<CompD>>::COMPONENT_ID, ecs_component_id!(CompD, ArchA)));
        #[cfg(all(not(vp_1), not(vp_0)))] { let mut seen = false; ecs_iter!(world, |_c: &CompD, _e: &Entity<ArchA>| { if !seen { seen = true; out.push(format!("w1 qcid ArchA CompD {}", ecs_component_id!(CompD))); } }); }
        #[cfg(all(not(vp_1), not(vp_0)))] out.push(format!("w1 cid ArchA CompA {} {}", <ArchA as ArchetypeHas<CompA>>::COMPONENT_ID, ecs_component_id!(CompA, ArchA)));
        #[cfg(all(not(vp_1), not(vp_0)))] { let mut seen = false; ecs_iter!(world, |_c: &CompA, _e: &Entity<ArchA>| { if !seen { seen = true; out.push(format!("w1 qcid ArchA CompA {}", ecs_component_id!(CompA))); } }); }
        #[cfg(all(not(vp_1), not(vp_0), not(vp_2)))] out.push(format!("w1 cid ArchA CompF {} {}", <ArchA as ArchetypeHas<CompF>>::COMPONENT_ID, ecs_component_id!(CompF, ArchA)));
        #[cfg(all(not(vp_1), not(vp_0), not(vp_2)))] { let mut seen = false; ecs_iter!(world, |_c: &CompF, _e: &Entity<ArchA>| { if !seen { seen = true; out.push(format!("w1 qcid ArchA CompF {}", ecs_component_id!(CompF))); } }); }
        #[cfg(all(not(vp_1), not(vp_0)))] out.push(format!("w1 cid ArchA CompB {} {}", <ArchA as ArchetypeHas<CompB>>::COMPONENT_ID, ecs_component_id!(CompB, ArchA)));
        #[cfg(all(not(vp_1), not(vp_0)))] { let mut seen = false; ecs_iter!(world, |_c: &CompB, _e: &Entity<ArchA>| { if !seen { seen = true; out.push(format!("w1 qcid ArchA CompB {}", ecs_component_id!(CompB))); } }); }
        #[cfg(not(vp_1))] #[cfg(not(vp_0))] out.push(format!("w1 hid ArchA {} {}", e_0_0.archetype_id(), e_0_0.into_any().archetype_id()));
        #[cfg(not(vp_1))] #[cfg(not(vp_0))] out.push(format!("w1 len ArchA {}", world.archetype::<ArchA>().len()));
        out.push(format!("w1 id ArchB {}", <ArchB as Archetype>::ARCHETYPE_ID));
        out.push(format!("w1 cid ArchB CompE {} {}", <ArchB as ArchetypeHas<CompE>>::COMPONENT_ID, ecs_component_id!(CompE, ArchB)));
        out.push(format!("w1 len ArchB {}", world.archetype::<ArchB>().len()));
        for id in 0..=255u8 { if let Ok(sel) = SelectArchetype::try_from(id) { out.push(format!("w1 sel {} {}", id, sel.archetype_id())); } }
        #[cfg(not(vp_1))] #[cfg(not(vp_0))] { let key = e_0_0; let r = ecs_find_borrow!(world, key, |p0: &EntityDirect<ArchB>| { let mut line = String::new(); line.push_str(&format!("id{} ", p0.archetype_id()));  out.push(format!("w1 q0 call a0e0 {}", line)); }); out.push(format!("w1 q0 find a0e0 k0 {}", r.is_some())); }
        ecs_iter!(world, |p0: &EntityAny| { let mut line = String::new(); line.push_str(&format!("id{} ", p0.archetype_id()));  out.push(format!("w1 q1 visit {}", line)); });
        #[cfg(not(vp_1))] #[cfg(not(vp_0))] { let key = world.to_direct(e_0_0).unwrap(); let r = ecs_find!(world, key, || { let mut line = String::new();  out.push(format!("w1 q2 call a0e0 {}", line)); }); out.push(format!("w1 q2 find a0e0 k2 {}", r.is_some())); }
        let _ = &mut world;
    }
}

pub mod w2 {
    use gecs::prelude::*;
    use super::comps::*;

    ecs_world! {
    ecs_name!(WorldJc);
        ecs_archetype!(ArchA, #[cfg(vp_0)] #[cfg(vp_1)] CompF, #[component_id(6)] CompE, CompA, #[cfg(all())] #[cfg(vp_0)] #[component_id(14)] CompB);
        ecs_archetype!(ArchB, #[cfg(vp_1)] #[component_id(1)] CompA, #[cfg(not(vp_0))] CompC, CompD);
        ecs_archetype!(ArchC, CompF, #[component_id(11)] CompB);
        ecs_archetype!(ArchD, #[component_id(240)] CompC, CompB, CompD, CompA, CompE);
        ecs_archetype!(ArchE, CompB, #[cfg(not(vp_1))] CompC, CompA);
        }

    pub fn run(out: &mut Vec<String>) {
        let mut world = WorldJc::new();
        let e_1_0 = world.create::<ArchB>((#[cfg(vp_1)] CompA(20100), #[cfg(not(vp_0))] CompC(20102), CompD(20103),));
        let e_1_1 = world.create::<ArchB>((#[cfg(vp_1)] CompA(20200), #[cfg(not(vp_0))] CompC(20202), CompD(20203),));
        let e_2_0 = world.create::<ArchC>((CompF(30105), CompB(30101),));
        let e_2_1 = world.create::<ArchC>((CompF(30205), CompB(30201),));
        let e_4_0 = world.create::<ArchE>((CompB(50101), #[cfg(not(vp_1))] CompC(50102), CompA(50100),));
        let e_4_1 = world.create::<ArchE>((CompB(50201), #[cfg(not(vp_1))] CompC(50202), CompA(50200),));
        out.push(format!("w2 id ArchA {}", <ArchA as Archetype>::ARCHETYPE_ID));
        #[cfg(all(vp_0, vp_1))] out.push(format!("w2 cid ArchA CompF {} {}", <ArchA as ArchetypeHas<CompF>>::COMPONENT_ID, ecs_component_id!(CompF, ArchA)));
        out.push(format!("w2 cid ArchA CompE {} {}", <ArchA as ArchetypeHas<CompE>>::COMPONENT_ID, ecs_component_id!(CompE, ArchA)));
        out.push(format!("w2 cid ArchA CompA {} {}", <ArchA as ArchetypeHas<CompA>>::COMPONENT_ID, ecs_component_id!(CompA, ArchA)));
        #[cfg(all(all(), vp_0))] out.push(format!("w2 cid ArchA CompB {} {}", <ArchA as ArchetypeHas<CompB>>::COMPONENT_ID, ecs_component_id!(CompB, ArchA)));
        out.push(format!("w2 len ArchA {}", world.archetype::<ArchA>().len()));
        out.push(format!("w2 id ArchB {}", <ArchB as Archetype>::ARCHETYPE_ID));
        #[cfg(all(vp_1))] out.push(format!("w2 cid ArchB CompA {} {}", <ArchB as ArchetypeHas<CompA>>::COMPONENT_ID, ecs_component_id!(CompA, ArchB)));
        #[cfg(all(vp_1))] { let mut seen = false; ecs_iter!(world, |_c: &CompA, _e: &Entity<ArchB>| { if !seen { seen = true; out.push(format!("w2 qcid ArchB CompA {}", ecs_component_id!(CompA))); } }); }
        #[cfg(all(not(vp_0)))] out.push(format!("w2 cid ArchB CompC {} {}", <ArchB as ArchetypeHas<CompC>>::COMPONENT_ID, ecs_component_id!(CompC, ArchB)));
        #[cfg(all(not(vp_0)))] { let mut seen = false; ecs_iter!(world, |_c: &CompC, _e: &Entity<ArchB>| { if !seen { seen = true; out.push(format!("w2 qcid ArchB CompC {}", ecs_component_id!(CompC))); } }); }
        out.push(format!("w2 cid ArchB CompD {} {}", <ArchB as ArchetypeHas<CompD>>::COMPONENT_ID, ecs_component_id!(CompD, ArchB)));
        { let mut seen = false; ecs_iter!(world, |_c: &CompD, _e: &Entity<ArchB>| { if !seen { seen = true; out.push(format!("w2 qcid ArchB CompD {}", ecs_component_id!(CompD))); } }); }
        out.push(format!("w2 hid ArchB {} {}", e_1_0.archetype_id(), e_1_0.into_any().archetype_id()));
        out.push(format!("w2 hid ArchB {} {}", e_1_1.archetype_id(), e_1_1.into_any().archetype_id()));
        out.push(format!("w2 len ArchB {}", world.archetype::<ArchB>().len()));
        out.push(format!("w2 id ArchC {}", <ArchC as Archetype>::ARCHETYPE_ID));
        out.push(format!("w2 cid ArchC CompF {} {}", <ArchC as ArchetypeHas<CompF>>::COMPONENT_ID, ecs_component_id!(CompF, ArchC)));
        { let mut seen = false; ecs_iter!(world, |_c: &CompF, _e: &Entity<ArchC>| { if !seen { seen = true; out.push(format!("w2 qcid ArchC CompF {}", ecs_component_id!(CompF))); } }); }
        out.push(format!("w2 cid ArchC CompB {} {}", <ArchC as ArchetypeHas<CompB>>::COMPONENT_ID, ecs_component_id!(CompB, ArchC)));
        { let mut seen = false; ecs_iter!(world, |_c: &CompB, _e: &Entity<ArchC>| { if !seen { seen = true; out.push(format!("w2 qcid ArchC CompB {}", ecs_component_id!(CompB))); } }); }
        out.push(format!("w2 hid ArchC {} {}", e_2_0.archetype_id(), e_2_0.into_any().archetype_id()));
        out.push(format!("w2 hid ArchC {} {}", e_2_1.archetype_id(), e_2_1.into_any().archetype_id()));
        out.push(format!("w2 len ArchC {}", world.archetype::<ArchC>().len()));
        out.push(format!("w2 id ArchD {}", <ArchD as Archetype>::ARCHETYPE_ID));
        out.push(format!("w2 cid ArchD CompC {} {}", <ArchD as ArchetypeHas<CompC>>::COMPONENT_ID, ecs_component_id!(CompC, ArchD)));
        out.push(format!("w2 cid ArchD CompB {} {}", <ArchD as ArchetypeHas<CompB>>::COMPONENT_ID, ecs_component_id!(CompB, ArchD)));
        out.push(format!("w2 cid ArchD CompD {} {}", <ArchD as ArchetypeHas<CompD>>::COMPONENT_ID, ecs_component_id!(CompD, ArchD)));
        out.push(format!("w2 cid ArchD CompA {} {}", <ArchD as ArchetypeHas<CompA>>::COMPONENT_ID, ecs_component_id!(CompA, ArchD)));
        out.push(format!("w2 cid ArchD CompE {} {}", <ArchD as ArchetypeHas<CompE>>::COMPONENT_ID, ecs_component_id!(CompE, ArchD)));
        out.push(format!("w2 len ArchD {}", world.archetype::<ArchD>().len()));
        out.push(format!("w2 id ArchE {}", <ArchE as Archetype>::ARCHETYPE_ID));
        out.push(format!("w2 cid ArchE CompB {} {}", <ArchE as ArchetypeHas<CompB>>::COMPONENT_ID, ecs_component_id!(CompB, ArchE)));
        { let mut seen = false; ecs_iter!(world, |_c: &CompB, _e: &Entity<ArchE>| { if !seen { seen = true; out.push(format!("w2 qcid ArchE CompB {}", ecs_component_id!(CompB))); } }); }
        #[cfg(all(not(vp_1)))] out.push(format!("w2 cid ArchE CompC {} {}", <ArchE as ArchetypeHas<CompC>>::COMPONENT_ID, ecs_component_id!(CompC, ArchE)));
        #[cfg(all(not(vp_1)))] { let mut seen = false; ecs_iter!(world, |_c: &CompC, _e: &Entity<ArchE>| { if !seen { seen = true; out.push(format!("w2 qcid ArchE CompC {}", ecs_component_id!(CompC))); } }); }
        out.push(format!("w2 cid ArchE CompA {} {}", <ArchE as ArchetypeHas<CompA>>::COMPONENT_ID, ecs_component_id!(CompA, ArchE)));
        { let mut seen = false; ecs_iter!(world, |_c: &CompA, _e: &Entity<ArchE>| { if !seen { seen = true; out.push(format!("w2 qcid ArchE CompA {}", ecs_component_id!(CompA))); } }); }
        out.push(format!("w2 hid ArchE {} {}", e_4_0.archetype_id(), e_4_0.into_any().archetype_id()));
        out.push(format!("w2 hid ArchE {} {}", e_4_1.archetype_id(), e_4_1.into_any().archetype_id()));
        out.push(format!("w2 len ArchE {}", world.archetype::<ArchE>().len()));
        for id in 0..=255u8 { if let Ok(sel) = SelectArchetype::try_from(id) { out.push(format!("w2 sel {} {}", id, sel.archetype_id())); } }
        ecs_iter!(world, |p0: &mut CompB, p1: &EntityAny, p2: &EntityDirectAny, p3: &EntityDirect<_>| { let mut line = String::new(); line.push_str(&format!("c{} ", p0.0)); line.push_str(&format!("id{} ", p1.archetype_id())); line.push_str(&format!("id{} ", p2.archetype_id())); line.push_str(&format!("id{} ", p3.archetype_id()));  out.push(format!("w2 q0 visit {}", line)); });
        { let key = world.to_direct(e_1_0).unwrap(); let r = ecs_find_borrow!(world, key, |p0: &CompA| { let mut line = String::new(); line.push_str(&format!("c{} ", p0.0));  out.push(format!("w2 q1 call a1e0 {}", line)); }); out.push(format!("w2 q1 find a1e0 k2 {}", r.is_some())); }
        { let key = world.to_direct(e_1_1.into_any()).unwrap(); let r = ecs_find_borrow!(world, key, |p0: &CompA| { let mut line = String::new(); line.push_str(&format!("c{} ", p0.0));  out.push(format!("w2 q1 call a1e1 {}", line)); }); out.push(format!("w2 q1 find a1e1 k3 {}", r.is_some())); }
        { let key = world.to_direct(e_2_0.into_any()).unwrap(); let r = ecs_find_borrow!(world, key, |p0: &CompA| { let mut line = String::new(); line.push_str(&format!("c{} ", p0.0));  out.push(format!("w2 q1 call a2e0 {}", line)); }); out.push(format!("w2 q1 find a2e0 k3 {}", r.is_some())); }
        { let key = e_2_1; let r = ecs_find_borrow!(world, key, |p0: &CompA| { let mut line = String::new(); line.push_str(&format!("c{} ", p0.0));  out.push(format!("w2 q1 call a2e1 {}", line)); }); out.push(format!("w2 q1 find a2e1 k0 {}", r.is_some())); }
        { let key = e_4_0.into_any(); let r = ecs_find_borrow!(world, key, |p0: &CompA| { let mut line = String::new(); line.push_str(&format!("c{} ", p0.0));  out.push(format!("w2 q1 call a4e0 {}", line)); }); out.push(format!("w2 q1 find a4e0 k1 {}", r.is_some())); }
        { let key = world.to_direct(e_4_1).unwrap(); let r = ecs_find_borrow!(world, key, |p0: &CompA| { let mut line = String::new(); line.push_str(&format!("c{} ", p0.0));  out.push(format!("w2 q1 call a4e1 {}", line)); }); out.push(format!("w2 q1 find a4e1 k2 {}", r.is_some())); }
        ecs_iter!(world, || { let mut line = String::new();  out.push(format!("w2 q2 visit {}", line)); });
        ecs_iter_borrow!(world, || { let mut line = String::new();  out.push(format!("w2 q3 visit {}", line)); });
        ecs_iter_destroy!(world, || { let mut line = String::new();  out.push(format!("w2 q4 visit {}", line)); });
        let _ = &mut world;
    }
}

fn main() {
    let mut out: Vec<String> = Vec::new();
    w0::run(&mut out);
    w1::run(&mut out);
    w2::run(&mut out);
    for l in out { println!("{}", l.trim_end()); }
}
