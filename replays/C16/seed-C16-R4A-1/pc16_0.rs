#![forbid(unsafe_code)]
#![allow(warnings)]

pub mod comps {
    #[derive(Clone, Debug)] pub struct CompA(pub u64);
    #[derive(Clone, Debug)] pub struct CompB(pub u64);
    #[derive(Clone, Debug)] pub struct CompC(pub u64);
    #[derive(Clone, Debug)] pub struct CompD(pub u64);
    #[derive(Clone, Debug)] pub struct CompE(pub u64);
    #[derive(Clone, Debug)] pub struct CompF(pub u64);
    #[derive(Clone, Debug)] pub struct CompG(pub u64);
    #[derive(Clone, Debug)] pub struct CompH(pub u64);
    #[derive(Clone, Debug)] pub struct CompI(pub u64);
    #[derive(Clone, Debug)] pub struct CompJ(pub u64);
}
pub mod w0 {
    use gecs::prelude::*;
    use super::comps::*;

    ecs_world! {
    ecs_name!(WorldAa);
        #[archetype_id(2)] ecs_archetype!(ArchA, #[component_id(34)] CompF, #[cfg(not(vp_2))] #[component_id(8)] CompD, #[component_id(7)] CompE, #[cfg(vp_0)] #[component_id(27)] CompC);
        }

    pub fn run(out: &mut Vec<String>) {
        let mut world = WorldAa::new();
        let e_0_0 = world.create::<ArchA>((CompF(10105), #[cfg(not(vp_2))] CompD(10103), CompE(10104), #[cfg(vp_0)] CompC(10102),));
        let e_0_1 = world.create::<ArchA>((CompF(10205), #[cfg(not(vp_2))] CompD(10203), CompE(10204), #[cfg(vp_0)] CompC(10202),));
        out.push(format!("w0 id ArchA {}", <ArchA as Archetype>::ARCHETYPE_ID));
        out.push(format!("w0 cid ArchA CompF {} {}", <ArchA as ArchetypeHas<CompF>>::COMPONENT_ID, ecs_component_id!(CompF, ArchA)));
        { let mut seen = false; ecs_iter!(world, |_c: &CompF, _e: &Entity<ArchA>| { if !seen { seen = true; out.push(format!("w0 qcid ArchA CompF {}", ecs_component_id!(CompF))); } }); }
        #[cfg(all(not(vp_2)))] out.push(format!("w0 cid ArchA CompD {} {}", <ArchA as ArchetypeHas<CompD>>::COMPONENT_ID, ecs_component_id!(CompD, ArchA)));
        #[cfg(all(not(vp_2)))] { let mut seen = false; ecs_iter!(world, |_c: &CompD, _e: &Entity<ArchA>| { if !seen { seen = true; out.push(format!("w0 qcid ArchA CompD {}", ecs_component_id!(CompD))); } }); }
        out.push(format!("w0 cid ArchA CompE {} {}", <ArchA as ArchetypeHas<CompE>>::COMPONENT_ID, ecs_component_id!(CompE, ArchA)));
        { let mut seen = false; ecs_iter!(world, |_c: &CompE, _e: &Entity<ArchA>| { if !seen { seen = true; out.push(format!("w0 qcid ArchA CompE {}", ecs_component_id!(CompE))); } }); }
        #[cfg(all(vp_0))] out.push(format!("w0 cid ArchA CompC {} {}", <ArchA as ArchetypeHas<CompC>>::COMPONENT_ID, ecs_component_id!(CompC, ArchA)));
        #[cfg(all(vp_0))] { let mut seen = false; ecs_iter!(world, |_c: &CompC, _e: &Entity<ArchA>| { if !seen { seen = true; out.push(format!("w0 qcid ArchA CompC {}", ecs_component_id!(CompC))); } }); }
        out.push(format!("w0 hid ArchA {} {}", e_0_0.archetype_id(), e_0_0.into_any().archetype_id()));
        out.push(format!("w0 hid ArchA {} {}", e_0_1.archetype_id(), e_0_1.into_any().archetype_id()));
        out.push(format!("w0 len ArchA {}", world.archetype::<ArchA>().len()));
        for id in 0..=255u8 { if let Ok(sel) = SelectArchetype::try_from(id) { out.push(format!("w0 sel {} {}", id, sel.archetype_id())); } }
        ecs_iter_borrow!(world, || { let mut line = String::new();  out.push(format!("w0 q0 visit {}", line)); });
        { let key = e_0_0.into_any(); let r = ecs_find!(world, key, || { let mut line = String::new();  out.push(format!("w0 q1 call a0e0 {}", line)); }); out.push(format!("w0 q1 find a0e0 k1 {}", r.is_some())); }
        { let key = world.to_direct(e_0_1).unwrap(); let r = ecs_find!(world, key, || { let mut line = String::new();  out.push(format!("w0 q1 call a0e1 {}", line)); }); out.push(format!("w0 q1 find a0e1 k2 {}", r.is_some())); }
        { let key = world.to_direct(e_0_0).unwrap(); let r = ecs_find!(world, key, || { let mut line = String::new();  out.push(format!("w0 q2 call a0e0 {}", line)); }); out.push(format!("w0 q2 find a0e0 k2 {}", r.is_some())); }
        { let key = world.to_direct(e_0_1.into_any()).unwrap(); let r = ecs_find!(world, key, || { let mut line = String::new();  out.push(format!("w0 q2 call a0e1 {}", line)); }); out.push(format!("w0 q2 find a0e1 k3 {}", r.is_some())); }
        { let key = world.to_direct(e_0_0.into_any()).unwrap(); let r = ecs_find_borrow!(world, key, |p0: &Entity<_>, p1: &Entity<_>| { let mut line = String::new(); line.push_str(&format!("id{} ", p0.archetype_id())); line.push_str(&format!("id{} ", p1.archetype_id()));  out.push(format!("w0 q3 call a0e0 {}", line)); }); out.push(format!("w0 q3 find a0e0 k3 {}", r.is_some())); }
        { let key = e_0_1; let r = ecs_find_borrow!(world, key, |p0: &Entity<_>, p1: &Entity<_>| { let mut line = String::new(); line.push_str(&format!("id{} ", p0.archetype_id())); line.push_str(&format!("id{} ", p1.archetype_id()));  out.push(format!("w0 q3 call a0e1 {}", line)); }); out.push(format!("w0 q3 find a0e1 k0 {}", r.is_some())); }
        ecs_iter!(world, |#[cfg(not(all()))] p0: &mut CompI, p1: &EntityAny| { let mut line = String::new(); #[cfg(not(all()))] line.push_str(&format!("c{} ", p0.0)); line.push_str(&format!("id{} ", p1.archetype_id()));  out.push(format!("w0 q4 visit {}", line)); });
        let _ = &mut world;
    }
}

pub mod w1 {
    use gecs::prelude::*;
    use super::comps::*;

    ecs_world! {
    ecs_name!(WorldAb);
        #[archetype_id(208)] ecs_archetype!(ArchA, CompA, #[cfg(not(vp_1))] CompD, #[cfg(vp_1)] #[component_id(38)] CompG, #[cfg(vp_2)] #[component_id(233)] CompE);
        ecs_archetype!(ArchB, CompA, CompC, #[component_id(24)] CompB, #[cfg(all(all(), not(any())))] CompG);
        #[archetype_id(11)] ecs_archetype!(ArchC, CompA, #[component_id(232)] CompF, #[cfg(not(vp_0))] #[component_id(32)] CompE);
        }

    pub fn run(out: &mut Vec<String>) {
        let mut world = WorldAb::new();
        let e_1_0 = world.create::<ArchB>((CompA(20100), CompC(20102), CompB(20101), #[cfg(all(all(), not(any())))] CompG(20106),));
        let e_2_0 = world.create::<ArchC>((CompA(30100), CompF(30105), #[cfg(not(vp_0))] CompE(30104),));
        let e_2_1 = world.create::<ArchC>((CompA(30200), CompF(30205), #[cfg(not(vp_0))] CompE(30204),));
        out.push(format!("w1 id ArchA {}", <ArchA as Archetype>::ARCHETYPE_ID));
        out.push(format!("w1 cid ArchA CompA {} {}", <ArchA as ArchetypeHas<CompA>>::COMPONENT_ID, ecs_component_id!(CompA, ArchA)));
        #[cfg(all(not(vp_1)))] out.push(format!("w1 cid ArchA CompD {} {}", <ArchA as ArchetypeHas<CompD>>::COMPONENT_ID, ecs_component_id!(CompD, ArchA)));
        #[cfg(all(vp_1))] out.push(format!("w1 cid ArchA CompG {} {}", <ArchA as ArchetypeHas<CompG>>::COMPONENT_ID, ecs_component_id!(CompG, ArchA)));
        #[cfg(all(vp_2))] out.push(format!("w1 cid ArchA CompE {} {}", <ArchA as ArchetypeHas<CompE>>::COMPONENT_ID, ecs_component_id!(CompE, ArchA)));
        out.push(format!("w1 len ArchA {}", world.archetype::<ArchA>().len()));
        out.push(format!("w1 id ArchB {}", <ArchB as Archetype>::ARCHETYPE_ID));
        out.push(format!("w1 cid ArchB CompA {} {}", <ArchB as ArchetypeHas<CompA>>::COMPONENT_ID, ecs_component_id!(CompA, ArchB)));
        { let mut seen = false; ecs_iter!(world, |_c: &CompA, _e: &Entity<ArchB>| { if !seen { seen = true; out.push(format!("w1 qcid ArchB CompA {}", ecs_component_id!(CompA))); } }); }
        out.push(format!("w1 cid ArchB CompC {} {}", <ArchB as ArchetypeHas<CompC>>::COMPONENT_ID, ecs_component_id!(CompC, ArchB)));
        { let mut seen = false; ecs_iter!(world, |_c: &CompC, _e: &Entity<ArchB>| { if !seen { seen = true; out.push(format!("w1 qcid ArchB CompC {}", ecs_component_id!(CompC))); } }); }
        out.push(format!("w1 cid ArchB CompB {} {}", <ArchB as ArchetypeHas<CompB>>::COMPONENT_ID, ecs_component_id!(CompB, ArchB)));
        { let mut seen = false; ecs_iter!(world, |_c: &CompB, _e: &Entity<ArchB>| { if !seen { seen = true; out.push(format!("w1 qcid ArchB CompB {}", ecs_component_id!(CompB))); } }); }
        #[cfg(all(all(all(), not(any()))))] out.push(format!("w1 cid ArchB CompG {} {}", <ArchB as ArchetypeHas<CompG>>::COMPONENT_ID, ecs_component_id!(CompG, ArchB)));
        #[cfg(all(all(all(), not(any()))))] { let mut seen = false; ecs_iter!(world, |_c: &CompG, _e: &Entity<ArchB>| { if !seen { seen = true; out.push(format!("w1 qcid ArchB CompG {}", ecs_component_id!(CompG))); } }); }
        out.push(format!("w1 hid ArchB {} {}", e_1_0.archetype_id(), e_1_0.into_any().archetype_id()));
        out.push(format!("w1 len ArchB {}", world.archetype::<ArchB>().len()));
        out.push(format!("w1 id ArchC {}", <ArchC as Archetype>::ARCHETYPE_ID));
        out.push(format!("w1 cid ArchC CompA {} {}", <ArchC as ArchetypeHas<CompA>>::COMPONENT_ID, ecs_component_id!(CompA, ArchC)));
        { let mut seen = false; ecs_iter!(world, |_c: &CompA, _e: &Entity<ArchC>| { if !seen { seen = true; out.push(format!("w1 qcid ArchC CompA {}", ecs_component_id!(CompA))); } }); }
        out.push(format!("w1 cid ArchC CompF {} {}", <ArchC as ArchetypeHas<CompF>>::COMPONENT_ID, ecs_component_id!(CompF, ArchC)));
        { let mut seen = false; ecs_iter!(world, |_c: &CompF, _e: &Entity<ArchC>| { if !seen { seen = true; out.push(format!("w1 qcid ArchC CompF {}", ecs_component_id!(CompF))); } }); }
        #[cfg(all(not(vp_0)))] out.push(format!("w1 cid ArchC CompE {} {}", <ArchC as ArchetypeHas<CompE>>::COMPONENT_ID, ecs_component_id!(CompE, ArchC)));
        #[cfg(all(not(vp_0)))] { let mut seen = false; ecs_iter!(world, |_c: &CompE, _e: &Entity<ArchC>| { if !seen { seen = true; out.push(format!("w1 qcid ArchC CompE {}", ecs_component_id!(CompE))); } }); }
        out.push(format!("w1 hid ArchC {} {}", e_2_0.archetype_id(), e_2_0.into_any().archetype_id()));
        out.push(format!("w1 hid ArchC {} {}", e_2_1.archetype_id(), e_2_1.into_any().archetype_id()));
        out.push(format!("w1 len ArchC {}", world.archetype::<ArchC>().len()));
        for id in 0..=255u8 { if let Ok(sel) = SelectArchetype::try_from(id) { out.push(format!("w1 sel {} {}", id, sel.archetype_id())); } }
        ecs_iter!(world, |p0: &EntityDirect<_>, #[cfg(not(all()))] p1: &Entity<_>, p2: &EntityAny| { let mut line = String::new(); line.push_str(&format!("id{} ", p0.archetype_id())); #[cfg(not(all()))] line.push_str(&format!("id{} ", p1.archetype_id())); line.push_str(&format!("id{} ", p2.archetype_id()));  out.push(format!("w1 q0 visit {}", line)); });
        ecs_iter_borrow!(world, || { let mut line = String::new();  out.push(format!("w1 q1 visit {}", line)); });
        ecs_iter!(world, |p0: &EntityDirect<ArchC>| { let mut line = String::new(); line.push_str(&format!("id{} ", p0.archetype_id()));  out.push(format!("w1 q2 visit {}", line)); });
        ecs_iter_borrow!(world, || { let mut line = String::new();  out.push(format!("w1 q3 visit {}", line)); });
        ecs_iter_destroy!(world, |#[cfg(vp_1)] #[cfg(vp_2)] p0: &mut CompE, #[cfg(any())] #[cfg(vp_2)] p1: &EntityAny, p2: &EntityAny, p3: &mut CompG| { let mut line = String::new(); #[cfg(vp_1)] #[cfg(vp_2)] line.push_str(&format!("c{} ", p0.0)); #[cfg(any())] #[cfg(vp_2)] line.push_str(&format!("id{} ", p1.archetype_id())); line.push_str(&format!("id{} ", p2.archetype_id())); line.push_str(&format!("c{} ", p3.0));  out.push(format!("w1 q4 visit {}", line)); });
        let _ = &mut world;
    }
}

pub mod w2 {
    use gecs::prelude::*;
    use super::comps::*;

    ecs_world! {
    ecs_name!(WorldAc);
        ecs_archetype!(ArchA, #[cfg(not(vp_1))] CompB, #[cfg(not(vp_1))] CompA, CompE);
        #[cfg(vp_0)] #[archetype_id(33)] ecs_archetype!(ArchB, CompG);
        #[cfg(vp_2)] #[cfg(vp_1)] ecs_archetype!(ArchC, CompD, CompC);
        #[archetype_id(13)] ecs_archetype!(ArchD, CompE, #[cfg(not(any()))] #[component_id(13)] CompA, #[component_id(248)] CompF);
        }

    pub fn run(out: &mut Vec<String>) {
        let mut world = WorldAc::new();
        let e_0_0 = world.create::<ArchA>((#[cfg(not(vp_1))] CompB(10101), #[cfg(not(vp_1))] CompA(10100), CompE(10104),));
        #[cfg(vp_2)] #[cfg(vp_1)] let e_2_0 = world.create::<ArchC>((CompD(30103), CompC(30102),));
        #[cfg(vp_2)] #[cfg(vp_1)] let e_2_1 = world.create::<ArchC>((CompD(30203), CompC(30202),));
        let e_3_0 = world.create::<ArchD>((CompE(40104), #[cfg(not(any()))] CompA(40100), CompF(40105),));
        let e_3_1 = world.create::<ArchD>((CompE(40204), #[cfg(not(any()))] CompA(40200), CompF(40205),));
        out.push(format!("w2 id ArchA {}", <ArchA as Archetype>::ARCHETYPE_ID));
        #[cfg(all(not(vp_1)))] out.push(format!("w2 cid ArchA CompB {} {}", <ArchA as ArchetypeHas<CompB>>::COMPONENT_ID, ecs_component_id!(CompB, ArchA)));
        #[cfg(all(not(vp_1)))] { let mut seen = false; ecs_iter!(world, |_c: &CompB, _e: &Entity<ArchA>| { if !seen { seen = true; out.push(format!("w2 qcid ArchA CompB {}", ecs_component_id!(CompB))); } }); }
        #[cfg(all(not(vp_1)))] out.push(format!("w2 cid ArchA CompA {} {}", <ArchA as ArchetypeHas<CompA>>::COMPONENT_ID, ecs_component_id!(CompA, ArchA)));
        #[cfg(all(not(vp_1)))] { let mut seen = false; ecs_iter!(world, |_c: &CompA, _e: &Entity<ArchA>| { if !seen { seen = true; out.push(format!("w2 qcid ArchA CompA {}", ecs_component_id!(CompA))); } }); }
        out.push(format!("w2 cid ArchA CompE {} {}", <ArchA as ArchetypeHas<CompE>>::COMPONENT_ID, ecs_component_id!(CompE, ArchA)));
        { let mut seen = false; ecs_iter!(world, |_c: &CompE, _e: &Entity<ArchA>| { if !seen { seen = true; out.push(format!("w2 qcid ArchA CompE {}", ecs_component_id!(CompE))); } }); }
        out.push(format!("w2 hid ArchA {} {}", e_0_0.archetype_id(), e_0_0.into_any().archetype_id()));
        out.push(format!("w2 len ArchA {}", world.archetype::<ArchA>().len()));
        #[cfg(vp_0)] out.push(format!("w2 id ArchB {}", <ArchB as Archetype>::ARCHETYPE_ID));
        #[cfg(all(vp_0))] out.push(format!("w2 cid ArchB CompG {} {}", <ArchB as ArchetypeHas<CompG>>::COMPONENT_ID, ecs_component_id!(CompG, ArchB)));
        #[cfg(vp_0)] out.push(format!("w2 len ArchB {}", world.archetype::<ArchB>().len()));
        #[cfg(vp_2)] #[cfg(vp_1)] out.push(format!("w2 id ArchC {}", <ArchC as Archetype>::ARCHETYPE_ID));
        #[cfg(all(vp_2, vp_1))] out.push(format!("w2 cid ArchC CompD {} {}", <ArchC as ArchetypeHas<CompD>>::COMPONENT_ID, ecs_component_id!(CompD, ArchC)));
        #[cfg(all(vp_2, vp_1))] { let mut seen = false; ecs_iter!(world, |_c: &CompD, _e: &Entity<ArchC>| { if !seen { seen = true; out.push(format!("w2 qcid ArchC CompD {}", ecs_component_id!(CompD))); } }); }
        #[cfg(all(vp_2, vp_1))] out.push(format!("w2 cid ArchC CompC {} {}", <ArchC as ArchetypeHas<CompC>>::COMPONENT_ID, ecs_component_id!(CompC, ArchC)));
        #[cfg(all(vp_2, vp_1))] { let mut seen = false; ecs_iter!(world, |_c: &CompC, _e: &Entity<ArchC>| { if !seen { seen = true; out.push(format!("w2 qcid ArchC CompC {}", ecs_component_id!(CompC))); } }); }
        #[cfg(vp_2)] #[cfg(vp_1)] out.push(format!("w2 hid ArchC {} {}", e_2_0.archetype_id(), e_2_0.into_any().archetype_id()));
        #[cfg(vp_2)] #[cfg(vp_1)] out.push(format!("w2 hid ArchC {} {}", e_2_1.archetype_id(), e_2_1.into_any().archetype_id()));
        #[cfg(vp_2)] #[cfg(vp_1)] out.push(format!("w2 len ArchC {}", world.archetype::<ArchC>().len()));
        out.push(format!("w2 id ArchD {}", <ArchD as Archetype>::ARCHETYPE_ID));
        out.push(format!("w2 cid ArchD CompE {} {}", <ArchD as ArchetypeHas<CompE>>::COMPONENT_ID, ecs_component_id!(CompE, ArchD)));
        { let mut seen = false; ecs_iter!(world, |_c: &CompE, _e: &Entity<ArchD>| { if !seen { seen = true; out.push(format!("w2 qcid ArchD CompE {}", ecs_component_id!(CompE))); } }); }
        #[cfg(all(not(any())))] out.push(format!("w2 cid ArchD CompA {} {}", <ArchD as ArchetypeHas<CompA>>::COMPONENT_ID, ecs_component_id!(CompA, ArchD)));
        #[cfg(all(not(any())))] { let mut seen = false; ecs_iter!(world, |_c: &CompA, _e: &Entity<ArchD>| { if !seen { seen = true; out.push(format!("w2 qcid ArchD CompA {}", ecs_component_id!(CompA))); } }); }
        out.push(format!("w2 cid ArchD CompF {} {}", <ArchD as ArchetypeHas<CompF>>::COMPONENT_ID, ecs_component_id!(CompF, ArchD)));
        { let mut seen = false; ecs_iter!(world, |_c: &CompF, _e: &Entity<ArchD>| { if !seen { seen = true; out.push(format!("w2 qcid ArchD CompF {}", ecs_component_id!(CompF))); } }); }
        out.push(format!("w2 hid ArchD {} {}", e_3_0.archetype_id(), e_3_0.into_any().archetype_id()));
        out.push(format!("w2 hid ArchD {} {}", e_3_1.archetype_id(), e_3_1.into_any().archetype_id()));
        out.push(format!("w2 len ArchD {}", world.archetype::<ArchD>().len()));
        for id in 0..=255u8 { if let Ok(sel) = SelectArchetype::try_from(id) { out.push(format!("w2 sel {} {}", id, sel.archetype_id())); } }
        { let key = e_0_0; let r = ecs_find_borrow!(world, key, || { let mut line = String::new();  out.push(format!("w2 q0 call a0e0 {}", line)); }); out.push(format!("w2 q0 find a0e0 k0 {}", r.is_some())); }
        #[cfg(vp_2)] #[cfg(vp_1)] { let key = world.to_direct(e_2_0).unwrap(); let r = ecs_find_borrow!(world, key, || { let mut line = String::new();  out.push(format!("w2 q0 call a2e0 {}", line)); }); out.push(format!("w2 q0 find a2e0 k2 {}", r.is_some())); }
        #[cfg(vp_2)] #[cfg(vp_1)] { let key = world.to_direct(e_2_1.into_any()).unwrap(); let r = ecs_find_borrow!(world, key, || { let mut line = String::new();  out.push(format!("w2 q0 call a2e1 {}", line)); }); out.push(format!("w2 q0 find a2e1 k3 {}", r.is_some())); }
        { let key = world.to_direct(e_3_0.into_any()).unwrap(); let r = ecs_find_borrow!(world, key, || { let mut line = String::new();  out.push(format!("w2 q0 call a3e0 {}", line)); }); out.push(format!("w2 q0 find a3e0 k3 {}", r.is_some())); }
        { let key = e_3_1; let r = ecs_find_borrow!(world, key, || { let mut line = String::new();  out.push(format!("w2 q0 call a3e1 {}", line)); }); out.push(format!("w2 q0 find a3e1 k0 {}", r.is_some())); }
        ecs_iter_destroy!(world, || { let mut line = String::new();  out.push(format!("w2 q1 visit {}", line)); });
        { let key = world.to_direct(e_0_0).unwrap(); let r = ecs_find!(world, key, || { let mut line = String::new();  out.push(format!("w2 q2 call a0e0 {}", line)); }); out.push(format!("w2 q2 find a0e0 k2 {}", r.is_some())); }
        #[cfg(vp_2)] #[cfg(vp_1)] { let key = e_2_0; let r = ecs_find!(world, key, || { let mut line = String::new();  out.push(format!("w2 q2 call a2e0 {}", line)); }); out.push(format!("w2 q2 find a2e0 k0 {}", r.is_some())); }
        #[cfg(vp_2)] #[cfg(vp_1)] { let key = e_2_1.into_any(); let r = ecs_find!(world, key, || { let mut line = String::new();  out.push(format!("w2 q2 call a2e1 {}", line)); }); out.push(format!("w2 q2 find a2e1 k1 {}", r.is_some())); }
        { let key = e_3_0.into_any(); let r = ecs_find!(world, key, || { let mut line = String::new();  out.push(format!("w2 q2 call a3e0 {}", line)); }); out.push(format!("w2 q2 find a3e0 k1 {}", r.is_some())); }
        { let key = world.to_direct(e_3_1).unwrap(); let r = ecs_find!(world, key, || { let mut line = String::new();  out.push(format!("w2 q2 call a3e1 {}", line)); }); out.push(format!("w2 q2 find a3e1 k2 {}", r.is_some())); }
        let _ = &mut world;
    }
}

fn main() {
    let mut out: Vec<String> = Vec::new();
    w0::run(&mut out);
    w1::run(&mut out);
    w2::run(&mut out);
    for l in out { println!("{}", l.trim_end()); }
}
