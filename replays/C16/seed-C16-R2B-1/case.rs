#![forbid(unsafe_code)]
#![allow(warnings)]

pub mod comps {
    #[derive(Clone, Debug)] pub struct CompA(pub u64);
    #[derive(Clone, Debug)] pub struct CompB(pub u64);
    #[derive(Clone, Debug)] pub struct CompC(pub u64);
    #[derive(Clone, Debug)] pub struct CompD(pub u64);
    #[derive(Clone, Debug)] pub struct CompE(pub u64);
    #[derive(Clone, Debug)] pub struct CompF(pub u64);
    #[derive(Clone, Debug)] pub struct CompG(pub u64);
    #[derive(Clone, Debug)] pub struct CompH(pub u64);
    #[derive(Clone, Debug)] pub struct CompI(pub u64);
    #[derive(Clone, Debug)] pub struct CompJ(pub u64);
}
pub mod w0 {
    use gecs::prelude::*;
    use super::comps::*;

    ecs_world! {
    ecs_name!(WorldM);
        #[archetype_id(11)] ecs_archetype!(ArchA, #[cfg(vp_0)] CompA, CompC, #[cfg(not(any()))] #[component_id(29)] CompD, #[component_id(8)] CompE, #[cfg(any())] CompG);
        #[cfg(vp_1)] #[cfg(not(vp_2))] ecs_archetype!(ArchB, CompF, CompE, CompB, #[component_id(21)] CompD);
        }

    pub fn run(out: &mut Vec<String>) {
        let mut world = WorldM::new();
        let e_0_0 = world.create::<ArchA>((#[cfg(vp_0)] CompA(10100), CompC(10102), #[cfg(not(any()))] CompD(10103), CompE(10104), #[cfg(any())] CompG(10106),));
        let e_0_1 = world.create::<ArchA>((#[cfg(vp_0)] CompA(10200), CompC(10202), #[cfg(not(any()))] CompD(10203), CompE(10204), #[cfg(any())] CompG(10206),));
        #[cfg(vp_1)] #[cfg(not(vp_2))] let e_1_0 = world.create::<ArchB>((CompF(20105), CompE(20104), CompB(20101), CompD(20103),));
        #[cfg(vp_1)] #[cfg(not(vp_2))] let e_1_1 = world.create::<ArchB>((CompF(20205), CompE(20204), CompB(20201), CompD(20203),));
        out.push(format!("w0 id ArchA {}", <ArchA as Archetype>::ARCHETYPE_ID));
        #[cfg(all(vp_0))] out.push(format!("w0 cid ArchA CompA {} {}", <ArchA as ArchetypeHas<CompA>>::COMPONENT_ID, ecs_component_id!(CompA, ArchA)));
        #[cfg(all(vp_0))] { let mut seen = false; ecs_iter!(world, |_c: &CompA, _e: &Entity<ArchA>| { if !seen { seen = true; out.push(format!("w0 qcid ArchA CompA {}", ecs_component_id!(CompA))); } }); }
        out.push(format!("w0 cid ArchA CompC {} {}", <ArchA as ArchetypeHas<CompC>>::COMPONENT_ID, ecs_component_id!(CompC, ArchA)));
        { let mut seen = false; ecs_iter!(world, |_c: &CompC, _e: &Entity<ArchA>| { if !seen { seen = true; out.push(format!("w0 qcid ArchA CompC {}", ecs_component_id!(CompC))); } }); }
        #[cfg(all(not(any())))] out.push(format!("w0 cid ArchA CompD {} {}", <ArchA as ArchetypeHas<CompD>>::COMPONENT_ID, ecs_component_id!(CompD, ArchA)));
        #[cfg(all(not(any())))] { let mut seen = false; ecs_iter!(world, |_c: &CompD, _e: &Entity<ArchA>| { if !seen { seen = true; out.push(format!("w0 qcid ArchA CompD {}", ecs_component_id!(CompD))); } }); }
        out.push(format!("w0 cid ArchA CompE {} {}", <ArchA as ArchetypeHas<CompE>>::COMPONENT_ID, ecs_component_id!(CompE, ArchA)));
        { let mut seen = false; ecs_iter!(world, |_c: &CompE, _e: &Entity<ArchA>| { if !seen { seen = true; out.push(format!("w0 qcid ArchA CompE {}", ecs_component_id!(CompE))); } }); }
        #[cfg(all(any()))] out.push(format!("w0 cid ArchA CompG {} {}", <ArchA as ArchetypeHas<CompG>>::COMPONENT_ID, ecs_component_id!(CompG, ArchA)));
        #[cfg(all(any()))] { let mut seen = false; ecs_iter!(world, |_c: &CompG, _e: &Entity<ArchA>| { if !seen { seen = true; out.push(format!("w0 qcid ArchA CompG {}", ecs_component_id!(CompG))); } }); }
        out.push(format!("w0 hid ArchA {} {}", e_0_0.archetype_id(), e_0_0.into_any().archetype_id()));
        out.push(format!("w0 hid ArchA {} {}", e_0_1.archetype_id(), e_0_1.into_any().archetype_id()));
        out.push(format!("w0 len ArchA {}", world.archetype::<ArchA>().len()));
        #[cfg(vp_1)] #[cfg(not(vp_2))] out.push(format!("w0 id ArchB {}", <ArchB as Archetype>::ARCHETYPE_ID));
        #[cfg(all(vp_1, not(vp_2)))] out.push(format!("w0 cid ArchB CompF {} {}", <ArchB as ArchetypeHas<CompF>>::COMPONENT_ID, ecs_component_id!(CompF, ArchB)));
        #[cfg(all(vp_1, not(vp_2)))] { let mut seen = false; ecs_iter!(world, |_c: &CompF, _e: &Entity<ArchB>| { if !seen { seen = true; out.push(format!("w0 qcid ArchB CompF {}", ecs_component_id!(CompF))); } }); }
        #[cfg(all(vp_1, not(vp_2)))] out.push(format!("w0 cid ArchB CompE {} {}", <ArchB as ArchetypeHas<CompE>>::COMPONENT_ID, ecs_component_id!(CompE, ArchB)));
        #[cfg(all(vp_1, not(vp_2)))] { let mut seen = false; ecs_iter!(world, |_c: &CompE, _e: &Entity<ArchB>| { if !seen { seen = true; out.push(format!("w0 qcid ArchB CompE {}", ecs_component_id!(CompE))); } }); }
        #[cfg(all(vp_1, not(vp_2)))] out.push(format!("w0 cid ArchB CompB {} {}", <ArchB as ArchetypeHas<CompB>>::COMPONENT_ID, ecs_component_id!(CompB, ArchB)));
        #[cfg(all(vp_1, not(vp_2)))] { let mut seen = false; ecs_iter!(world, |_c: &CompB, _e: &Entity<ArchB>| { if !seen { seen = true; out.push(format!("w0 qcid ArchB CompB {}", ecs_component_id!(CompB))); } }); }
        #[cfg(all(vp_1, not(vp_2)))] out.push(format!("w0 cid ArchB CompD {} {}", <ArchB as ArchetypeHas<CompD>>::COMPONENT_ID, ecs_component_id!(CompD, ArchB)));
        #[cfg(all(vp_1, not(vp_2)))] { let mut seen = false; ecs_iter!(world, |_c: &CompD, _e: &Entity<ArchB>| { if !seen { seen = true; out.push(format!("w0 qcid ArchB CompD {}", ecs_component_id!(CompD))); } }); }
        #[cfg(vp_1)] #[cfg(not(vp_2))] out.push(format!("w0 hid ArchB {} {}", e_1_0.archetype_id(), e_1_0.into_any().archetype_id()));
        #[cfg(vp_1)] #[cfg(not(vp_2))] out.push(format!("w0 hid ArchB {} {}", e_1_1.archetype_id(), e_1_1.into_any().archetype_id()));
        #[cfg(vp_1)] #[cfg(not(vp_2))] out.push(format!("w0 len ArchB {}", world.archetype::<ArchB>().len()));
        for id in 0..=255u8 { if let Ok(sel) = SelectArchetype::try_from(id) { out.push(format!("w0 sel {} {}", id, sel.archetype_id())); } }
        { let key = e_0_0; let r = ecs_find!(world, key, || { let mut line = String::new();  out.push(format!("w0 q0 call a0e0 {}", line)); }); out.push(format!("w0 q0 find a0e0 k0 {}", r.is_some())); }
        { let key = e_0_1.into_any(); let r = ecs_find!(world, key, || { let mut line = String::new();  out.push(format!("w0 q0 call a0e1 {}", line)); }); out.push(format!("w0 q0 find a0e1 k1 {}", r.is_some())); }
        #[cfg(vp_1)] #[cfg(not(vp_2))] { let key = e_1_0.into_any(); let r = ecs_find!(world, key, || { let mut line = String::new();  out.push(format!("w0 q0 call a1e0 {}", line)); }); out.push(format!("w0 q0 find a1e0 k1 {}", r.is_some())); }
        #[cfg(vp_1)] #[cfg(not(vp_2))] { let key = world.to_direct(e_1_1).unwrap(); let r = ecs_find!(world, key, || { let mut line = String::new();  out.push(format!("w0 q0 call a1e1 {}", line)); }); out.push(format!("w0 q0 find a1e1 k2 {}", r.is_some())); }
        { let key = e_0_0.into_any(); let r = ecs_find!(world, key, || { let mut line = String::new();  out.push(format!("w0 q1 call a0e0 {}", line)); }); out.push(format!("w0 q1 find a0e0 k1 {}", r.is_some())); }
        { let key = world.to_direct(e_0_1).unwrap(); let r = ecs_find!(world, key, || { let mut line = String::new();  out.push(format!("w0 q1 call a0e1 {}", line)); }); out.push(format!("w0 q1 find a0e1 k2 {}", r.is_some())); }
        #[cfg(vp_1)] #[cfg(not(vp_2))] { let key = world.to_direct(e_1_0).unwrap(); let r = ecs_find!(world, key, || { let mut line = String::new();  out.push(format!("w0 q1 call a1e0 {}", line)); }); out.push(format!("w0 q1 find a1e0 k2 {}", r.is_some())); }
        #[cfg(vp_1)] #[cfg(not(vp_2))] { let key = world.to_direct(e_1_1.into_any()).unwrap(); let r = ecs_find!(world, key, || { let mut line = String::new();  out.push(format!("w0 q1 call a1e1 {}", line)); }); out.push(format!("w0 q1 find a1e1 k3 {}", r.is_some())); }
        { let key = world.to_direct(e_0_0).unwrap(); let r = ecs_find!(world, key, || { let mut line = String::new();  out.push(format!("w0 q2 call a0e0 {}", line)); }); out.push(format!("w0 q2 find a0e0 k2 {}", r.is_some())); }
        { let key = world.to_direct(e_0_1.into_any()).unwrap(); let r = ecs_find!(world, key, || { let mut line = String::new();  out.push(format!("w0 q2 call a0e1 {}", line)); }); out.push(format!("w0 q2 find a0e1 k3 {}", r.is_some())); }
        #[cfg(vp_1)] #[cfg(not(vp_2))] { let key = world.to_direct(e_1_0.into_any()).unwrap(); let r = ecs_find!(world, key, || { let mut line = String::new();  out.push(format!("w0 q2 call a1e0 {}", line)); }); out.push(format!("w0 q2 find a1e0 k3 {}", r.is_some())); }
        #[cfg(vp_1)] #[cfg(not(vp_2))] { let key = e_1_1; let r = ecs_find!(world, key, || { let mut line = String::new();  out.push(format!("w0 q2 call a1e1 {}", line)); }); out.push(format!("w0 q2 find a1e1 k0 {}", r.is_some())); }
        { let key = world.to_direct(e_0_0.into_any()).unwrap(); let r = ecs_find!(world, key, || { let mut line = String::new();  out.push(format!("w0 q3 call a0e0 {}", line)); }); out.push(format!("w0 q3 find a0e0 k3 {}", r.is_some())); }
        { let key = e_0_1; let r = ecs_find!(world, key, || { let mut line = String::new();  out.push(format!("w0 q3 call a0e1 {}", line)); }); out.push(format!("w0 q3 find a0e1 k0 {}", r.is_some())); }
        #[cfg(vp_1)] #[cfg(not(vp_2))] { let key = e_1_0; let r = ecs_find!(world, key, || { let mut line = String::new();  out.push(format!("w0 q3 call a1e0 {}", line)); }); out.push(format!("w0 q3 find a1e0 k0 {}", r.is_some())); }
        #[cfg(vp_1)] #[cfg(not(vp_2))] { let key = e_1_1.into_any(); let r = ecs_find!(world, key, || { let mut line = String::new();  out.push(format!("w0 q3 call a1e1 {}", line)); }); out.push(format!("w0 q3 find a1e1 k1 {}", r.is_some())); }
        let _ = &mut world;
    }
}

fn main() {
    let mut out: Vec<String> = Vec::new();
    w0::run(&mut out);
    for l in out { println!("{}", l.trim_end()); }
}
