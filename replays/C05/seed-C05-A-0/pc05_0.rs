#![forbid(unsafe_code)]
#![allow(warnings)]

pub mod comps {
    #[derive(Clone, Debug)] pub struct CompA(pub u64);
    #[derive(Clone, Debug)] pub struct CompB(pub u64);
    #[derive(Clone, Debug)] pub struct CompC(pub u64);
    #[derive(Clone, Debug)] pub struct CompD(pub u64);
    #[derive(Clone, Debug)] pub struct CompE(pub u64);
    #[derive(Clone, Debug)] pub struct CompF(pub u64);
    #[derive(Clone, Debug)] pub struct CompG(pub u64);
    #[derive(Clone, Debug)] pub struct CompH(pub u64);
    #[derive(Clone, Debug)] pub struct CompI(pub u64);
    #[derive(Clone, Debug)] pub struct CompJ(pub u64);
}
pub mod w0 {
    use gecs::prelude::*;
    use super::comps::*;

    ecs_world! {
    ecs_name!(WorldAa);
        #[archetype_id(35)] ecs_archetype!(ArchA, #[component_id(203)] CompG, CompC);
        ecs_archetype!(ArchB, CompD, #[component_id(1)] CompE, #[component_id(238)] CompG);
        }

    pub fn run(out: &mut Vec<String>) {
        let mut world = WorldAa::new();
        let e_0_0 = world.create::<ArchA>((CompG(10106), CompC(10102),));
        let e_1_0 = world.create::<ArchB>((CompD(20103), CompE(20104), CompG(20106),));
        let e_1_1 = world.create::<ArchB>((CompD(20203), CompE(20204), CompG(20206),));
        { let key = e_0_0; let r = ecs_find_borrow!(world, key, || { let mut line = String::new();  out.push(format!("w0 q0 call a0e0 {}", line)); }); out.push(format!("w0 q0 find a0e0 k0 {}", r.is_some())); }
        { let key = e_1_0.into_any(); let r = ecs_find_borrow!(world, key, || { let mut line = String::new();  out.push(format!("w0 q0 call a1e0 {}", line)); }); out.push(format!("w0 q0 find a1e0 k1 {}", r.is_some())); }
        { let key = world.to_direct(e_1_1).unwrap(); let r = ecs_find_borrow!(world, key, || { let mut line = String::new();  out.push(format!("w0 q0 call a1e1 {}", line)); }); out.push(format!("w0 q0 find a1e1 k2 {}", r.is_some())); }
        { let key = e_0_0.into_any(); let r = ecs_find!(world, key, || { let mut line = String::new();  out.push(format!("w0 q1 call a0e0 {}", line)); }); out.push(format!("w0 q1 find a0e0 k1 {}", r.is_some())); }
        { let key = world.to_direct(e_1_0).unwrap(); let r = ecs_find!(world, key, || { let mut line = String::new();  out.push(format!("w0 q1 call a1e0 {}", line)); }); out.push(format!("w0 q1 find a1e0 k2 {}", r.is_some())); }
        { let key = world.to_direct(e_1_1.into_any()).unwrap(); let r = ecs_find!(world, key, || { let mut line = String::new();  out.push(format!("w0 q1 call a1e1 {}", line)); }); out.push(format!("w0 q1 find a1e1 k3 {}", r.is_some())); }
        ecs_iter!(world, || { let mut line = String::new();  out.push(format!("w0 q2 visit {}", line)); });
        { let key = world.to_direct(e_0_0.into_any()).unwrap(); let r = ecs_find_borrow!(world, key, || { let mut line = String::new();  out.push(format!("w0 q3 call a0e0 {}", line)); }); out.push(format!("w0 q3 find a0e0 k3 {}", r.is_some())); }
        { let key = e_1_0; let r = ecs_find_borrow!(world, key, || { let mut line = String::new();  out.push(format!("w0 q3 call a1e0 {}", line)); }); out.push(format!("w0 q3 find a1e0 k0 {}", r.is_some())); }
        { let key = e_1_1.into_any(); let r = ecs_find_borrow!(world, key, || { let mut line = String::new();  out.push(format!("w0 q3 call a1e1 {}", line)); }); out.push(format!("w0 q3 find a1e1 k1 {}", r.is_some())); }
        ecs_iter_borrow!(world, |p0: &EntityDirect<_>, p1: &EntityAny| { let mut line = String::new(); line.push_str(&format!("id{} ", p0.archetype_id())); line.push_str(&format!("id{} ", p1.archetype_id()));  out.push(format!("w0 q4 visit {}", line)); });
        ecs_iter!(world, || { let mut line = String::new();  out.push(format!("w0 q5 visit {}", line)); });
        ecs_iter_borrow!(world, |p0: &mut CompD, p1: &EntityDirect<_>| { let mut line = String::new(); line.push_str(&format!("c{} ", p0.0)); line.push_str(&format!("id{} ", p1.archetype_id()));  out.push(format!("w0 q6 visit {}", line)); });
        let _ = &mut world;
    }
}

pub mod w1 {
    use gecs::prelude::*;
    use super::comps::*;

    ecs_world! {
    ecs_name!(WorldAb);
        #[archetype_id(28)] ecs_archetype!(ArchA, CompA, CompG, CompE, CompF);
        #[archetype_id(17)] ecs_archetype!(ArchB, #[component_id(231)] CompF, CompD, CompC, CompA);
        #[archetype_id(19)] ecs_archetype!(ArchC, CompG, #[component_id(22)] CompA, CompF, CompE, #[component_id(211)] CompB);
        ecs_archetype!(ArchD, CompD, #[component_id(21)] CompF, CompC, #[component_id(15)] CompE, #[component_id(217)] CompB);
        #[archetype_id(7)] ecs_archetype!(ArchE, #[component_id(7)] CompF, #[component_id(17)] CompD);
        }

    pub fn run(out: &mut Vec<String>) {
        let mut world = WorldAb::new();
        let e_0_0 = world.create::<ArchA>((CompA(10100), CompG(10106), CompE(10104), CompF(10105),));
        let e_1_0 = world.create::<ArchB>((CompF(20105), CompD(20103), CompC(20102), CompA(20100),));
        let e_1_1 = world.create::<ArchB>((CompF(20205), CompD(20203), CompC(20202), CompA(20200),));
        let e_3_0 = world.create::<ArchD>((CompD(40103), CompF(40105), CompC(40102), CompE(40104), CompB(40101),));
        let e_3_1 = world.create::<ArchD>((CompD(40203), CompF(40205), CompC(40202), CompE(40204), CompB(40201),));
        let e_4_0 = world.create::<ArchE>((CompF(50105), CompD(50103),));
        let e_4_1 = world.create::<ArchE>((CompF(50205), CompD(50203),));
        ecs_iter_borrow!(world, |p0: &Entity<_>, p1: &Entity<ArchD>| { let mut line = String::new(); line.push_str(&format!("id{} ", p0.archetype_id())); line.push_str(&format!("id{} ", p1.archetype_id()));  out.push(format!("w1 q0 visit {}", line)); });
        { let key = e_0_0.into_any(); let r = ecs_find!(world, key, || { let mut line = String::new();  out.push(format!("w1 q1 call a0e0 {}", line)); }); out.push(format!("w1 q1 find a0e0 k1 {}", r.is_some())); }
        { let key = world.to_direct(e_1_0).unwrap(); let r = ecs_find!(world, key, || { let mut line = String::new();  out.push(format!("w1 q1 call a1e0 {}", line)); }); out.push(format!("w1 q1 find a1e0 k2 {}", r.is_some())); }
        { let key = world.to_direct(e_1_1.into_any()).unwrap(); let r = ecs_find!(world, key, || { let mut line = String::new();  out.push(format!("w1 q1 call a1e1 {}", line)); }); out.push(format!("w1 q1 find a1e1 k3 {}", r.is_some())); }
        { let key = e_3_0; let r = ecs_find!(world, key, || { let mut line = String::new();  out.push(format!("w1 q1 call a3e0 {}", line)); }); out.push(format!("w1 q1 find a3e0 k0 {}", r.is_some())); }
        { let key = e_3_1.into_any(); let r = ecs_find!(world, key, || { let mut line = String::new();  out.push(format!("w1 q1 call a3e1 {}", line)); }); out.push(format!("w1 q1 find a3e1 k1 {}", r.is_some())); }
        { let key = e_4_0.into_any(); let r = ecs_find!(world, key, || { let mut line = String::new();  out.push(format!("w1 q1 call a4e0 {}", line)); }); out.push(format!("w1 q1 find a4e0 k1 {}", r.is_some())); }
        { let key = world.to_direct(e_4_1).unwrap(); let r = ecs_find!(world, key, || { let mut line = String::new();  out.push(format!("w1 q1 call a4e1 {}", line)); }); out.push(format!("w1 q1 find a4e1 k2 {}", r.is_some())); }
        ecs_iter_destroy!(world, || { let mut line = String::new();  out.push(format!("w1 q2 visit {}", line)); });
        ecs_iter!(world, || { let mut line = String::new();  out.push(format!("w1 q3 visit {}", line)); });
        ecs_iter!(world, |p0: &EntityDirect<_>| { let mut line = String::new(); line.push_str(&format!("id{} ", p0.archetype_id()));  out.push(format!("w1 q4 visit {}", line)); });
        ecs_iter!(world, |p0: &Entity<_>| { let mut line = String::new(); line.push_str(&format!("id{} ", p0.archetype_id()));  out.push(format!("w1 q5 visit {}", line)); });
        ecs_iter!(world, || { let mut line = String::new();  out.push(format!("w1 q6 visit {}", line)); });
        ecs_iter_borrow!(world, |p0: &EntityDirect<_>| { let mut line = String::new(); line.push_str(&format!("id{} ", p0.archetype_id()));  out.push(format!("w1 q7 visit {}", line)); });
        let _ = &mut world;
    }
}

pub mod w2 {
    use gecs::prelude::*;
    use super::comps::*;

    ecs_world! {
    ecs_name!(WorldAc);
        #[archetype_id(20)] ecs_archetype!(ArchA, #[component_id(28)] CompF, CompG, CompE);
        ecs_archetype!(ArchB, CompB, #[component_id(5)] CompA);
        #[archetype_id(0)] ecs_archetype!(ArchC, CompE, CompD, #[component_id(30)] CompG, #[component_id(37)] CompB);
        #[archetype_id(2)] ecs_archetype!(ArchD, #[component_id(208)] CompB, CompF, CompG, #[component_id(221)] CompC, #[component_id(3)] CompD);
        ecs_archetype!(ArchE, CompA);
        }

    pub fn run(out: &mut Vec<String>) {
        let mut world = WorldAc::new();
        let e_0_0 = world.create::<ArchA>((CompF(10105), CompG(10106), CompE(10104),));
        let e_1_0 = world.create::<ArchB>((CompB(20101), CompA(20100),));
        let e_1_1 = world.create::<ArchB>((CompB(20201), CompA(20200),));
        let e_2_0 = world.create::<ArchC>((CompE(30104), CompD(30103), CompG(30106), CompB(30101),));
        let e_3_0 = world.create::<ArchD>((CompB(40101), CompF(40105), CompG(40106), CompC(40102), CompD(40103),));
        let e_4_0 = world.create::<ArchE>((CompA(50100),));
        let e_4_1 = world.create::<ArchE>((CompA(50200),));
        ecs_iter!(world, || { let mut line = String::new();  out.push(format!("w2 q0 visit {}", line)); });
        ecs_iter_destroy!(world, |p0: &CompD, p1: &CompC| { let mut line = String::new(); line.push_str(&format!("c{} ", p0.0)); line.push_str(&format!("c{} ", p1.0));  out.push(format!("w2 q1 visit {}", line)); });
        { let key = world.to_direct(e_0_0).unwrap(); let r = ecs_find!(world, key, || { let mut line = String::new();  out.push(format!("w2 q2 call a0e0 {}", line)); }); out.push(format!("w2 q2 find a0e0 k2 {}", r.is_some())); }
        { let key = world.to_direct(e_1_0.into_any()).unwrap(); let r = ecs_find!(world, key, || { let mut line = String::new();  out.push(format!("w2 q2 call a1e0 {}", line)); }); out.push(format!("w2 q2 find a1e0 k3 {}", r.is_some())); }
        { let key = e_1_1; let r = ecs_find!(world, key, || { let mut line = String::new();  out.push(format!("w2 q2 call a1e1 {}", line)); }); out.push(format!("w2 q2 find a1e1 k0 {}", r.is_some())); }
        { let key = e_2_0; let r = ecs_find!(world, key, || { let mut line = String::new();  out.push(format!("w2 q2 call a2e0 {}", line)); }); out.push(format!("w2 q2 find a2e0 k0 {}", r.is_some())); }
        { let key = e_3_0.into_any(); let r = ecs_find!(world, key, || { let mut line = String::new();  out.push(format!("w2 q2 call a3e0 {}", line)); }); out.push(format!("w2 q2 find a3e0 k1 {}", r.is_some())); }
        { let key = world.to_direct(e_4_0).unwrap(); let r = ecs_find!(world, key, || { let mut line = String::new();  out.push(format!("w2 q2 call a4e0 {}", line)); }); out.push(format!("w2 q2 find a4e0 k2 {}", r.is_some())); }
        { let key = world.to_direct(e_4_1.into_any()).unwrap(); let r = ecs_find!(world, key, || { let mut line = String::new();  out.push(format!("w2 q2 call a4e1 {}", line)); }); out.push(format!("w2 q2 find a4e1 k3 {}", r.is_some())); }
        { let key = world.to_direct(e_0_0.into_any()).unwrap(); let r = ecs_find!(world, key, |p0: &Entity<_>, p1: &mut CompF, p2: &mut OneOf<CompG, CompA>| { let mut line = String::new(); line.push_str(&format!("id{} ", p0.archetype_id())); line.push_str(&format!("c{} ", p1.0)); line.push_str(&format!("c{} ", p2.0));  out.push(format!("w2 q3 call a0e0 {}", line)); }); out.push(format!("w2 q3 find a0e0 k3 {}", r.is_some())); }
        { let key = e_1_0; let r = ecs_find!(world, key, |p0: &Entity<_>, p1: &mut CompF, p2: &mut OneOf<CompG, CompA>| { let mut line = String::new(); line.push_str(&format!("id{} ", p0.archetype_id())); line.push_str(&format!("c{} ", p1.0)); line.push_str(&format!("c{} ", p2.0));  out.push(format!("w2 q3 call a1e0 {}", line)); }); out.push(format!("w2 q3 find a1e0 k0 {}", r.is_some())); }
        { let key = e_1_1.into_any(); let r = ecs_find!(world, key, |p0: &Entity<_>, p1: &mut CompF, p2: &mut OneOf<CompG, CompA>| { let mut line = String::new(); line.push_str(&format!("id{} ", p0.archetype_id())); line.push_str(&format!("c{} ", p1.0)); line.push_str(&format!("c{} ", p2.0));  out.push(format!("w2 q3 call a1e1 {}", line)); }); out.push(format!("w2 q3 find a1e1 k1 {}", r.is_some())); }
        { let key = e_2_0.into_any(); let r = ecs_find!(world, key, |p0: &Entity<_>, p1: &mut CompF, p2: &mut OneOf<CompG, CompA>| { let mut line = String::new(); line.push_str(&format!("id{} ", p0.archetype_id())); line.push_str(&format!("c{} ", p1.0)); line.push_str(&format!("c{} ", p2.0));  out.push(format!("w2 q3 call a2e0 {}", line)); }); out.push(format!("w2 q3 find a2e0 k1 {}", r.is_some())); }
        { let key = world.to_direct(e_3_0).unwrap(); let r = ecs_find!(world, key, |p0: &Entity<_>, p1: &mut CompF, p2: &mut OneOf<CompG, CompA>| { let mut line = String::new(); line.push_str(&format!("id{} ", p0.archetype_id())); line.push_str(&format!("c{} ", p1.0)); line.push_str(&format!("c{} ", p2.0));  out.push(format!("w2 q3 call a3e0 {}", line)); }); out.push(format!("w2 q3 find a3e0 k2 {}", r.is_some())); }
        { let key = world.to_direct(e_4_0.into_any()).unwrap(); let r = ecs_find!(world, key, |p0: &Entity<_>, p1: &mut CompF, p2: &mut OneOf<CompG, CompA>| { let mut line = String::new(); line.push_str(&format!("id{} ", p0.archetype_id())); line.push_str(&format!("c{} ", p1.0)); line.push_str(&format!("c{} ", p2.0));  out.push(format!("w2 q3 call a4e0 {}", line)); }); out.push(format!("w2 q3 find a4e0 k3 {}", r.is_some())); }
        { let key = e_4_1; let r = ecs_find!(world, key, |p0: &Entity<_>, p1: &mut CompF, p2: &mut OneOf<CompG, CompA>| { let mut line = String::new(); line.push_str(&format!("id{} ", p0.archetype_id())); line.push_str(&format!("c{} ", p1.0)); line.push_str(&format!("c{} ", p2.0));  out.push(format!("w2 q3 call a4e1 {}", line)); }); out.push(format!("w2 q3 find a4e1 k0 {}", r.is_some())); }
        { let key = e_0_0; let r = ecs_find_borrow!(world, key, |p0: &EntityDirectAny, p1: &CompG, p2: &CompD, p3: &Entity<ArchD>, p4: &EntityAny| { let mut line = String::new(); line.push_str(&format!("id{} ", p0.archetype_id())); line.push_str(&format!("c{} ", p1.0)); line.push_str(&format!("c{} ", p2.0)); line.push_str(&format!("id{} ", p3.archetype_id())); line.push_str(&format!("id{} ", p4.archetype_id()));  out.push(format!("w2 q4 call a0e0 {}", line)); }); out.push(format!("w2 q4 find a0e0 k0 {}", r.is_some())); }
        { let key = e_1_0.into_any(); let r = ecs_find_borrow!(world, key, |p0: &EntityDirectAny, p1: &CompG, p2: &CompD, p3: &Entity<ArchD>, p4: &EntityAny| { let mut line = String::new(); line.push_str(&format!("id{} ", p0.archetype_id())); line.push_str(&format!("c{} ", p1.0)); line.push_str(&format!("c{} ", p2.0)); line.push_str(&format!("id{} ", p3.archetype_id())); line.push_str(&format!("id{} ", p4.archetype_id()));  out.push(format!("w2 q4 call a1e0 {}", line)); }); out.push(format!("w2 q4 find a1e0 k1 {}", r.is_some())); }
        { let key = world.to_direct(e_1_1).unwrap(); let r = ecs_find_borrow!(world, key, |p0: &EntityDirectAny, p1: &CompG, p2: &CompD, p3: &Entity<ArchD>, p4: &EntityAny| { let mut line = String::new(); line.push_str(&format!("id{} ", p0.archetype_id())); line.push_str(&format!("c{} ", p1.0)); line.push_str(&format!("c{} ", p2.0)); line.push_str(&format!("id{} ", p3.archetype_id())); line.push_str(&format!("id{} ", p4.archetype_id()));  out.push(format!("w2 q4 call a1e1 {}", line)); }); out.push(format!("w2 q4 find a1e1 k2 {}", r.is_some())); }
        { let key = world.to_direct(e_2_0).unwrap(); let r = ecs_find_borrow!(world, key, |p0: &EntityDirectAny, p1: &CompG, p2: &CompD, p3: &Entity<ArchD>, p4: &EntityAny| { let mut line = String::new(); line.push_str(&format!("id{} ", p0.archetype_id())); line.push_str(&format!("c{} ", p1.0)); line.push_str(&format!("c{} ", p2.0)); line.push_str(&format!("id{} ", p3.archetype_id())); line.push_str(&format!("id{} ", p4.archetype_id()));  out.push(format!("w2 q4 call a2e0 {}", line)); }); out.push(format!("w2 q4 find a2e0 k2 {}", r.is_some())); }
        { let key = world.to_direct(e_3_0.into_any()).unwrap(); let r = ecs_find_borrow!(world, key, |p0: &EntityDirectAny, p1: &CompG, p2: &CompD, p3: &Entity<ArchD>, p4: &EntityAny| { let mut line = String::new(); line.push_str(&format!("id{} ", p0.archetype_id())); line.push_str(&format!("c{} ", p1.0)); line.push_str(&format!("c{} ", p2.0)); line.push_str(&format!("id{} ", p3.archetype_id())); line.push_str(&format!("id{} ", p4.archetype_id()));  out.push(format!("w2 q4 call a3e0 {}", line)); }); out.push(format!("w2 q4 find a3e0 k3 {}", r.is_some())); }
        { let key = e_4_0; let r = ecs_find_borrow!(world, key, |p0: &EntityDirectAny, p1: &CompG, p2: &CompD, p3: &Entity<ArchD>, p4: &EntityAny| { let mut line = String::new(); line.push_str(&format!("id{} ", p0.archetype_id())); line.push_str(&format!("c{} ", p1.0)); line.push_str(&format!("c{} ", p2.0)); line.push_str(&format!("id{} ", p3.archetype_id())); line.push_str(&format!("id{} ", p4.archetype_id()));  out.push(format!("w2 q4 call a4e0 {}", line)); }); out.push(format!("w2 q4 find a4e0 k0 {}", r.is_some())); }
        { let key = e_4_1.into_any(); let r = ecs_find_borrow!(world, key, |p0: &EntityDirectAny, p1: &CompG, p2: &CompD, p3: &Entity<ArchD>, p4: &EntityAny| { let mut line = String::new(); line.push_str(&format!("id{} ", p0.archetype_id())); line.push_str(&format!("c{} ", p1.0)); line.push_str(&format!("c{} ", p2.0)); line.push_str(&format!("id{} ", p3.archetype_id())); line.push_str(&format!("id{} ", p4.archetype_id()));  out.push(format!("w2 q4 call a4e1 {}", line)); }); out.push(format!("w2 q4 find a4e1 k1 {}", r.is_some())); }
        ecs_iter!(world, |p0: &EntityAny, p1: &mut CompE, p2: &EntityAny, p3: &CompD| { let mut line = String::new(); line.push_str(&format!("id{} ", p0.archetype_id())); line.push_str(&format!("c{} ", p1.0)); line.push_str(&format!("id{} ", p2.archetype_id())); line.push_str(&format!("c{} ", p3.0));  out.push(format!("w2 q5 visit {}", line)); });
        { let key = world.to_direct(e_0_0).unwrap(); let r = ecs_find!(world, key, |p0: &mut CompC, p1: &EntityAny| { let mut line = String::new(); line.push_str(&format!("c{} ", p0.0)); line.push_str(&format!("id{} ", p1.archetype_id()));  out.push(format!("w2 q6 call a0e0 {}", line)); }); out.push(format!("w2 q6 find a0e0 k2 {}", r.is_some())); }
        { let key = world.to_direct(e_1_0.into_any()).unwrap(); let r = ecs_find!(world, key, |p0: &mut CompC, p1: &EntityAny| { let mut line = String::new(); line.push_str(&format!("c{} ", p0.0)); line.push_str(&format!("id{} ", p1.archetype_id()));  out.push(format!("w2 q6 call a1e0 {}", line)); }); out.push(format!("w2 q6 find a1e0 k3 {}", r.is_some())); }
        { let key = e_1_1; let r = ecs_find!(world, key, |p0: &mut CompC, p1: &EntityAny| { let mut line = String::new(); line.push_str(&format!("c{} ", p0.0)); line.push_str(&format!("id{} ", p1.archetype_id()));  out.push(format!("w2 q6 call a1e1 {}", line)); }); out.push(format!("w2 q6 find a1e1 k0 {}", r.is_some())); }
        { let key = e_2_0; let r = ecs_find!(world, key, |p0: &mut CompC, p1: &EntityAny| { let mut line = String::new(); line.push_str(&format!("c{} ", p0.0)); line.push_str(&format!("id{} ", p1.archetype_id()));  out.push(format!("w2 q6 call a2e0 {}", line)); }); out.push(format!("w2 q6 find a2e0 k0 {}", r.is_some())); }
        { let key = e_3_0.into_any(); let r = ecs_find!(world, key, |p0: &mut CompC, p1: &EntityAny| { let mut line = String::new(); line.push_str(&format!("c{} ", p0.0)); line.push_str(&format!("id{} ", p1.archetype_id()));  out.push(format!("w2 q6 call a3e0 {}", line)); }); out.push(format!("w2 q6 find a3e0 k1 {}", r.is_some())); }
        { let key = world.to_direct(e_4_0).unwrap(); let r = ecs_find!(world, key, |p0: &mut CompC, p1: &EntityAny| { let mut line = String::new(); line.push_str(&format!("c{} ", p0.0)); line.push_str(&format!("id{} ", p1.archetype_id()));  out.push(format!("w2 q6 call a4e0 {}", line)); }); out.push(format!("w2 q6 find a4e0 k2 {}", r.is_some())); }
        { let key = world.to_direct(e_4_1.into_any()).unwrap(); let r = ecs_find!(world, key, |p0: &mut CompC, p1: &EntityAny| { let mut line = String::new(); line.push_str(&format!("c{} ", p0.0)); line.push_str(&format!("id{} ", p1.archetype_id()));  out.push(format!("w2 q6 call a4e1 {}", line)); }); out.push(format!("w2 q6 find a4e1 k3 {}", r.is_some())); }
        ecs_iter_destroy!(world, |p0: &Entity<ArchC>, p1: &OneOf<CompC, CompE>, p2: &CompD, p3: &EntityDirect<_>| { let mut line = String::new(); line.push_str(&format!("id{} ", p0.archetype_id())); line.push_str(&format!("c{} ", p1.0)); line.push_str(&format!("c{} ", p2.0)); line.push_str(&format!("id{} ", p3.archetype_id()));  out.push(format!("w2 q7 visit {}", line)); });
        let _ = &mut world;
    }
}

pub mod w3 {
    use gecs::prelude::*;
    use super::comps::*;

    ecs_world! {
    ecs_name!(WorldAd);
        ecs_archetype!(ArchA, CompE, CompF, CompC, #[component_id(7)] CompG);
        ecs_archetype!(ArchB, CompB, CompD, CompC);
        ecs_archetype!(ArchC, #[component_id(32)] CompB);
        ecs_archetype!(ArchD, CompE, CompF, #[component_id(13)] CompG, #[component_id(14)] CompB);
        ecs_archetype!(ArchE, CompF);
        #[archetype_id(11)] ecs_archetype!(ArchF, CompE, CompC, CompA, CompG, #[component_id(34)] CompB);
        }

    pub fn run(out: &mut Vec<String>) {
        let mut world = WorldAd::new();
        let e_0_0 = world.create::<ArchA>((CompE(10104), CompF(10105), CompC(10102), CompG(10106),));
        let e_0_1 = world.create::<ArchA>((CompE(10204), CompF(10205), CompC(10202), CompG(10206),));
        let e_1_0 = world.create::<ArchB>((CompB(20101), CompD(20103), CompC(20102),));
        let e_1_1 = world.create::<ArchB>((CompB(20201), CompD(20203), CompC(20202),));
        let e_2_0 = world.create::<ArchC>((CompB(30101),));
        let e_3_0 = world.create::<ArchD>((CompE(40104), CompF(40105), CompG(40106), CompB(40101),));
        let e_3_1 = world.create::<ArchD>((CompE(40204), CompF(40205), CompG(40206), CompB(40201),));
        let e_4_0 = world.create::<ArchE>((CompF(50105),));
        let e_4_1 = world.create::<ArchE>((CompF(50205),));
        { let key = e_0_0; let r = ecs_find_borrow!(world, key, |p0: &mut CompG| { let mut line = String::new(); line.push_str(&format!("c{} ", p0.0));  out.push(format!("w3 q0 call a0e0 {}", line)); }); out.push(format!("w3 q0 find a0e0 k0 {}", r.is_some())); }
        { let key = e_0_1.into_any(); let r = ecs_find_borrow!(world, key, |p0: &mut CompG| { let mut line = String::new(); line.push_str(&format!("c{} ", p0.0));  out.push(format!("w3 q0 call a0e1 {}", line)); }); out.push(format!("w3 q0 find a0e1 k1 {}", r.is_some())); }
        { let key = e_1_0.into_any(); let r = ecs_find_borrow!(world, key, |p0: &mut CompG| { let mut line = String::new(); line.push_str(&format!("c{} ", p0.0));  out.push(format!("w3 q0 call a1e0 {}", line)); }); out.push(format!("w3 q0 find a1e0 k1 {}", r.is_some())); }
        { let key = world.to_direct(e_1_1).unwrap(); let r = ecs_find_borrow!(world, key, |p0: &mut CompG| { let mut line = String::new(); line.push_str(&format!("c{} ", p0.0));  out.push(format!("w3 q0 call a1e1 {}", line)); }); out.push(format!("w3 q0 find a1e1 k2 {}", r.is_some())); }
        { let key = world.to_direct(e_2_0).unwrap(); let r = ecs_find_borrow!(world, key, |p0: &mut CompG| { let mut line = String::new(); line.push_str(&format!("c{} ", p0.0));  out.push(format!("w3 q0 call a2e0 {}", line)); }); out.push(format!("w3 q0 find a2e0 k2 {}", r.is_some())); }
        { let key = world.to_direct(e_3_0.into_any()).unwrap(); let r = ecs_find_borrow!(world, key, |p0: &mut CompG| { let mut line = String::new(); line.push_str(&format!("c{} ", p0.0));  out.push(format!("w3 q0 call a3e0 {}", line)); }); out.push(format!("w3 q0 find a3e0 k3 {}", r.is_some())); }
        { let key = e_3_1; let r = ecs_find_borrow!(world, key, |p0: &mut CompG| { let mut line = String::new(); line.push_str(&format!("c{} ", p0.0));  out.push(format!("w3 q0 call a3e1 {}", line)); }); out.push(format!("w3 q0 find a3e1 k0 {}", r.is_some())); }
        { let key = e_4_0; let r = ecs_find_borrow!(world, key, |p0: &mut CompG| { let mut line = String::new(); line.push_str(&format!("c{} ", p0.0));  out.push(format!("w3 q0 call a4e0 {}", line)); }); out.push(format!("w3 q0 find a4e0 k0 {}", r.is_some())); }
        { let key = e_4_1.into_any(); let r = ecs_find_borrow!(world, key, |p0: &mut CompG| { let mut line = String::new(); line.push_str(&format!("c{} ", p0.0));  out.push(format!("w3 q0 call a4e1 {}", line)); }); out.push(format!("w3 q0 find a4e1 k1 {}", r.is_some())); }
        ecs_iter_destroy!(world, |p0: &mut CompA, p1: &EntityAny, p2: &CompG, p3: &EntityAny| { let mut line = String::new(); line.push_str(&format!("c{} ", p0.0)); line.push_str(&format!("id{} ", p1.archetype_id())); line.push_str(&format!("c{} ", p2.0)); line.push_str(&format!("id{} ", p3.archetype_id()));  out.push(format!("w3 q1 visit {}", line)); });
        ecs_iter_borrow!(world, || { let mut line = String::new();  out.push(format!("w3 q2 visit {}", line)); });
        ecs_iter_destroy!(world, |p0: &EntityDirectAny, p1: &OneOf<CompH, CompF>| { let mut line = String::new(); line.push_str(&format!("id{} ", p0.archetype_id())); line.push_str(&format!("c{} ", p1.0));  out.push(format!("w3 q3 visit {}", line)); });
        ecs_iter_destroy!(world, |p0: &EntityAny, p1: &mut CompF, p2: &Entity<ArchE>, p3: &Entity<ArchE>| { let mut line = String::new(); line.push_str(&format!("id{} ", p0.archetype_id())); line.push_str(&format!("c{} ", p1.0)); line.push_str(&format!("id{} ", p2.archetype_id())); line.push_str(&format!("id{} ", p3.archetype_id()));  out.push(format!("w3 q4 visit {}", line)); });
        ecs_iter_destroy!(world, |p0: &Entity<ArchA>| { let mut line = String::new(); line.push_str(&format!("id{} ", p0.archetype_id()));  out.push(format!("w3 q5 visit {}", line)); });
        ecs_iter!(world, |p0: &mut CompB, p1: &Entity<ArchD>| { let mut line = String::new(); line.push_str(&format!("c{} ", p0.0)); line.push_str(&format!("id{} ", p1.archetype_id()));  out.push(format!("w3 q6 visit {}", line)); });
        let _ = &mut world;
    }
}

pub mod w4 {
    use gecs::prelude::*;
    use super::comps::*;

    ecs_world! {
    ecs_name!(WorldAe);
        ecs_archetype!(ArchA, #[component_id(6)] CompE, CompB, CompF, CompG);
        }

    pub fn run(out: &mut Vec<String>) {
        let mut world = WorldAe::new();
        ecs_iter_destroy!(world, || { let mut line = String::new();  out.push(format!("w4 q0 visit {}", line)); });
        ecs_iter_borrow!(world, || { let mut line = String::new();  out.push(format!("w4 q1 visit {}", line)); });
        ecs_iter_borrow!(world, |p0: &Entity<ArchA>, p1: &EntityDirectAny, p2: &EntityDirectAny| { let mut line = String::new(); line.push_str(&format!("id{} ", p0.archetype_id())); line.push_str(&format!("id{} ", p1.archetype_id())); line.push_str(&format!("id{} ", p2.archetype_id()));  out.push(format!("w4 q2 visit {}", line)); });
        ecs_iter_borrow!(world, || { let mut line = String::new();  out.push(format!("w4 q5 visit {}", line)); });
        ecs_iter_destroy!(world, || { let mut line = String::new();  out.push(format!("w4 q7 visit {}", line)); });
        let _ = &mut world;
    }
}

pub mod w5 {
    use gecs::prelude::*;
    use super::comps::*;

    ecs_world! {
    ecs_name!(WorldAf);
        ecs_archetype!(ArchA, CompE, #[component_id(12)] CompC, CompG, CompA);
        #[archetype_id(35)] ecs_archetype!(ArchB, CompA);
        }

    pub fn run(out: &mut Vec<String>) {
        let mut world = WorldAf::new();
        let e_0_0 = world.create::<ArchA>((CompE(10104), CompC(10102), CompG(10106), CompA(10100),));
        let e_0_1 = world.create::<ArchA>((CompE(10204), CompC(10202), CompG(10206), CompA(10200),));
        let e_1_0 = world.create::<ArchB>((CompA(20100),));
        ecs_iter_destroy!(world, |p0: &mut OneOf<CompE, CompF, CompB>, p1: &EntityDirect<_>, p2: &EntityDirect<ArchA>| { let mut line = String::new(); line.push_str(&format!("c{} ", p0.0)); line.push_str(&format!("id{} ", p1.archetype_id())); line.push_str(&format!("id{} ", p2.archetype_id()));  out.push(format!("w5 q0 visit {}", line)); });
        ecs_iter_borrow!(world, || { let mut line = String::new();  out.push(format!("w5 q1 visit {}", line)); });
        { let key = world.to_direct(e_0_0).unwrap(); let r = ecs_find_borrow!(world, key, || { let mut line = String::new();  out.push(format!("w5 q2 call a0e0 {}", line)); }); out.push(format!("w5 q2 find a0e0 k2 {}", r.is_some())); }
        { let key = world.to_direct(e_0_1.into_any()).unwrap(); let r = ecs_find_borrow!(world, key, || { let mut line = String::new();  out.push(format!("w5 q2 call a0e1 {}", line)); }); out.push(format!("w5 q2 find a0e1 k3 {}", r.is_some())); }
        { let key = world.to_direct(e_1_0.into_any()).unwrap(); let r = ecs_find_borrow!(world, key, || { let mut line = String::new();  out.push(format!("w5 q2 call a1e0 {}", line)); }); out.push(format!("w5 q2 find a1e0 k3 {}", r.is_some())); }
        { let key = world.to_direct(e_0_0.into_any()).unwrap(); let r = ecs_find!(world, key, |p0: &EntityAny, p1: &OneOf<CompG, CompB, CompI>, p2: &EntityAny, p3: &mut CompC, p4: &EntityDirect<ArchA>| { let mut line = String::new(); line.push_str(&format!("id{} ", p0.archetype_id())); line.push_str(&format!("c{} ", p1.0)); line.push_str(&format!("id{} ", p2.archetype_id())); line.push_str(&format!("c{} ", p3.0)); line.push_str(&format!("id{} ", p4.archetype_id()));  out.push(format!("w5 q3 call a0e0 {}", line)); }); out.push(format!("w5 q3 find a0e0 k3 {}", r.is_some())); }
        { let key = e_0_1; let r = ecs_find!(world, key, |p0: &EntityAny, p1: &OneOf<CompG, CompB, CompI>, p2: &EntityAny, p3: &mut CompC, p4: &EntityDirect<ArchA>| { let mut line = String::new(); line.push_str(&format!("id{} ", p0.archetype_id())); line.push_str(&format!("c{} ", p1.0)); line.push_str(&format!("id{} ", p2.archetype_id())); line.push_str(&format!("c{} ", p3.0)); line.push_str(&format!("id{} ", p4.archetype_id()));  out.push(format!("w5 q3 call a0e1 {}", line)); }); out.push(format!("w5 q3 find a0e1 k0 {}", r.is_some())); }
        { let key = e_1_0; let r = ecs_find!(world, key, |p0: &EntityAny, p1: &OneOf<CompG, CompB, CompI>, p2: &EntityAny, p3: &mut CompC, p4: &EntityDirect<ArchA>| { let mut line = String::new(); line.push_str(&format!("id{} ", p0.archetype_id())); line.push_str(&format!("c{} ", p1.0)); line.push_str(&format!("id{} ", p2.archetype_id())); line.push_str(&format!("c{} ", p3.0)); line.push_str(&format!("id{} ", p4.archetype_id()));  out.push(format!("w5 q3 call a1e0 {}", line)); }); out.push(format!("w5 q3 find a1e0 k0 {}", r.is_some())); }
        { let key = e_0_0; let r = ecs_find_borrow!(world, key, |p0: &OneOf<CompH, CompD, CompB, CompG>, p1: &Entity<_>| { let mut line = String::new(); line.push_str(&format!("c{} ", p0.0)); line.push_str(&format!("id{} ", p1.archetype_id()));  out.push(format!("w5 q4 call a0e0 {}", line)); }); out.push(format!("w5 q4 find a0e0 k0 {}", r.is_some())); }
        { let key = e_0_1.into_any(); let r = ecs_find_borrow!(world, key, |p0: &OneOf<CompH, CompD, CompB, CompG>, p1: &Entity<_>| { let mut line = String::new(); line.push_str(&format!("c{} ", p0.0)); line.push_str(&format!("id{} ", p1.archetype_id()));  out.push(format!("w5 q4 call a0e1 {}", line)); }); out.push(format!("w5 q4 find a0e1 k1 {}", r.is_some())); }
        { let key = e_1_0.into_any(); let r = ecs_find_borrow!(world, key, |p0: &OneOf<CompH, CompD, CompB, CompG>, p1: &Entity<_>| { let mut line = String::new(); line.push_str(&format!("c{} ", p0.0)); line.push_str(&format!("id{} ", p1.archetype_id()));  out.push(format!("w5 q4 call a1e0 {}", line)); }); out.push(format!("w5 q4 find a1e0 k1 {}", r.is_some())); }
        { let key = e_0_0.into_any(); let r = ecs_find!(world, key, || { let mut line = String::new();  out.push(format!("w5 q5 call a0e0 {}", line)); }); out.push(format!("w5 q5 find a0e0 k1 {}", r.is_some())); }
        { let key = world.to_direct(e_0_1).unwrap(); let r = ecs_find!(world, key, || { let mut line = String::new();  out.push(format!("w5 q5 call a0e1 {}", line)); }); out.push(format!("w5 q5 find a0e1 k2 {}", r.is_some())); }
        { let key = world.to_direct(e_1_0).unwrap(); let r = ecs_find!(world, key, || { let mut line = String::new();  out.push(format!("w5 q5 call a1e0 {}", line)); }); out.push(format!("w5 q5 find a1e0 k2 {}", r.is_some())); }
        ecs_iter_destroy!(world, |p0: &CompC| { let mut line = String::new(); line.push_str(&format!("c{} ", p0.0));  out.push(format!("w5 q6 visit {}", line)); });
        ecs_iter!(world, |p0: &EntityDirect<_>, p1: &Entity<_>, p2: &EntityDirect<_>, p3: &Entity<ArchA>| { let mut line = String::new(); line.push_str(&format!("id{} ", p0.archetype_id())); line.push_str(&format!("id{} ", p1.archetype_id())); line.push_str(&format!("id{} ", p2.archetype_id())); line.push_str(&format!("id{} ", p3.archetype_id()));  out.push(format!("w5 q7 visit {}", line)); });
        let _ = &mut world;
    }
}

pub mod w6 {
    use gecs::prelude::*;
    use super::comps::*;

    ecs_world! {
    ecs_name!(WorldAg);
        ecs_archetype!(ArchA, CompE, #[component_id(7)] CompA, CompD, CompC, CompB);
        ecs_archetype!(ArchB, #[component_id(10)] CompB, CompE, CompC, CompF, #[component_id(4)] CompD);
        #[archetype_id(253)] ecs_archetype!(ArchC, CompA, CompE, CompB, CompD, CompF);
        ecs_archetype!(ArchD, CompD, CompE);
        ecs_archetype!(ArchE, CompA, CompE);
        }

    pub fn run(out: &mut Vec<String>) {
        let mut world = WorldAg::new();
        let e_0_0 = world.create::<ArchA>((CompE(10104), CompA(10100), CompD(10103), CompC(10102), CompB(10101),));
        let e_1_0 = world.create::<ArchB>((CompB(20101), CompE(20104), CompC(20102), CompF(20105), CompD(20103),));
        let e_3_0 = world.create::<ArchD>((CompD(40103), CompE(40104),));
        let e_3_1 = world.create::<ArchD>((CompD(40203), CompE(40204),));
        let e_4_0 = world.create::<ArchE>((CompA(50100), CompE(50104),));
        let e_4_1 = world.create::<ArchE>((CompA(50200), CompE(50204),));
        { let key = e_0_0; let r = ecs_find_borrow!(world, key, |p0: &EntityAny| { let mut line = String::new(); line.push_str(&format!("id{} ", p0.archetype_id()));  out.push(format!("w6 q0 call a0e0 {}", line)); }); out.push(format!("w6 q0 find a0e0 k0 {}", r.is_some())); }
        { let key = e_1_0.into_any(); let r = ecs_find_borrow!(world, key, |p0: &EntityAny| { let mut line = String::new(); line.push_str(&format!("id{} ", p0.archetype_id()));  out.push(format!("w6 q0 call a1e0 {}", line)); }); out.push(format!("w6 q0 find a1e0 k1 {}", r.is_some())); }
        { let key = world.to_direct(e_3_0.into_any()).unwrap(); let r = ecs_find_borrow!(world, key, |p0: &EntityAny| { let mut line = String::new(); line.push_str(&format!("id{} ", p0.archetype_id()));  out.push(format!("w6 q0 call a3e0 {}", line)); }); out.push(format!("w6 q0 find a3e0 k3 {}", r.is_some())); }
        { let key = e_3_1; let r = ecs_find_borrow!(world, key, |p0: &EntityAny| { let mut line = String::new(); line.push_str(&format!("id{} ", p0.archetype_id()));  out.push(format!("w6 q0 call a3e1 {}", line)); }); out.push(format!("w6 q0 find a3e1 k0 {}", r.is_some())); }
        { let key = e_4_0; let r = ecs_find_borrow!(world, key, |p0: &EntityAny| { let mut line = String::new(); line.push_str(&format!("id{} ", p0.archetype_id()));  out.push(format!("w6 q0 call a4e0 {}", line)); }); out.push(format!("w6 q0 find a4e0 k0 {}", r.is_some())); }
        { let key = e_4_1.into_any(); let r = ecs_find_borrow!(world, key, |p0: &EntityAny| { let mut line = String::new(); line.push_str(&format!("id{} ", p0.archetype_id()));  out.push(format!("w6 q0 call a4e1 {}", line)); }); out.push(format!("w6 q0 find a4e1 k1 {}", r.is_some())); }
        ecs_iter!(world, |p0: &EntityDirect<ArchD>| { let mut line = String::new(); line.push_str(&format!("id{} ", p0.archetype_id()));  out.push(format!("w6 q1 visit {}", line)); });
        ecs_iter!(world, || { let mut line = String::new();  out.push(format!("w6 q2 visit {}", line)); });
        { let key = world.to_direct(e_0_0.into_any()).unwrap(); let r = ecs_find!(world, key, |p0: &Entity<ArchD>| { let mut line = String::new(); line.push_str(&format!("id{} ", p0.archetype_id()));  out.push(format!("w6 q3 call a0e0 {}", line)); }); out.push(format!("w6 q3 find a0e0 k3 {}", r.is_some())); }
        { let key = e_1_0; let r = ecs_find!(world, key, |p0: &Entity<ArchD>| { let mut line = String::new(); line.push_str(&format!("id{} ", p0.archetype_id()));  out.push(format!("w6 q3 call a1e0 {}", line)); }); out.push(format!("w6 q3 find a1e0 k0 {}", r.is_some())); }
        { let key = world.to_direct(e_3_0).unwrap(); let r = ecs_find!(world, key, |p0: &Entity<ArchD>| { let mut line = String::new(); line.push_str(&format!("id{} ", p0.archetype_id()));  out.push(format!("w6 q3 call a3e0 {}", line)); }); out.push(format!("w6 q3 find a3e0 k2 {}", r.is_some())); }
        { let key = world.to_direct(e_3_1.into_any()).unwrap(); let r = ecs_find!(world, key, |p0: &Entity<ArchD>| { let mut line = String::new(); line.push_str(&format!("id{} ", p0.archetype_id()));  out.push(format!("w6 q3 call a3e1 {}", line)); }); out.push(format!("w6 q3 find a3e1 k3 {}", r.is_some())); }
        { let key = world.to_direct(e_4_0.into_any()).unwrap(); let r = ecs_find!(world, key, |p0: &Entity<ArchD>| { let mut line = String::new(); line.push_str(&format!("id{} ", p0.archetype_id()));  out.push(format!("w6 q3 call a4e0 {}", line)); }); out.push(format!("w6 q3 find a4e0 k3 {}", r.is_some())); }
        { let key = e_4_1; let r = ecs_find!(world, key, |p0: &Entity<ArchD>| { let mut line = String::new(); line.push_str(&format!("id{} ", p0.archetype_id()));  out.push(format!("w6 q3 call a4e1 {}", line)); }); out.push(format!("w6 q3 find a4e1 k0 {}", r.is_some())); }
        { let key = e_0_0; let r = ecs_find_borrow!(world, key, |p0: &OneOf<CompG, CompJ, CompE>, p1: &EntityDirectAny, p2: &mut CompF| { let mut line = String::new(); line.push_str(&format!("c{} ", p0.0)); line.push_str(&format!("id{} ", p1.archetype_id())); line.push_str(&format!("c{} ", p2.0));  out.push(format!("w6 q4 call a0e0 {}", line)); }); out.push(format!("w6 q4 find a0e0 k0 {}", r.is_some())); }
        { let key = e_1_0.into_any(); let r = ecs_find_borrow!(world, key, |p0: &OneOf<CompG, CompJ, CompE>, p1: &EntityDirectAny, p2: &mut CompF| { let mut line = String::new(); line.push_str(&format!("c{} ", p0.0)); line.push_str(&format!("id{} ", p1.archetype_id())); line.push_str(&format!("c{} ", p2.0));  out.push(format!("w6 q4 call a1e0 {}", line)); }); out.push(format!("w6 q4 find a1e0 k1 {}", r.is_some())); }
        { let key = world.to_direct(e_3_0.into_any()).unwrap(); let r = ecs_find_borrow!(world, key, |p0: &OneOf<CompG, CompJ, CompE>, p1: &EntityDirectAny, p2: &mut CompF| { let mut line = String::new(); line.push_str(&format!("c{} ", p0.0)); line.push_str(&format!("id{} ", p1.archetype_id())); line.push_str(&format!("c{} ", p2.0));  out.push(format!("w6 q4 call a3e0 {}", line)); }); out.push(format!("w6 q4 find a3e0 k3 {}", r.is_some())); }
        { let key = e_3_1; let r = ecs_find_borrow!(world, key, |p0: &OneOf<CompG, CompJ, CompE>, p1: &EntityDirectAny, p2: &mut CompF| { let mut line = String::new(); line.push_str(&format!("c{} ", p0.0)); line.push_str(&format!("id{} ", p1.archetype_id())); line.push_str(&format!("c{} ", p2.0));  out.push(format!("w6 q4 call a3e1 {}", line)); }); out.push(format!("w6 q4 find a3e1 k0 {}", r.is_some())); }
        { let key = e_4_0; let r = ecs_find_borrow!(world, key, |p0: &OneOf<CompG, CompJ, CompE>, p1: &EntityDirectAny, p2: &mut CompF| { let mut line = String::new(); line.push_str(&format!("c{} ", p0.0)); line.push_str(&format!("id{} ", p1.archetype_id())); line.push_str(&format!("c{} ", p2.0));  out.push(format!("w6 q4 call a4e0 {}", line)); }); out.push(format!("w6 q4 find a4e0 k0 {}", r.is_some())); }
        { let key = e_4_1.into_any(); let r = ecs_find_borrow!(world, key, |p0: &OneOf<CompG, CompJ, CompE>, p1: &EntityDirectAny, p2: &mut CompF| { let mut line = String::new(); line.push_str(&format!("c{} ", p0.0)); line.push_str(&format!("id{} ", p1.archetype_id())); line.push_str(&format!("c{} ", p2.0));  out.push(format!("w6 q4 call a4e1 {}", line)); }); out.push(format!("w6 q4 find a4e1 k1 {}", r.is_some())); }
        { let key = e_0_0.into_any(); let r = ecs_find!(world, key, |p0: &EntityDirectAny| { let mut line = String::new(); line.push_str(&format!("id{} ", p0.archetype_id()));  out.push(format!("w6 q5 call a0e0 {}", line)); }); out.push(format!("w6 q5 find a0e0 k1 {}", r.is_some())); }
        { let key = world.to_direct(e_1_0).unwrap(); let r = ecs_find!(world, key, |p0: &EntityDirectAny| { let mut line = String::new(); line.push_str(&format!("id{} ", p0.archetype_id()));  out.push(format!("w6 q5 call a1e0 {}", line)); }); out.push(format!("w6 q5 find a1e0 k2 {}", r.is_some())); }
        { let key = e_3_0; let r = ecs_find!(world, key, |p0: &EntityDirectAny| { let mut line = String::new(); line.push_str(&format!("id{} ", p0.archetype_id()));  out.push(format!("w6 q5 call a3e0 {}", line)); }); out.push(format!("w6 q5 find a3e0 k0 {}", r.is_some())); }
        { let key = e_3_1.into_any(); let r = ecs_find!(world, key, |p0: &EntityDirectAny| { let mut line = String::new(); line.push_str(&format!("id{} ", p0.archetype_id()));  out.push(format!("w6 q5 call a3e1 {}", line)); }); out.push(format!("w6 q5 find a3e1 k1 {}", r.is_some())); }
        { let key = e_4_0.into_any(); let r = ecs_find!(world, key, |p0: &EntityDirectAny| { let mut line = String::new(); line.push_str(&format!("id{} ", p0.archetype_id()));  out.push(format!("w6 q5 call a4e0 {}", line)); }); out.push(format!("w6 q5 find a4e0 k1 {}", r.is_some())); }
        { let key = world.to_direct(e_4_1).unwrap(); let r = ecs_find!(world, key, |p0: &EntityDirectAny| { let mut line = String::new(); line.push_str(&format!("id{} ", p0.archetype_id()));  out.push(format!("w6 q5 call a4e1 {}", line)); }); out.push(format!("w6 q5 find a4e1 k2 {}", r.is_some())); }
        ecs_iter!(world, |p0: &EntityDirect<ArchE>| { let mut line = String::new(); line.push_str(&format!("id{} ", p0.archetype_id()));  out.push(format!("w6 q6 visit {}", line)); });
        { let key = world.to_direct(e_0_0.into_any()).unwrap(); let r = ecs_find_borrow!(world, key, || { let mut line = String::new();  out.push(format!("w6 q7 call a0e0 {}", line)); }); out.push(format!("w6 q7 find a0e0 k3 {}", r.is_some())); }
        { let key = e_1_0; let r = ecs_find_borrow!(world, key, || { let mut line = String::new();  out.push(format!("w6 q7 call a1e0 {}", line)); }); out.push(format!("w6 q7 find a1e0 k0 {}", r.is_some())); }
        { let key = world.to_direct(e_3_0).unwrap(); let r = ecs_find_borrow!(world, key, || { let mut line = String::new();  out.push(format!("w6 q7 call a3e0 {}", line)); }); out.push(format!("w6 q7 find a3e0 k2 {}", r.is_some())); }
        { let key = world.to_direct(e_3_1.into_any()).unwrap(); let r = ecs_find_borrow!(world, key, || { let mut line = String::new();  out.push(format!("w6 q7 call a3e1 {}", line)); }); out.push(format!("w6 q7 find a3e1 k3 {}", r.is_some())); }
        { let key = world.to_direct(e_4_0.into_any()).unwrap(); let r = ecs_find_borrow!(world, key, || { let mut line = String::new();  out.push(format!("w6 q7 call a4e0 {}", line)); }); out.push(format!("w6 q7 find a4e0 k3 {}", r.is_some())); }
        { let key = e_4_1; let r = ecs_find_borrow!(world, key, || { let mut line = String::new();  out.push(format!("w6 q7 call a4e1 {}", line)); }); out.push(format!("w6 q7 find a4e1 k0 {}", r.is_some())); }
        let _ = &mut world;
    }
}

pub mod w7 {
    use gecs::prelude::*;
    use super::comps::*;

    ecs_world! {
    ecs_name!(WorldAh);
        #[archetype_id(1)] ecs_archetype!(ArchA, CompG, CompF, CompD, CompE);
        }

    pub fn run(out: &mut Vec<String>) {
        let mut world = WorldAh::new();
        let e_0_0 = world.create::<ArchA>((CompG(10106), CompF(10105), CompD(10103), CompE(10104),));
        let e_0_1 = world.create::<ArchA>((CompG(10206), CompF(10205), CompD(10203), CompE(10204),));
        ecs_iter!(world, |p0: &CompE, p1: &EntityDirect<ArchA>, p2: &EntityDirectAny| { let mut line = String::new(); line.push_str(&format!("c{} ", p0.0)); line.push_str(&format!("id{} ", p1.archetype_id())); line.push_str(&format!("id{} ", p2.archetype_id()));  out.push(format!("w7 q0 visit {}", line)); });
        ecs_iter_borrow!(world, |p0: &Entity<_>, p1: &EntityDirectAny, p2: &Entity<_>, p3: &EntityDirect<_>| { let mut line = String::new(); line.push_str(&format!("id{} ", p0.archetype_id())); line.push_str(&format!("id{} ", p1.archetype_id())); line.push_str(&format!("id{} ", p2.archetype_id())); line.push_str(&format!("id{} ", p3.archetype_id()));  out.push(format!("w7 q1 visit {}", line)); });
        { let key = world.to_direct(e_0_0).unwrap(); let r = ecs_find_borrow!(world, key, || { let mut line = String::new();  out.push(format!("w7 q2 call a0e0 {}", line)); }); out.push(format!("w7 q2 find a0e0 k2 {}", r.is_some())); }
        { let key = world.to_direct(e_0_1.into_any()).unwrap(); let r = ecs_find_borrow!(world, key, || { let mut line = String::new();  out.push(format!("w7 q2 call a0e1 {}", line)); }); out.push(format!("w7 q2 find a0e1 k3 {}", r.is_some())); }
        ecs_iter!(world, || { let mut line = String::new();  out.push(format!("w7 q3 visit {}", line)); });
        ecs_iter!(world, |p0: &EntityDirect<ArchA>| { let mut line = String::new(); line.push_str(&format!("id{} ", p0.archetype_id()));  out.push(format!("w7 q4 visit {}", line)); });
        ecs_iter_borrow!(world, || { let mut line = String::new();  out.push(format!("w7 q5 visit {}", line)); });
        ecs_iter_borrow!(world, |p0: &Entity<_>| { let mut line = String::new(); line.push_str(&format!("id{} ", p0.archetype_id()));  out.push(format!("w7 q6 visit {}", line)); });
        ecs_iter_destroy!(world, |p0: &EntityDirectAny, p1: &EntityDirectAny, p2: &EntityDirect<ArchA>| { let mut line = String::new(); line.push_str(&format!("id{} ", p0.archetype_id())); line.push_str(&format!("id{} ", p1.archetype_id())); line.push_str(&format!("id{} ", p2.archetype_id()));  out.push(format!("w7 q7 visit {}", line)); });
        let _ = &mut world;
    }
}

fn main() {
    let mut out: Vec<String> = Vec::new();
    w0::run(&mut out);
    w1::run(&mut out);
    w2::run(&mut out);
    w3::run(&mut out);
    w4::run(&mut out);
    w5::run(&mut out);
    w6::run(&mut out);
    w7::run(&mut out);
    for l in out { println!("{}", l.trim_end()); }
}
