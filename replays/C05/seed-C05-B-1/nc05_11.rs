#![forbid(unsafe_code)]
#![allow(warnings)]

pub mod comps {
    #[derive(Clone, Debug)] pub struct CompA(pub u64);
    #[derive(Clone, Debug)] pub struct CompB(pub u64);
    #[derive(Clone, Debug)] pub struct CompC(pub u64);
    #[derive(Clone, Debug)] pub struct CompD(pub u64);
    #[derive(Clone, Debug)] pub struct CompE(pub u64);
    #[derive(Clone, Debug)] pub struct CompF(pub u64);
    #[derive(Clone, Debug)] pub struct CompG(pub u64);
    #[derive(Clone, Debug)] pub struct CompH(pub u64);
    #[derive(Clone, Debug)] pub struct CompI(pub u64);
    #[derive(Clone, Debug)] pub struct CompJ(pub u64);
}
pub mod w0 {
    use gecs::prelude::*;
    use super::comps::*;

    ecs_world! {
    ecs_name!(WorldLa);
        ecs_archetype!(ArchA, CompE, CompC, CompB);
        #[archetype_id(3)] ecs_archetype!(ArchB, #[component_id(33)] CompG, CompA, CompD, #[component_id(24)] CompE, CompB);
        ecs_archetype!(ArchC, #[component_id(18)] CompD, CompB, CompE, CompF, CompC);
        ecs_archetype!(ArchD, #[component_id(38)] CompB, #[component_id(15)] CompD, CompA, CompE, CompG);
        ecs_archetype!(ArchE, #[component_id(20)] CompG, #[component_id(0)] CompD);
        }

    pub fn run(out: &mut Vec<String>) {
        let mut world = WorldLa::new();
        let e_0_0 = world.create::<ArchA>((CompE(10104), CompC(10102), CompB(10101),));
        let e_1_0 = world.create::<ArchB>((CompG(20106), CompA(20100), CompD(20103), CompE(20104), CompB(20101),));
        let e_2_0 = world.create::<ArchC>((CompD(30103), CompB(30101), CompE(30104), CompF(30105), CompC(30102),));
        let e_3_0 = world.create::<ArchD>((CompB(40101), CompD(40103), CompA(40100), CompE(40104), CompG(40106),));
        let e_4_0 = world.create::<ArchE>((CompG(50106), CompD(50103),));
        { let key = e_0_0; let r = ecs_find_borrow!(world, key, |p0: &EntityDirectAny, p1: &EntityAny, p2: &CompC, p3: &mut CompC, p4: &mut OneOf<CompD, CompB, CompD>| { let mut line = String::new(); line.push_str(&format!("id{} ", p0.archetype_id())); line.push_str(&format!("id{} ", p1.archetype_id())); line.push_str(&format!("c{} ", p2.0)); line.push_str(&format!("c{} ", p3.0)); line.push_str(&format!("c{} ", p4.0));  out.push(format!("w0 q0 call a0e0 {}", line)); }); out.push(format!("w0 q0 find a0e0 k0 {}", r.is_some())); }
        { let key = e_1_0.into_any(); let r = ecs_find_borrow!(world, key, |p0: &EntityDirectAny, p1: &EntityAny, p2: &CompC, p3: &mut CompC, p4: &mut OneOf<CompD, CompB, CompD>| { let mut line = String::new(); line.push_str(&format!("id{} ", p0.archetype_id())); line.push_str(&format!("id{} ", p1.archetype_id())); line.push_str(&format!("c{} ", p2.0)); line.push_str(&format!("c{} ", p3.0)); line.push_str(&format!("c{} ", p4.0));  out.push(format!("w0 q0 call a1e0 {}", line)); }); out.push(format!("w0 q0 find a1e0 k1 {}", r.is_some())); }
        { let key = world.to_direct(e_2_0).unwrap(); let r = ecs_find_borrow!(world, key, |p0: &EntityDirectAny, p1: &EntityAny, p2: &CompC, p3: &mut CompC, p4: &mut OneOf<CompD, CompB, CompD>| { let mut line = String::new(); line.push_str(&format!("id{} ", p0.archetype_id())); line.push_str(&format!("id{} ", p1.archetype_id())); line.push_str(&format!("c{} ", p2.0)); line.push_str(&format!("c{} ", p3.0)); line.push_str(&format!("c{} ", p4.0));  out.push(format!("w0 q0 call a2e0 {}", line)); }); out.push(format!("w0 q0 find a2e0 k2 {}", r.is_some())); }
        { let key = world.to_direct(e_3_0.into_any()).unwrap(); let r = ecs_find_borrow!(world, key, |p0: &EntityDirectAny, p1: &EntityAny, p2: &CompC, p3: &mut CompC, p4: &mut OneOf<CompD, CompB, CompD>| { let mut line = String::new(); line.push_str(&format!("id{} ", p0.archetype_id())); line.push_str(&format!("id{} ", p1.archetype_id())); line.push_str(&format!("c{} ", p2.0)); line.push_str(&format!("c{} ", p3.0)); line.push_str(&format!("c{} ", p4.0));  out.push(format!("w0 q0 call a3e0 {}", line)); }); out.push(format!("w0 q0 find a3e0 k3 {}", r.is_some())); }
        { let key = e_4_0; let r = ecs_find_borrow!(world, key, |p0: &EntityDirectAny, p1: &EntityAny, p2: &CompC, p3: &mut CompC, p4: &mut OneOf<CompD, CompB, CompD>| { let mut line = String::new(); line.push_str(&format!("id{} ", p0.archetype_id())); line.push_str(&format!("id{} ", p1.archetype_id())); line.push_str(&format!("c{} ", p2.0)); line.push_str(&format!("c{} ", p3.0)); line.push_str(&format!("c{} ", p4.0));  out.push(format!("w0 q0 call a4e0 {}", line)); }); out.push(format!("w0 q0 find a4e0 k0 {}", r.is_some())); }
        let _ = &mut world;
    }
}

fn main() {
    let mut out: Vec<String> = Vec::new();
    w0::run(&mut out);
    for l in out { println!("{}", l.trim_end()); }
}
