#![forbid(unsafe_code)]
#![allow(warnings)]

pub mod comps {
    #[derive(Clone, Debug)] pub struct CompA(pub u64);
    #[derive(Clone, Debug)] pub struct CompB(pub u64);
    #[derive(Clone, Debug)] pub struct CompC(pub u64);
    #[derive(Clone, Debug)] pub struct CompD(pub u64);
    #[derive(Clone, Debug)] pub struct CompE(pub u64);
    #[derive(Clone, Debug)] pub struct CompF(pub u64);
    #[derive(Clone, Debug)] pub struct CompG(pub u64);
    #[derive(Clone, Debug)] pub struct CompH(pub u64);
    #[derive(Clone, Debug)] pub struct CompI(pub u64);
    #[derive(Clone, Debug)] pub struct CompJ(pub u64);
}
pub mod w0 {
    use gecs::prelude::*;
    use super::comps::*;

    ecs_world! {
    ecs_name!(WorldGa);
        #[archetype_id(224)] ecs_archetype!(ArchA, #[component_id(242)] CompF, #[component_id(9)] CompG);
        ecs_archetype!(ArchB, CompE, CompC, #[component_id(29)] CompF, #[component_id(9)] CompA);
        }

    pub fn run(out: &mut Vec<String>) {
        let mut world = WorldGa::new();
        let e_0_0 = world.create::<ArchA>((CompF(10105), CompG(10106),));
        let e_1_0 = world.create::<ArchB>((CompE(20104), CompC(20102), CompF(20105), CompA(20100),));
        ecs_iter!(world, |p0: &EntityAny, p1: &OneOf<CompB, CompD, CompA, CompD>, p2: &Entity<ArchA>, p3: &EntityDirect<_>, p4: &OneOf<CompA, CompH, CompG>| { let mut line = String::new(); line.push_str(&format!("id{} ", p0.archetype_id())); line.push_str(&format!("c{} ", p1.0)); line.push_str(&format!("id{} ", p2.archetype_id())); line.push_str(&format!("id{} ", p3.archetype_id())); line.push_str(&format!("c{} ", p4.0));  out.push(format!("w0 q0 visit {}", line)); });
        let _ = &mut world;
    }
}

fn main() {
    let mut out: Vec<String> = Vec::new();
    w0::run(&mut out);
    for l in out { println!("{}", l.trim_end()); }
}
