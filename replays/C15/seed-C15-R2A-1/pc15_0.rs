#![forbid(unsafe_code)]
#![allow(warnings)]

pub mod comps {
    #[derive(Clone, Debug)] pub struct CompA(pub u64);
    #[derive(Clone, Debug)] pub struct CompB(pub u64);
    #[derive(Clone, Debug)] pub struct CompC(pub u64);
    #[derive(Clone, Debug)] pub struct CompD(pub u64);
    #[derive(Clone, Debug)] pub struct CompE(pub u64);
    #[derive(Clone, Debug)] pub struct CompF(pub u64);
    #[derive(Clone, Debug)] pub struct CompG(pub u64);
    #[derive(Clone, Debug)] pub struct CompH(pub u64);
    #[derive(Clone, Debug)] pub struct CompI(pub u64);
    #[derive(Clone, Debug)] pub struct CompJ(pub u64);
}
pub mod w0 {
    use gecs::prelude::*;
    use super::comps::*;

    ecs_world! {
    ecs_name!(WorldAa);
        #[cfg(any(any(), not(all())))] ecs_archetype!(ArchA, #[component_id(14)] CompG, CompB, #[cfg(all(all(), not(any())))] #[cfg(not(any()))] CompE, #[cfg(any(any(), not(all())))] #[cfg(any(any(), not(all())))] #[component_id(7)] CompF, #[component_id(30)] CompH);
        ecs_archetype!(ArchB, #[component_id(37)] CompJ, CompG, CompD, CompC);
        #[archetype_id(23)] ecs_archetype!(ArchC, CompC, #[cfg(all(all(), not(any())))] CompH, #[cfg(all())] CompB, CompE);
        #[cfg(all(all(), not(any())))] ecs_archetype!(ArchD, CompA, #[cfg(all())] CompD, CompH, CompB, CompJ, CompE, CompF);
        }

    pub fn run(out: &mut Vec<String>) {
        let mut world = WorldAa::new();
        #[cfg(any(any(), not(all())))] let e_0_0 = world.create::<ArchA>((CompG(10106), CompB(10101), #[cfg(all(all(), not(any())))] #[cfg(not(any()))] CompE(10104), #[cfg(any(any(), not(all())))] #[cfg(any(any(), not(all())))] CompF(10105), CompH(10107),));
        #[cfg(any(any(), not(all())))] let e_0_1 = world.create::<ArchA>((CompG(10206), CompB(10201), #[cfg(all(all(), not(any())))] #[cfg(not(any()))] CompE(10204), #[cfg(any(any(), not(all())))] #[cfg(any(any(), not(all())))] CompF(10205), CompH(10207),));
        #[cfg(all(all(), not(any())))] let e_3_0 = world.create::<ArchD>((CompA(40100), #[cfg(all())] CompD(40103), CompH(40107), CompB(40101), CompJ(40109), CompE(40104), CompF(40105),));
        #[cfg(all(all(), not(any())))] let e_3_1 = world.create::<ArchD>((CompA(40200), #[cfg(all())] CompD(40203), CompH(40207), CompB(40201), CompJ(40209), CompE(40204), CompF(40205),));
        #[cfg(any(any(), not(all())))] out.push(format!("w0 id ArchA {}", <ArchA as Archetype>::ARCHETYPE_ID));
        #[cfg(all(any(any(), not(all()))))] out.push(format!("w0 cid ArchA CompG {} {}", <ArchA as ArchetypeHas<CompG>>::COMPONENT_ID, ecs_component_id!(CompG, ArchA)));
        #[cfg(all(any(any(), not(all()))))] { let mut seen = false; ecs_iter!(world, |_c: &CompG, _e: &Entity<ArchA>| { if !seen { seen = true; out.push(format!("w0 qcid ArchA CompG {}", ecs_component_id!(CompG))); } }); }
        #[cfg(all(any(any(), not(all()))))] out.push(format!("w0 cid ArchA CompB {} {}", <ArchA as ArchetypeHas<CompB>>::COMPONENT_ID, ecs_component_id!(CompB, ArchA)));
        #[cfg(all(any(any(), not(all()))))] { let mut seen = false; ecs_iter!(world, |_c: &CompB, _e: &Entity<ArchA>| { if !seen { seen = true; out.push(format!("w0 qcid ArchA CompB {}", ecs_component_id!(CompB))); } }); }
        #[cfg(all(any(any(), not(all())), all(all(), not(any())), not(any())))] out.push(format!("w0 cid ArchA CompE {} {}", <ArchA as ArchetypeHas<CompE>>::COMPONENT_ID, ecs_component_id!(CompE, ArchA)));
        #[cfg(all(any(any(), not(all())), all(all(), not(any())), not(any())))] { let mut seen = false; ecs_iter!(world, |_c: &CompE, _e: &Entity<ArchA>| { if !seen { seen = true; out.push(format!("w0 qcid ArchA CompE {}", ecs_component_id!(CompE))); } }); }
        #[cfg(all(any(any(), not(all())), any(any(), not(all())), any(any(), not(all()))))] out.push(format!("w0 cid ArchA CompF {} {}", <ArchA as ArchetypeHas<CompF>>::COMPONENT_ID, ecs_component_id!(CompF, ArchA)));
        #[cfg(all(any(any(), not(all())), any(any(), not(all())), any(any(), not(all()))))] { let mut seen = false; ecs_iter!(world, |_c: &CompF, _e: &Entity<ArchA>| { if !seen { seen = true; out.push(format!("w0 qcid ArchA CompF {}", ecs_component_id!(CompF))); } }); }
        #[cfg(all(any(any(), not(all()))))] out.push(format!("w0 cid ArchA CompH {} {}", <ArchA as ArchetypeHas<CompH>>::COMPONENT_ID, ecs_component_id!(CompH, ArchA)));
        #[cfg(all(any(any(), not(all()))))] { let mut seen = false; ecs_iter!(world, |_c: &CompH, _e: &Entity<ArchA>| { if !seen { seen = true; out.push(format!("w0 qcid ArchA CompH {}", ecs_component_id!(CompH))); } }); }
        #[cfg(any(any(), not(all())))] out.push(format!("w0 hid ArchA {} {}", e_0_0.archetype_id(), e_0_0.into_any().archetype_id()));
        #[cfg(any(any(), not(all())))] out.push(format!("w0 hid ArchA {} {}", e_0_1.archetype_id(), e_0_1.into_any().archetype_id()));
        #[cfg(any(any(), not(all())))] out.push(format!("w0 len ArchA {}", world.archetype::<ArchA>().len()));
        out.push(format!("w0 id ArchB {}", <ArchB as Archetype>::ARCHETYPE_ID));
        out.push(format!("w0 cid ArchB CompJ {} {}", <ArchB as ArchetypeHas<CompJ>>::COMPONENT_ID, ecs_component_id!(CompJ, ArchB)));
        out.push(format!("w0 cid ArchB CompG {} {}", <ArchB as ArchetypeHas<CompG>>::COMPONENT_ID, ecs_component_id!(CompG, ArchB)));
        out.push(format!("w0 cid ArchB CompD {} {}", <ArchB as ArchetypeHas<CompD>>::COMPONENT_ID, ecs_component_id!(CompD, ArchB)));
        out.push(format!("w0 cid ArchB CompC {} {}", <ArchB as ArchetypeHas<CompC>>::COMPONENT_ID, ecs_component_id!(CompC, ArchB)));
        out.push(format!("w0 len ArchB {}", world.archetype::<ArchB>().len()));
        out.push(format!("w0 id ArchC {}", <ArchC as Archetype>::ARCHETYPE_ID));
        out.push(format!("w0 cid ArchC CompC {} {}", <ArchC as ArchetypeHas<CompC>>::COMPONENT_ID, ecs_component_id!(CompC, ArchC)));
        #[cfg(all(all(all(), not(any()))))] out.push(format!("w0 cid ArchC CompH {} {}", <ArchC as ArchetypeHas<CompH>>::COMPONENT_ID, ecs_component_id!(CompH, ArchC)));
        #[cfg(all(all()))] out.push(format!("w0 cid ArchC CompB {} {}", <ArchC as ArchetypeHas<CompB>>::COMPONENT_ID, ecs_component_id!(CompB, ArchC)));
        out.push(format!("w0 cid ArchC CompE {} {}", <ArchC as ArchetypeHas<CompE>>::COMPONENT_ID, ecs_component_id!(CompE, ArchC)));
        out.push(format!("w0 len ArchC {}", world.archetype::<ArchC>().len()));
        #[cfg(all(all(), not(any())))] out.push(format!("w0 id ArchD {}", <ArchD as Archetype>::ARCHETYPE_ID));
        #[cfg(all(all(all(), not(any()))))] out.push(format!("w0 cid ArchD CompA {} {}", <ArchD as ArchetypeHas<CompA>>::COMPONENT_ID, ecs_component_id!(CompA, ArchD)));
        #[cfg(all(all(all(), not(any()))))] { let mut seen = false; ecs_iter!(world, |_c: &CompA, _e: &Entity<ArchD>| { if !seen { seen = true; out.push(format!("w0 qcid ArchD CompA {}", ecs_component_id!(CompA))); } }); }
        #[cfg(all(all(all(), not(any())), all()))] out.push(format!("w0 cid ArchD CompD {} {}", <ArchD as ArchetypeHas<CompD>>::COMPONENT_ID, ecs_component_id!(CompD, ArchD)));
        #[cfg(all(all(all(), not(any())), all()))] { let mut seen = false; ecs_iter!(world, |_c: &CompD, _e: &Entity<ArchD>| { if !seen { seen = true; out.push(format!("w0 qcid ArchD CompD {}", ecs_component_id!(CompD))); } }); }
        #[cfg(all(all(all(), not(any()))))] out.push(format!("w0 cid ArchD CompH {} {}", <ArchD as ArchetypeHas<CompH>>::COMPONENT_ID, ecs_component_id!(CompH, ArchD)));
        #[cfg(all(all(all(), not(any()))))] { let mut seen = false; ecs_iter!(world, |_c: &CompH, _e: &Entity<ArchD>| { if !seen { seen = true; out.push(format!("w0 qcid ArchD CompH {}", ecs_component_id!(CompH))); } }); }
        #[cfg(all(all(all(), not(any()))))] out.push(format!("w0 cid ArchD CompB {} {}", <ArchD as ArchetypeHas<CompB>>::COMPONENT_ID, ecs_component_id!(CompB, ArchD)));
        #[cfg(all(all(all(), not(any()))))] { let mut seen = false; ecs_iter!(world, |_c: &CompB, _e: &Entity<ArchD>| { if !seen { seen = true; out.push(format!("w0 qcid ArchD CompB {}", ecs_component_id!(CompB))); } }); }
        #[cfg(all(all(all(), not(any()))))] out.push(format!("w0 cid ArchD CompJ {} {}", <ArchD as ArchetypeHas<CompJ>>::COMPONENT_ID, ecs_component_id!(CompJ, ArchD)));
        #[cfg(all(all(all(), not(any()))))] { let mut seen = false; ecs_iter!(world, |_c: &CompJ, _e: &Entity<ArchD>| { if !seen { seen = true; out.push(format!("w0 qcid ArchD CompJ {}", ecs_component_id!(CompJ))); } }); }
        #[cfg(all(all(all(), not(any()))))] out.push(format!("w0 cid ArchD CompE {} {}", <ArchD as ArchetypeHas<CompE>>::COMPONENT_ID, ecs_component_id!(CompE, ArchD)));
        #[cfg(all(all(all(), not(any()))))] { let mut seen = false; ecs_iter!(world, |_c: &CompE, _e: &Entity<ArchD>| { if !seen { seen = true; out.push(format!("w0 qcid ArchD CompE {}", ecs_component_id!(CompE))); } }); }
        #[cfg(all(all(all(), not(any()))))] out.push(format!("w0 cid ArchD CompF {} {}", <ArchD as ArchetypeHas<CompF>>::COMPONENT_ID, ecs_component_id!(CompF, ArchD)));
        #[cfg(all(all(all(), not(any()))))] { let mut seen = false; ecs_iter!(world, |_c: &CompF, _e: &Entity<ArchD>| { if !seen { seen = true; out.push(format!("w0 qcid ArchD CompF {}", ecs_component_id!(CompF))); } }); }
        #[cfg(all(all(), not(any())))] out.push(format!("w0 hid ArchD {} {}", e_3_0.archetype_id(), e_3_0.into_any().archetype_id()));
        #[cfg(all(all(), not(any())))] out.push(format!("w0 hid ArchD {} {}", e_3_1.archetype_id(), e_3_1.into_any().archetype_id()));
        #[cfg(all(all(), not(any())))] out.push(format!("w0 len ArchD {}", world.archetype::<ArchD>().len()));
        for id in 0..=255u8 { if let Ok(sel) = SelectArchetype::try_from(id) { out.push(format!("w0 sel {} {}", id, sel.archetype_id())); } }
        ecs_iter!(world, |#[cfg(all(all(), not(any())))] p0: &mut CompA, p1: &mut CompF| { let mut line = String::new(); #[cfg(all(all(), not(any())))] line.push_str(&format!("c{} ", p0.0)); line.push_str(&format!("c{} ", p1.0));  out.push(format!("w0 q0 visit {}", line)); });
        #[cfg(any(any(), not(all())))] { let key = e_0_0.into_any(); let r = ecs_find!(world, key, || { let mut line = String::new();  out.push(format!("w0 q1 call a0e0 {}", line)); }); out.push(format!("w0 q1 find a0e0 k1 {}", r.is_some())); }
        #[cfg(any(any(), not(all())))] { let key = world.to_direct(e_0_1).unwrap(); let r = ecs_find!(world, key, || { let mut line = String::new();  out.push(format!("w0 q1 call a0e1 {}", line)); }); out.push(format!("w0 q1 find a0e1 k2 {}", r.is_some())); }
        #[cfg(all(all(), not(any())))] { let key = e_3_0; let r = ecs_find!(world, key, || { let mut line = String::new();  out.push(format!("w0 q1 call a3e0 {}", line)); }); out.push(format!("w0 q1 find a3e0 k0 {}", r.is_some())); }
        #[cfg(all(all(), not(any())))] { let key = e_3_1.into_any(); let r = ecs_find!(world, key, || { let mut line = String::new();  out.push(format!("w0 q1 call a3e1 {}", line)); }); out.push(format!("w0 q1 find a3e1 k1 {}", r.is_some())); }
        let _ = &mut world;
    }
}

pub mod w1 {
    use gecs::prelude::*;
    use super::comps::*;

    ecs_world! {
    ecs_name!(WorldAb);
        ecs_archetype!(ArchA, #[cfg(all(all(), not(any())))] CompA, #[cfg(any(any(), not(all())))] CompF, #[cfg(not(any()))] CompI, CompC, CompH, #[cfg(all())] #[cfg(all())] #[component_id(19)] CompJ, #[cfg(all())] #[component_id(10)] CompG, CompB);
        ecs_archetype!(ArchB, #[cfg(all())] CompA, CompG);
        #[cfg(any(any(), not(all())))] ecs_archetype!(ArchC, CompC, #[cfg(all())] CompA, #[cfg(not(all()))] #[component_id(8)] CompF, #[cfg(all(all(), not(any())))] CompH, CompB, #[cfg(any(any(), not(all())))] CompD, CompG);
        #[archetype_id(33)] ecs_archetype!(ArchD, #[component_id(215)] CompH, CompI, CompC, CompD);
        }

    pub fn run(out: &mut Vec<String>) {
        let mut world = WorldAb::new();
        let e_0_0 = world.create::<ArchA>((#[cfg(all(all(), not(any())))] CompA(10100), #[cfg(any(any(), not(all())))] CompF(10105), #[cfg(not(any()))] CompI(10108), CompC(10102), CompH(10107), #[cfg(all())] #[cfg(all())] CompJ(10109), #[cfg(all())] CompG(10106), CompB(10101),));
        let e_0_1 = world.create::<ArchA>((#[cfg(all(all(), not(any())))] CompA(10200), #[cfg(any(any(), not(all())))] CompF(10205), #[cfg(not(any()))] CompI(10208), CompC(10202), CompH(10207), #[cfg(all())] #[cfg(all())] CompJ(10209), #[cfg(all())] CompG(10206), CompB(10201),));
        let e_1_0 = world.create::<ArchB>((#[cfg(all())] CompA(20100), CompG(20106),));
        let e_1_1 = world.create::<ArchB>((#[cfg(all())] CompA(20200), CompG(20206),));
        let e_3_0 = world.create::<ArchD>((CompH(40107), CompI(40108), CompC(40102), CompD(40103),));
        let e_3_1 = world.create::<ArchD>((CompH(40207), CompI(40208), CompC(40202), CompD(40203),));
        out.push(format!("w1 id ArchA {}", <ArchA as Archetype>::ARCHETYPE_ID));
        #[cfg(all(all(all(), not(any()))))] out.push(format!("w1 cid ArchA CompA {} {}", <ArchA as ArchetypeHas<CompA>>::COMPONENT_ID, ecs_component_id!(CompA, ArchA)));
        #[cfg(all(all(all(), not(any()))))] { let mut seen = false; ecs_iter!(world, |_c: &CompA, _e: &Entity<ArchA>| { if !seen { seen = true; out.push(format!("w1 qcid ArchA CompA {}", ecs_component_id!(CompA))); } }); }
        #[cfg(all(any(any(), not(all()))))] out.push(format!("w1 cid ArchA CompF {} {}", <ArchA as ArchetypeHas<CompF>>::COMPONENT_ID, ecs_component_id!(CompF, ArchA)));
        #[cfg(all(any(any(), not(all()))))] { let mut seen = false; ecs_iter!(world, |_c: &CompF, _e: &Entity<ArchA>| { if !seen { seen = true; out.push(format!("w1 qcid ArchA CompF {}", ecs_component_id!(CompF))); } }); }
        #[cfg(all(not(any())))] out.push(format!("w1 cid ArchA CompI {} {}", <ArchA as ArchetypeHas<CompI>>::COMPONENT_ID, ecs_component_id!(CompI, ArchA)));
        #[cfg(all(not(any())))] { let mut seen = false; ecs_iter!(world, |_c: &CompI, _e: &Entity<ArchA>| { if !seen { seen = true; out.push(format!("w1 qcid ArchA CompI {}", ecs_component_id!(CompI))); } }); }
        out.push(format!("w1 cid ArchA CompC {} {}", <ArchA as ArchetypeHas<CompC>>::COMPONENT_ID, ecs_component_id!(CompC, ArchA)));
        { let mut seen = false; ecs_iter!(world, |_c: &CompC, _e: &Entity<ArchA>| { if !seen { seen = true; out.push(format!("w1 qcid ArchA CompC {}", ecs_component_id!(CompC))); } }); }
        out.push(format!("w1 cid ArchA CompH {} {}", <ArchA as ArchetypeHas<CompH>>::COMPONENT_ID, ecs_component_id!(CompH, ArchA)));
        { let mut seen = false; ecs_iter!(world, |_c: &CompH, _e: &Entity<ArchA>| { if !seen { seen = true; out.push(format!("w1 qcid ArchA CompH {}", ecs_component_id!(CompH))); } }); }
        #[cfg(all(all(), all()))] out.push(format!("w1 cid ArchA CompJ {} {}", <ArchA as ArchetypeHas<CompJ>>::COMPONENT_ID, ecs_component_id!(CompJ, ArchA)));
        #[cfg(all(all(), all()))] { let mut seen = false; ecs_iter!(world, |_c: &CompJ, _e: &Entity<ArchA>| { if !seen { seen = true; out.push(format!("w1 qcid ArchA CompJ {}", ecs_component_id!(CompJ))); } }); }
        #[cfg(all(all()))] out.push(format!("w1 cid ArchA CompG {} {}", <ArchA as ArchetypeHas<CompG>>::COMPONENT_ID, ecs_component_id!(CompG, ArchA)));
        #[cfg(all(all()))] { let mut seen = false; ecs_iter!(world, |_c: &CompG, _e: &Entity<ArchA>| { if !seen { seen = true; out.push(format!("w1 qcid ArchA CompG {}", ecs_component_id!(CompG))); } }); }
        out.push(format!("w1 cid ArchA CompB {} {}", <ArchA as ArchetypeHas<CompB>>::COMPONENT_ID, ecs_component_id!(CompB, ArchA)));
        { let mut seen = false; ecs_iter!(world, |_c: &CompB, _e: &Entity<ArchA>| { if !seen { seen = true; out.push(format!("w1 qcid ArchA CompB {}", ecs_component_id!(CompB))); } }); }
        out.push(format!("w1 hid ArchA {} {}", e_0_0.archetype_id(), e_0_0.into_any().archetype_id()));
        out.push(format!("w1 hid ArchA {} {}", e_0_1.archetype_id(), e_0_1.into_any().archetype_id()));
        out.push(format!("w1 len ArchA {}", world.archetype::<ArchA>().len()));
        out.push(format!("w1 id ArchB {}", <ArchB as Archetype>::ARCHETYPE_ID));
        #[cfg(all(all()))] out.push(format!("w1 cid ArchB CompA {} {}", <ArchB as ArchetypeHas<CompA>>::COMPONENT_ID, ecs_component_id!(CompA, ArchB)));
        #[cfg(all(all()))] { let mut seen = false; ecs_iter!(world, |_c: &CompA, _e: &Entity<ArchB>| { if !seen { seen = true; out.push(format!("w1 qcid ArchB CompA {}", ecs_component_id!(CompA))); } }); }
        out.push(format!("w1 cid ArchB CompG {} {}", <ArchB as ArchetypeHas<CompG>>::COMPONENT_ID, ecs_component_id!(CompG, ArchB)));
        { let mut seen = false; ecs_iter!(world, |_c: &CompG, _e: &Entity<ArchB>| { if !seen { seen = true; out.push(format!("w1 qcid ArchB CompG {}", ecs_component_id!(CompG))); } }); }
        out.push(format!("w1 hid ArchB {} {}", e_1_0.archetype_id(), e_1_0.into_any().archetype_id()));
        out.push(format!("w1 hid ArchB {} {}", e_1_1.archetype_id(), e_1_1.into_any().archetype_id()));
        out.push(format!("w1 len ArchB {}", world.archetype::<ArchB>().len()));
        #[cfg(any(any(), not(all())))] out.push(format!("w1 id ArchC {}", <ArchC as Archetype>::ARCHETYPE_ID));
        #[cfg(all(any(any(), not(all()))))] out.push(format!("w1 cid ArchC CompC {} {}", <ArchC as ArchetypeHas<CompC>>::COMPONENT_ID, ecs_component_id!(CompC, ArchC)));
        #[cfg(all(any(any(), not(all())), all()))] out.push(format!("w1 cid ArchC CompA {} {}", <ArchC as ArchetypeHas<CompA>>::COMPONENT_ID, ecs_component_id!(CompA, ArchC)));
        #[cfg(all(any(any(), not(all())), not(all())))] out.push(format!("w1 cid ArchC CompF {} {}", <ArchC as ArchetypeHas<CompF>>::COMPONENT_ID, ecs_component_id!(CompF, ArchC)));
        #[cfg(all(any(any(), not(all())), all(all(), not(any()))))] out.push(format!("w1 cid ArchC CompH {} {}", <ArchC as ArchetypeHas<CompH>>::COMPONENT_ID, ecs_component_id!(CompH, ArchC)));
        #[cfg(all(any(any(), not(all()))))] out.push(format!("w1 cid ArchC CompB {} {}", <ArchC as ArchetypeHas<CompB>>::COMPONENT_ID, ecs_component_id!(CompB, ArchC)));
        #[cfg(all(any(any(), not(all())), any(any(), not(all()))))] out.push(format!("w1 cid ArchC CompD {} {}", <ArchC as ArchetypeHas<CompD>>::COMPONENT_ID, ecs_component_id!(CompD, ArchC)));
        #[cfg(all(any(any(), not(all()))))] out.push(format!("w1 cid ArchC CompG {} {}", <ArchC as ArchetypeHas<CompG>>::COMPONENT_ID, ecs_component_id!(CompG, ArchC)));
        #[cfg(any(any(), not(all())))] out.push(format!("w1 len ArchC {}", world.archetype::<ArchC>().len()));
        out.push(format!("w1 id ArchD {}", <ArchD as Archetype>::ARCHETYPE_ID));
        out.push(format!("w1 cid ArchD CompH {} {}", <ArchD as ArchetypeHas<CompH>>::COMPONENT_ID, ecs_component_id!(CompH, ArchD)));
        { let mut seen = false; ecs_iter!(world, |_c: &CompH, _e: &Entity<ArchD>| { if !seen { seen = true; out.push(format!("w1 qcid ArchD CompH {}", ecs_component_id!(CompH))); } }); }
        out.push(format!("w1 cid ArchD CompI {} {}", <ArchD as ArchetypeHas<CompI>>::COMPONENT_ID, ecs_component_id!(CompI, ArchD)));
        { let mut seen = false; ecs_iter!(world, |_c: &CompI, _e: &Entity<ArchD>| { if !seen { seen = true; out.push(format!("w1 qcid ArchD CompI {}", ecs_component_id!(CompI))); } }); }
        out.push(format!("w1 cid ArchD CompC {} {}", <ArchD as ArchetypeHas<CompC>>::COMPONENT_ID, ecs_component_id!(CompC, ArchD)));
        { let mut seen = false; ecs_iter!(world, |_c: &CompC, _e: &Entity<ArchD>| { if !seen { seen = true; out.push(format!("w1 qcid ArchD CompC {}", ecs_component_id!(CompC))); } }); }
        out.push(format!("w1 cid ArchD CompD {} {}", <ArchD as ArchetypeHas<CompD>>::COMPONENT_ID, ecs_component_id!(CompD, ArchD)));
        { let mut seen = false; ecs_iter!(world, |_c: &CompD, _e: &Entity<ArchD>| { if !seen { seen = true; out.push(format!("w1 qcid ArchD CompD {}", ecs_component_id!(CompD))); } }); }
        out.push(format!("w1 hid ArchD {} {}", e_3_0.archetype_id(), e_3_0.into_any().archetype_id()));
        out.push(format!("w1 hid ArchD {} {}", e_3_1.archetype_id(), e_3_1.into_any().archetype_id()));
        out.push(format!("w1 len ArchD {}", world.archetype::<ArchD>().len()));
        for id in 0..=255u8 { if let Ok(sel) = SelectArchetype::try_from(id) { out.push(format!("w1 sel {} {}", id, sel.archetype_id())); } }
        ecs_iter!(world, || { let mut line = String::new();  out.push(format!("w1 q0 visit {}", line)); });
        ecs_iter_borrow!(world, |p0: &mut CompH, #[cfg(all(all(), not(any())))] p1: &CompI, p2: &mut CompD| { let mut line = String::new(); line.push_str(&format!("c{} ", p0.0)); #[cfg(all(all(), not(any())))] line.push_str(&format!("c{} ", p1.0)); line.push_str(&format!("c{} ", p2.0));  out.push(format!("w1 q1 visit {}", line)); });
        let _ = &mut world;
    }
}

pub mod w2 {
    use gecs::prelude::*;
    use super::comps::*;

    ecs_world! {
    ecs_name!(WorldAc);
        ecs_archetype!(ArchA, #[cfg(all(all(), not(any())))] CompH, #[component_id(36)] CompE, #[component_id(26)] CompG, #[component_id(11)] CompB, #[cfg(all(all(), not(any())))] CompD, #[cfg(not(all()))] #[component_id(237)] CompA, CompI, CompF, CompC);
        #[cfg(any())] #[cfg(any())] ecs_archetype!(ArchB, #[cfg(any())] #[component_id(31)] CompJ, CompB, CompC, #[component_id(38)] CompF, #[component_id(217)] CompE, #[component_id(27)] CompI, #[component_id(4)] CompA);
        #[cfg(not(any()))] ecs_archetype!(ArchC, #[cfg(any(any(), not(all())))] #[component_id(20)] CompD, #[component_id(5)] CompG, CompE, #[component_id(34)] CompF, CompJ, CompC, #[cfg(all())] CompB, CompA, #[cfg(any(any(), not(all())))] #[cfg(not(all()))] #[component_id(23)] CompH, #[component_id(27)] CompI);
        #[cfg(all())] #[cfg(any())] ecs_archetype!(ArchD, #[cfg(all(all(), not(any())))] CompH, CompI, #[cfg(all())] CompG, CompC, CompE);
        #[cfg(all(all(), not(any())))] ecs_archetype!(ArchE, CompD);
        ecs_archetype!(ArchF, #[cfg(not(any()))] #[cfg(all(all(), not(any())))] #[component_id(4)] CompH, CompJ, #[component_id(23)] CompA);
        ecs_archetype!(ArchG, CompI, #[component_id(235)] CompA, #[cfg(not(any()))] #[component_id(26)] CompC, #[component_id(19)] CompF, #[cfg(all(all(), not(any())))] CompB, #[cfg(not(all()))] #[cfg(any())] CompJ, #[cfg(not(all()))] CompE, #[cfg(any(any(), not(all())))] CompG);
        #[cfg(not(all()))] ecs_archetype!(ArchH, CompD, #[component_id(226)] CompF, CompE, #[cfg(any(any(), not(all())))] CompG, CompH, #[component_id(207)] CompC, #[cfg(all(all(), not(any())))] #[component_id(213)] CompB);
        #[cfg(all(all(), not(any())))] #[cfg(not(any()))] ecs_archetype!(ArchI, #[cfg(all())] #[component_id(39)] CompF, CompI, CompB, #[cfg(any())] #[component_id(6)] CompC, #[component_id(10)] CompE, #[cfg(any(any(), not(all())))] CompA, #[cfg(any())] CompD);
        #[archetype_id(212)] ecs_archetype!(ArchJ, CompJ, #[component_id(16)] CompG, CompF, #[cfg(not(all()))] #[component_id(220)] CompE);
        }

    pub fn run(out: &mut Vec<String>) {
        let mut world = WorldAc::new();
        let e_0_0 = world.create::<ArchA>((#[cfg(all(all(), not(any())))] CompH(10107), CompE(10104), CompG(10106), CompB(10101), #[cfg(all(all(), not(any())))] CompD(10103), #[cfg(not(all()))] CompA(10100), CompI(10108), CompF(10105), CompC(10102),));
        let e_0_1 = world.create::<ArchA>((#[cfg(all(all(), not(any())))] CompH(10207), CompE(10204), CompG(10206), CompB(10201), #[cfg(all(all(), not(any())))] CompD(10203), #[cfg(not(all()))] CompA(10200), CompI(10208), CompF(10205), CompC(10202),));
        #[cfg(any())] #[cfg(any())] let e_1_0 = world.create::<ArchB>((#[cfg(any())] CompJ(20109), CompB(20101), CompC(20102), CompF(20105), CompE(20104), CompI(20108), CompA(20100),));
        #[cfg(any())] #[cfg(any())] let e_1_1 = world.create::<ArchB>((#[cfg(any())] CompJ(20209), CompB(20201), CompC(20202), CompF(20205), CompE(20204), CompI(20208), CompA(20200),));
        #[cfg(not(any()))] let e_2_0 = world.create::<ArchC>((#[cfg(any(any(), not(all())))] CompD(30103), CompG(30106), CompE(30104), CompF(30105), CompJ(30109), CompC(30102), #[cfg(all())] CompB(30101), CompA(30100), #[cfg(any(any(), not(all())))] #[cfg(not(all()))] CompH(30107), CompI(30108),));
        #[cfg(not(any()))] let e_2_1 = world.create::<ArchC>((#[cfg(any(any(), not(all())))] CompD(30203), CompG(30206), CompE(30204), CompF(30205), CompJ(30209), CompC(30202), #[cfg(all())] CompB(30201), CompA(30200), #[cfg(any(any(), not(all())))] #[cfg(not(all()))] CompH(30207), CompI(30208),));
        #[cfg(all(all(), not(any())))] let e_4_0 = world.create::<ArchE>((CompD(50103),));
        #[cfg(all(all(), not(any())))] let e_4_1 = world.create::<ArchE>((CompD(50203),));
        let e_5_0 = world.create::<ArchF>((#[cfg(not(any()))] #[cfg(all(all(), not(any())))] CompH(60107), CompJ(60109), CompA(60100),));
        let e_5_1 = world.create::<ArchF>((#[cfg(not(any()))] #[cfg(all(all(), not(any())))] CompH(60207), CompJ(60209), CompA(60200),));
        let e_6_0 = world.create::<ArchG>((CompI(70108), CompA(70100), #[cfg(not(any()))] CompC(70102), CompF(70105), #[cfg(all(all(), not(any())))] CompB(70101), #[cfg(not(all()))] #[cfg(any())] CompJ(70109), #[cfg(not(all()))] CompE(70104), #[cfg(any(any(), not(all())))] CompG(70106),));
        let e_6_1 = world.create::<ArchG>((CompI(70208), CompA(70200), #[cfg(not(any()))] CompC(70202), CompF(70205), #[cfg(all(all(), not(any())))] CompB(70201), #[cfg(not(all()))] #[cfg(any())] CompJ(70209), #[cfg(not(all()))] CompE(70204), #[cfg(any(any(), not(all())))] CompG(70206),));
        #[cfg(all(all(), not(any())))] #[cfg(not(any()))] let e_8_0 = world.create::<ArchI>((#[cfg(all())] CompF(90105), CompI(90108), CompB(90101), #[cfg(any())] CompC(90102), CompE(90104), #[cfg(any(any(), not(all())))] CompA(90100), #[cfg(any())] CompD(90103),));
        #[cfg(all(all(), not(any())))] #[cfg(not(any()))] let e_8_1 = world.create::<ArchI>((#[cfg(all())] CompF(90205), CompI(90208), CompB(90201), #[cfg(any())] CompC(90202), CompE(90204), #[cfg(any(any(), not(all())))] CompA(90200), #[cfg(any())] CompD(90203),));
        out.push(format!("w2 id ArchA {}", <ArchA as Archetype>::ARCHETYPE_ID));
        #[cfg(all(all(all(), not(any()))))] out.push(format!("w2 cid ArchA CompH {} {}", <ArchA as ArchetypeHas<CompH>>::COMPONENT_ID, ecs_component_id!(CompH, ArchA)));
        #[cfg(all(all(all(), not(any()))))] { let mut seen = false; ecs_iter!(world, |_c: &CompH, _e: &Entity<ArchA>| { if !seen { seen = true; out.push(format!("w2 qcid ArchA CompH {}", ecs_component_id!(CompH))); } }); }
        out.push(format!("w2 cid ArchA CompE {} {}", <ArchA as ArchetypeHas<CompE>>::COMPONENT_ID, ecs_component_id!(CompE, ArchA)));
        { let mut seen = false; ecs_iter!(world, |_c: &CompE, _e: &Entity<ArchA>| { if !seen { seen = true; out.push(format!("w2 qcid ArchA CompE {}", ecs_component_id!(CompE))); } }); }
        out.push(format!("w2 cid ArchA CompG {} {}", <ArchA as ArchetypeHas<CompG>>::COMPONENT_ID, ecs_component_id!(CompG, ArchA)));
        { let mut seen = false; ecs_iter!(world, |_c: &CompG, _e: &Entity<ArchA>| { if !seen { seen = true; out.push(format!("w2 qcid ArchA CompG {}", ecs_component_id!(CompG))); } }); }
        out.push(format!("w2 cid ArchA CompB {} {}", <ArchA as ArchetypeHas<CompB>>::COMPONENT_ID, ecs_component_id!(CompB, ArchA)));
        { let mut seen = false; ecs_iter!(world, |_c: &CompB, _e: &Entity<ArchA>| { if !seen { seen = true; out.push(format!("w2 qcid ArchA CompB {}", ecs_component_id!(CompB))); } }); }
        #[cfg(all(all(all(), not(any()))))] out.push(format!("w2 cid ArchA CompD {} {}", <ArchA as ArchetypeHas<CompD>>::COMPONENT_ID, ecs_component_id!(CompD, ArchA)));
        #[cfg(all(all(all(), not(any()))))] { let mut seen = false; ecs_iter!(world, |_c: &CompD, _e: &Entity<ArchA>| { if !seen { seen = true; out.push(format!("w2 qcid ArchA CompD {}", ecs_component_id!(CompD))); } }); }
        #[cfg(all(not(all())))] out.push(format!("w2 cid ArchA CompA {} {}", <ArchA as ArchetypeHas<CompA>>::COMPONENT_ID, ecs_component_id!(CompA, ArchA)));
        #[cfg(all(not(all())))] { let mut seen = false; ecs_iter!(world, |_c: &CompA, _e: &Entity<ArchA>| { if !seen { seen = true; out.push(format!("w2 qcid ArchA CompA {}", ecs_component_id!(CompA))); } }); }
        out.push(format!("w2 cid ArchA CompI {} {}", <ArchA as ArchetypeHas<CompI>>::COMPONENT_ID, ecs_component_id!(CompI, ArchA)));
        { let mut seen = false; ecs_iter!(world, |_c: &CompI, _e: &Entity<ArchA>| { if !seen { seen = true; out.push(format!("w2 qcid ArchA CompI {}", ecs_component_id!(CompI))); } }); }
        out.push(format!("w2 cid ArchA CompF {} {}", <ArchA as ArchetypeHas<CompF>>::COMPONENT_ID, ecs_component_id!(CompF, ArchA)));
        { let mut seen = false; ecs_iter!(world, |_c: &CompF, _e: &Entity<ArchA>| { if !seen { seen = true; out.push(format!("w2 qcid ArchA CompF {}", ecs_component_id!(CompF))); } }); }
        out.push(format!("w2 cid ArchA CompC {} {}", <ArchA as ArchetypeHas<CompC>>::COMPONENT_ID, ecs_component_id!(CompC, ArchA)));
        { let mut seen = false; ecs_iter!(world, |_c: &CompC, _e: &Entity<ArchA>| { if !seen { seen = true; out.push(format!("w2 qcid ArchA CompC {}", ecs_component_id!(CompC))); } }); }
        out.push(format!("w2 hid ArchA {} {}", e_0_0.archetype_id(), e_0_0.into_any().archetype_id()));
        out.push(format!("w2 hid ArchA {} {}", e_0_1.archetype_id(), e_0_1.into_any().archetype_id()));
        out.push(format!("w2 len ArchA {}", world.archetype::<ArchA>().len()));
        #[cfg(any())] #[cfg(any())] out.push(format!("w2 id ArchB {}", <ArchB as Archetype>::ARCHETYPE_ID));
        #[cfg(all(any(), any(), any()))] out.push(format!("w2 cid ArchB CompJ {} {}", <ArchB as ArchetypeHas<CompJ>>::COMPONENT_ID, ecs_component_id!(CompJ, ArchB)));
        #[cfg(all(any(), any(), any()))] { let mut seen = false; ecs_iter!(world, |_c: &CompJ, _e: &Entity<ArchB>| { if !seen { seen = true; out.push(format!("w2 qcid ArchB CompJ {}", ecs_component_id!(CompJ))); } }); }
        #[cfg(all(any(), any()))] out.push(format!("w2 cid ArchB CompB {} {}", <ArchB as ArchetypeHas<CompB>>::COMPONENT_ID, ecs_component_id!(CompB, ArchB)));
        #[cfg(all(any(), any()))] { let mut seen = false; ecs_iter!(world, |_c: &CompB, _e: &Entity<ArchB>| { if !seen { seen = true; out.push(format!("w2 qcid ArchB CompB {}", ecs_component_id!(CompB))); } }); }
        #[cfg(all(any(), any()))] out.push(format!("w2 cid ArchB CompC {} {}", <ArchB as ArchetypeHas<CompC>>::COMPONENT_ID, ecs_component_id!(CompC, ArchB)));
        #[cfg(all(any(), any()))] { let mut seen = false; ecs_iter!(world, |_c: &CompC, _e: &Entity<ArchB>| { if !seen { seen = true; out.push(format!("w2 qcid ArchB CompC {}", ecs_component_id!(CompC))); } }); }
        #[cfg(all(any(), any()))] out.push(format!("w2 cid ArchB CompF {} {}", <ArchB as ArchetypeHas<CompF>>::COMPONENT_ID, ecs_component_id!(CompF, ArchB)));
        #[cfg(all(any(), any()))] { let mut seen = false; ecs_iter!(world, |_c: &CompF, _e: &Entity<ArchB>| { if !seen { seen = true; out.push(format!("w2 qcid ArchB CompF {}", ecs_component_id!(CompF))); } }); }
        #[cfg(all(any(), any()))] out.push(format!("w2 cid ArchB CompE {} {}", <ArchB as ArchetypeHas<CompE>>::COMPONENT_ID, ecs_component_id!(CompE, ArchB)));
        #[cfg(all(any(), any()))] { let mut seen = false; ecs_iter!(world, |_c: &CompE, _e: &Entity<ArchB>| { if !seen { seen = true; out.push(format!("w2 qcid ArchB CompE {}", ecs_component_id!(CompE))); } }); }
        #[cfg(all(any(), any()))] out.push(format!("w2 cid ArchB CompI {} {}", <ArchB as ArchetypeHas<CompI>>::COMPONENT_ID, ecs_component_id!(CompI, ArchB)));
        #[cfg(all(any(), any()))] { let mut seen = false; ecs_iter!(world, |_c: &CompI, _e: &Entity<ArchB>| { if !seen { seen = true; out.push(format!("w2 qcid ArchB CompI {}", ecs_component_id!(CompI))); } }); }
        #[cfg(all(any(), any()))] out.push(format!("w2 cid ArchB CompA {} {}", <ArchB as ArchetypeHas<CompA>>::COMPONENT_ID, ecs_component_id!(CompA, ArchB)));
        #[cfg(all(any(), any()))] { let mut seen = false; ecs_iter!(world, |_c: &CompA, _e: &Entity<ArchB>| { if !seen { seen = true; out.push(format!("w2 qcid ArchB CompA {}", ecs_component_id!(CompA))); } }); }
        #[cfg(any())] #[cfg(any())] out.push(format!("w2 hid ArchB {} {}", e_1_0.archetype_id(), e_1_0.into_any().archetype_id()));
        #[cfg(any())] #[cfg(any())] out.push(format!("w2 hid ArchB {} {}", e_1_1.archetype_id(), e_1_1.into_any().archetype_id()));
        #[cfg(any())] #[cfg(any())] out.push(format!("w2 len ArchB {}", world.archetype::<ArchB>().len()));
        #[cfg(not(any()))] out.push(format!("w2 id ArchC {}", <ArchC as Archetype>::ARCHETYPE_ID));
        #[cfg(all(not(any()), any(any(), not(all()))))] out.push(format!("w2 cid ArchC CompD {} {}", <ArchC as ArchetypeHas<CompD>>::COMPONENT_ID, ecs_component_id!(CompD, ArchC)));
        #[cfg(all(not(any()), any(any(), not(all()))))] { let mut seen = false; ecs_iter!(world, |_c: &CompD, _e: &Entity<ArchC>| { if !seen { seen = true; out.push(format!("w2 qcid ArchC CompD {}", ecs_component_id!(CompD))); } }); }
        #[cfg(all(not(any())))] out.push(format!("w2 cid ArchC CompG {} {}", <ArchC as ArchetypeHas<CompG>>::COMPONENT_ID, ecs_component_id!(CompG, ArchC)));
        #[cfg(all(not(any())))] { let mut seen = false; ecs_iter!(world, |_c: &CompG, _e: &Entity<ArchC>| { if !seen { seen = true; out.push(format!("w2 qcid ArchC CompG {}", ecs_component_id!(CompG))); } }); }
        #[cfg(all(not(any())))] out.push(format!("w2 cid ArchC CompE {} {}", <ArchC as ArchetypeHas<CompE>>::COMPONENT_ID, ecs_component_id!(CompE, ArchC)));
        #[cfg(all(not(any())))] { let mut seen = false; ecs_iter!(world, |_c: &CompE, _e: &Entity<ArchC>| { if !seen { seen = true; out.push(format!("w2 qcid ArchC CompE {}", ecs_component_id!(CompE))); } }); }
        #[cfg(all(not(any())))] out.push(format!("w2 cid ArchC CompF {} {}", <ArchC as ArchetypeHas<CompF>>::COMPONENT_ID, ecs_component_id!(CompF, ArchC)));
        #[cfg(all(not(any())))] { let mut seen = false; ecs_iter!(world, |_c: &CompF, _e: &Entity<ArchC>| { if !seen { seen = true; out.push(format!("w2 qcid ArchC CompF {}", ecs_component_id!(CompF))); } }); }
        #[cfg(all(not(any())))] out.push(format!("w2 cid ArchC CompJ {} {}", <ArchC as ArchetypeHas<CompJ>>::COMPONENT_ID, ecs_component_id!(CompJ, ArchC)));
        #[cfg(all(not(any())))] { let mut seen = false; ecs_iter!(world, |_c: &CompJ, _e: &Entity<ArchC>| { if !seen { seen = true; out.push(format!("w2 qcid ArchC CompJ {}", ecs_component_id!(CompJ))); } }); }
        #[cfg(all(not(any())))] out.push(format!("w2 cid ArchC CompC {} {}", <ArchC as ArchetypeHas<CompC>>::COMPONENT_ID, ecs_component_id!(CompC, ArchC)));
        #[cfg(all(not(any())))] { let mut seen = false; ecs_iter!(world, |_c: &CompC, _e: &Entity<ArchC>| { if !seen { seen = true; out.push(format!("w2 qcid ArchC CompC {}", ecs_component_id!(CompC))); } }); }
        #[cfg(all(not(any()), all()))] out.push(format!("w2 cid ArchC CompB {} {}", <ArchC as ArchetypeHas<CompB>>::COMPONENT_ID, ecs_component_id!(CompB, ArchC)));
        #[cfg(all(not(any()), all()))] { let mut seen = false; ecs_iter!(world, |_c: &CompB, _e: &Entity<ArchC>| { if !seen { seen = true; out.push(format!("w2 qcid ArchC CompB {}", ecs_component_id!(CompB))); } }); }
        #[cfg(all(not(any())))] out.push(format!("w2 cid ArchC CompA {} {}", <ArchC as ArchetypeHas<CompA>>::COMPONENT_ID, ecs_component_id!(CompA, ArchC)));
        #[cfg(all(not(any())))] { let mut seen = false; ecs_iter!(world, |_c: &CompA, _e: &Entity<ArchC>| { if !seen { seen = true; out.push(format!("w2 qcid ArchC CompA {}", ecs_component_id!(CompA))); } }); }
        #[cfg(all(not(any()), any(any(), not(all())), not(all())))] out.push(format!("w2 cid ArchC CompH {} {}", <ArchC as ArchetypeHas<CompH>>::COMPONENT_ID, ecs_component_id!(CompH, ArchC)));
        #[cfg(all(not(any()), any(any(), not(all())), not(all())))] { let mut seen = false; ecs_iter!(world, |_c: &CompH, _e: &Entity<ArchC>| { if !seen { seen = true; out.push(format!("w2 qcid ArchC CompH {}", ecs_component_id!(CompH))); } }); }
        #[cfg(all(not(any())))] out.push(format!("w2 cid ArchC CompI {} {}", <ArchC as ArchetypeHas<CompI>>::COMPONENT_ID, ecs_component_id!(CompI, ArchC)));
        #[cfg(all(not(any())))] { let mut seen = false; ecs_iter!(world, |_c: &CompI, _e: &Entity<ArchC>| { if !seen { seen = true; out.push(format!("w2 qcid ArchC CompI {}", ecs_component_id!(CompI))); } }); }
        #[cfg(not(any()))] out.push(format!("w2 hid ArchC {} {}", e_2_0.archetype_id(), e_2_0.into_any().archetype_id()));
        #[cfg(not(any()))] out.push(format!("w2 hid ArchC {} {}", e_2_1.archetype_id(), e_2_1.into_any().archetype_id()));
        #[cfg(not(any()))] out.push(format!("w2 len ArchC {}", world.archetype::<ArchC>().len()));
        #[cfg(all())] #[cfg(any())] out.push(format!("w2 id ArchD {}", <ArchD as Archetype>::ARCHETYPE_ID));
        #[cfg(all(all(), any(), all(all(), not(any()))))] out.push(format!("w2 cid ArchD CompH {} {}", <ArchD as ArchetypeHas<CompH>>::COMPONENT_ID, ecs_component_id!(CompH, ArchD)));
        #[cfg(all(all(), any()))] out.push(format!("w2 cid ArchD CompI {} {}", <ArchD as ArchetypeHas<CompI>>::COMPONENT_ID, ecs_component_id!(CompI, ArchD)));
        #[cfg(all(all(), any(), all()))] out.push(format!("w2 cid ArchD CompG {} {}", <ArchD as ArchetypeHas<CompG>>::COMPONENT_ID, ecs_component_id!(CompG, ArchD)));
        #[cfg(all(all(), any()))] out.push(format!("w2 cid ArchD CompC {} {}", <ArchD as ArchetypeHas<CompC>>::COMPONENT_ID, ecs_component_id!(CompC, ArchD)));
        #[cfg(all(all(), any()))] out.push(format!("w2 cid ArchD CompE {} {}", <ArchD as ArchetypeHas<CompE>>::COMPONENT_ID, ecs_component_id!(CompE, ArchD)));
        #[cfg(all())] #[cfg(any())] out.push(format!("w2 len ArchD {}", world.archetype::<ArchD>().len()));
        #[cfg(all(all(), not(any())))] out.push(format!("w2 id ArchE {}", <ArchE as Archetype>::ARCHETYPE_ID));
        #[cfg(all(all(all(), not(any()))))] out.push(format!("w2 cid ArchE CompD {} {}", <ArchE as ArchetypeHas<CompD>>::COMPONENT_ID, ecs_component_id!(CompD, ArchE)));
        #[cfg(all(all(all(), not(any()))))] { let mut seen = false; ecs_iter!(world, |_c: &CompD, _e: &Entity<ArchE>| { if !seen { seen = true; out.push(format!("w2 qcid ArchE CompD {}", ecs_component_id!(CompD))); } }); }
        #[cfg(all(all(), not(any())))] out.push(format!("w2 hid ArchE {} {}", e_4_0.archetype_id(), e_4_0.into_any().archetype_id()));
        #[cfg(all(all(), not(any())))] out.push(format!("w2 hid ArchE {} {}", e_4_1.archetype_id(), e_4_1.into_any().archetype_id()));
        #[cfg(all(all(), not(any())))] out.push(format!("w2 len ArchE {}", world.archetype::<ArchE>().len()));
        out.push(format!("w2 id ArchF {}", <ArchF as Archetype>::ARCHETYPE_ID));
        #[cfg(all(not(any()), all(all(), not(any()))))] out.push(format!("w2 cid ArchF CompH {} {}", <ArchF as ArchetypeHas<CompH>>::COMPONENT_ID, ecs_component_id!(CompH, ArchF)));
        #[cfg(all(not(any()), all(all(), not(any()))))] { let mut seen = false; ecs_iter!(world, |_c: &CompH, _e: &Entity<ArchF>| { if !seen { seen = true; out.push(format!("w2 qcid ArchF CompH {}", ecs_component_id!(CompH))); } }); }
        out.push(format!("w2 cid ArchF CompJ {} {}", <ArchF as ArchetypeHas<CompJ>>::COMPONENT_ID, ecs_component_id!(CompJ, ArchF)));
        { let mut seen = false; ecs_iter!(world, |_c: &CompJ, _e: &Entity<ArchF>| { if !seen { seen = true; out.push(format!("w2 qcid ArchF CompJ {}", ecs_component_id!(CompJ))); } }); }
        out.push(format!("w2 cid ArchF CompA {} {}", <ArchF as ArchetypeHas<CompA>>::COMPONENT_ID, ecs_component_id!(CompA, ArchF)));
        { let mut seen = false; ecs_iter!(world, |_c: &CompA, _e: &Entity<ArchF>| { if !seen { seen = true; out.push(format!("w2 qcid ArchF CompA {}", ecs_component_id!(CompA))); } }); }
        out.push(format!("w2 hid ArchF {} {}", e_5_0.archetype_id(), e_5_0.into_any().archetype_id()));
        out.push(format!("w2 hid ArchF {} {}", e_5_1.archetype_id(), e_5_1.into_any().archetype_id()));
        out.push(format!("w2 len ArchF {}", world.archetype::<ArchF>().len()));
        out.push(format!("w2 id ArchG {}", <ArchG as Archetype>::ARCHETYPE_ID));
        out.push(format!("w2 cid ArchG CompI {} {}", <ArchG as ArchetypeHas<CompI>>::COMPONENT_ID, ecs_component_id!(CompI, ArchG)));
        { let mut seen = false; ecs_iter!(world, |_c: &CompI, _e: &Entity<ArchG>| { if !seen { seen = true; out.push(format!("w2 qcid ArchG CompI {}", ecs_component_id!(CompI))); } }); }
        out.push(format!("w2 cid ArchG CompA {} {}", <ArchG as ArchetypeHas<CompA>>::COMPONENT_ID, ecs_component_id!(CompA, ArchG)));
        { let mut seen = false; ecs_iter!(world, |_c: &CompA, _e: &Entity<ArchG>| { if !seen { seen = true; out.push(format!("w2 qcid ArchG CompA {}", ecs_component_id!(CompA))); } }); }
        #[cfg(all(not(any())))] out.push(format!("w2 cid ArchG CompC {} {}", <ArchG as ArchetypeHas<CompC>>::COMPONENT_ID, ecs_component_id!(CompC, ArchG)));
        #[cfg(all(not(any())))] { let mut seen = false; ecs_iter!(world, |_c: &CompC, _e: &Entity<ArchG>| { if !seen { seen = true; out.push(format!("w2 qcid ArchG CompC {}", ecs_component_id!(CompC))); } }); }
        out.push(format!("w2 cid ArchG CompF {} {}", <ArchG as ArchetypeHas<CompF>>::COMPONENT_ID, ecs_component_id!(CompF, ArchG)));
        { let mut seen = false; ecs_iter!(world, |_c: &CompF, _e: &Entity<ArchG>| { if !seen { seen = true; out.push(format!("w2 qcid ArchG CompF {}", ecs_component_id!(CompF))); } }); }
        #[cfg(all(all(all(), not(any()))))] out.push(format!("w2 cid ArchG CompB {} {}", <ArchG as ArchetypeHas<CompB>>::COMPONENT_ID, ecs_component_id!(CompB, ArchG)));
        #[cfg(all(all(all(), not(any()))))] { let mut seen = false; ecs_iter!(world, |_c: &CompB, _e: &Entity<ArchG>| { if !seen { seen = true; out.push(format!("w2 qcid ArchG CompB {}", ecs_component_id!(CompB))); } }); }
        #[cfg(all(not(all()), any()))] out.push(format!("w2 cid ArchG CompJ {} {}", <ArchG as ArchetypeHas<CompJ>>::COMPONENT_ID, ecs_component_id!(CompJ, ArchG)));
        #[cfg(all(not(all()), any()))] { let mut seen = false; ecs_iter!(world, |_c: &CompJ, _e: &Entity<ArchG>| { if !seen { seen = true; out.push(format!("w2 qcid ArchG CompJ {}", ecs_component_id!(CompJ))); } }); }
        #[cfg(all(not(all())))] out.push(format!("w2 cid ArchG CompE {} {}", <ArchG as ArchetypeHas<CompE>>::COMPONENT_ID, ecs_component_id!(CompE, ArchG)));
        #[cfg(all(not(all())))] { let mut seen = false; ecs_iter!(world, |_c: &CompE, _e: &Entity<ArchG>| { if !seen { seen = true; out.push(format!("w2 qcid ArchG CompE {}", ecs_component_id!(CompE))); } }); }
        #[cfg(all(any(any(), not(all()))))] out.push(format!("w2 cid ArchG CompG {} {}", <ArchG as ArchetypeHas<CompG>>::COMPONENT_ID, ecs_component_id!(CompG, ArchG)));
        #[cfg(all(any(any(), not(all()))))] { let mut seen = false; ecs_iter!(world, |_c: &CompG, _e: &Entity<ArchG>| { if !seen { seen = true; out.push(format!("w2 qcid ArchG CompG {}", ecs_component_id!(CompG))); } }); }
        out.push(format!("w2 hid ArchG {} {}", e_6_0.archetype_id(), e_6_0.into_any().archetype_id()));
        out.push(format!("w2 hid ArchG {} {}", e_6_1.archetype_id(), e_6_1.into_any().archetype_id()));
        out.push(format!("w2 len ArchG {}", world.archetype::<ArchG>().len()));
        #[cfg(not(all()))] out.push(format!("w2 id ArchH {}", <ArchH as Archetype>::ARCHETYPE_ID));
        #[cfg(all(not(all())))] out.push(format!("w2 cid ArchH CompD {} {}", <ArchH as ArchetypeHas<CompD>>::COMPONENT_ID, ecs_component_id!(CompD, ArchH)));
        #[cfg(all(not(all())))] out.push(format!("w2 cid ArchH CompF {} {}", <ArchH as ArchetypeHas<CompF>>::COMPONENT_ID, ecs_component_id!(CompF, ArchH)));
        #[cfg(all(not(all())))] out.push(format!("w2 cid ArchH CompE {} {}", <ArchH as ArchetypeHas<CompE>>::COMPONENT_ID, ecs_component_id!(CompE, ArchH)));
        #[cfg(all(not(all()), any(any(), not(all()))))] out.push(format!("w2 cid ArchH CompG {} {}", <ArchH as ArchetypeHas<CompG>>::COMPONENT_ID, ecs_component_id!(CompG, ArchH)));
        #[cfg(all(not(all())))] out.push(format!("w2 cid ArchH CompH {} {}", <ArchH as ArchetypeHas<CompH>>::COMPONENT_ID, ecs_component_id!(CompH, ArchH)));
        #[cfg(all(not(all())))] out.push(format!("w2 cid ArchH CompC {} {}", <ArchH as ArchetypeHas<CompC>>::COMPONENT_ID, ecs_component_id!(CompC, ArchH)));
        #[cfg(all(not(all()), all(all(), not(any()))))] out.push(format!("w2 cid ArchH CompB {} {}", <ArchH as ArchetypeHas<CompB>>::COMPONENT_ID, ecs_component_id!(CompB, ArchH)));
        #[cfg(not(all()))] out.push(format!("w2 len ArchH {}", world.archetype::<ArchH>().len()));
        #[cfg(all(all(), not(any())))] #[cfg(not(any()))] out.push(format!("w2 id ArchI {}", <ArchI as Archetype>::ARCHETYPE_ID));
        #[cfg(all(all(all(), not(any())), not(any()), all()))] out.push(format!("w2 cid ArchI CompF {} {}", <ArchI as ArchetypeHas<CompF>>::COMPONENT_ID, ecs_component_id!(CompF, ArchI)));
        #[cfg(all(all(all(), not(any())), not(any()), all()))] { let mut seen = false; ecs_iter!(world, |_c: &CompF, _e: &Entity<ArchI>| { if !seen { seen = true; out.push(format!("w2 qcid ArchI CompF {}", ecs_component_id!(CompF))); } }); }
        #[cfg(all(all(all(), not(any())), not(any())))] out.push(format!("w2 cid ArchI CompI {} {}", <ArchI as ArchetypeHas<CompI>>::COMPONENT_ID, ecs_component_id!(CompI, ArchI)));
        #[cfg(all(all(all(), not(any())), not(any())))] { let mut seen = false; ecs_iter!(world, |_c: &CompI, _e: &Entity<ArchI>| { if !seen { seen = true; out.push(format!("w2 qcid ArchI CompI {}", ecs_component_id!(CompI))); } }); }
        #[cfg(all(all(all(), not(any())), not(any())))] out.push(format!("w2 cid ArchI CompB {} {}", <ArchI as ArchetypeHas<CompB>>::COMPONENT_ID, ecs_component_id!(CompB, ArchI)));
        #[cfg(all(all(all(), not(any())), not(any())))] { let mut seen = false; ecs_iter!(world, |_c: &CompB, _e: &Entity<ArchI>| { if !seen { seen = true; out.push(format!("w2 qcid ArchI CompB {}", ecs_component_id!(CompB))); } }); }
        #[cfg(all(all(all(), not(any())), not(any()), any()))] out.push(format!("w2 cid ArchI CompC {} {}", <ArchI as ArchetypeHas<CompC>>::COMPONENT_ID, ecs_component_id!(CompC, ArchI)));
        #[cfg(all(all(all(), not(any())), not(any()), any()))] { let mut seen = false; ecs_iter!(world, |_c: &CompC, _e: &Entity<ArchI>| { if !seen { seen = true; out.push(format!("w2 qcid ArchI CompC {}", ecs_component_id!(CompC))); } }); }
        #[cfg(all(all(all(), not(any())), not(any())))] out.push(format!("w2 cid ArchI CompE {} {}", <ArchI as ArchetypeHas<CompE>>::COMPONENT_ID, ecs_component_id!(CompE, ArchI)));
        #[cfg(all(all(all(), not(any())), not(any())))] { let mut seen = false; ecs_iter!(world, |_c: &CompE, _e: &Entity<ArchI>| { if !seen { seen = true; out.push(format!("w2 qcid ArchI CompE {}", ecs_component_id!(CompE))); } }); }
        #[cfg(all(all(all(), not(any())), not(any()), any(any(), not(all()))))] out.push(format!("w2 cid ArchI CompA {} {}", <ArchI as ArchetypeHas<CompA>>::COMPONENT_ID, ecs_component_id!(CompA, ArchI)));
        #[cfg(all(all(all(), not(any())), not(any()), any(any(), not(all()))))] { let mut seen = false; ecs_iter!(world, |_c: &CompA, _e: &Entity<ArchI>| { if !seen { seen = true; out.push(format!("w2 qcid ArchI CompA {}", ecs_component_id!(CompA))); } }); }
        #[cfg(all(all(all(), not(any())), not(any()), any()))] out.push(format!("w2 cid ArchI CompD {} {}", <ArchI as ArchetypeHas<CompD>>::COMPONENT_ID, ecs_component_id!(CompD, ArchI)));
        #[cfg(all(all(all(), not(any())), not(any()), any()))] { let mut seen = false; ecs_iter!(world, |_c: &CompD, _e: &Entity<ArchI>| { if !seen { seen = true; out.push(format!("w2 qcid ArchI CompD {}", ecs_component_id!(CompD))); } }); }
        #[cfg(all(all(), not(any())))] #[cfg(not(any()))] out.push(format!("w2 hid ArchI {} {}", e_8_0.archetype_id(), e_8_0.into_any().archetype_id()));
        #[cfg(all(all(), not(any())))] #[cfg(not(any()))] out.push(format!("w2 hid ArchI {} {}", e_8_1.archetype_id(), e_8_1.into_any().archetype_id()));
        #[cfg(all(all(), not(any())))] #[cfg(not(any()))] out.push(format!("w2 len ArchI {}", world.archetype::<ArchI>().len()));
        out.push(format!("w2 id ArchJ {}", <ArchJ as Archetype>::ARCHETYPE_ID));
        out.push(format!("w2 cid ArchJ CompJ {} {}", <ArchJ as ArchetypeHas<CompJ>>::COMPONENT_ID, ecs_component_id!(CompJ, ArchJ)));
        out.push(format!("w2 cid ArchJ CompG {} {}", <ArchJ as ArchetypeHas<CompG>>::COMPONENT_ID, ecs_component_id!(CompG, ArchJ)));
        out.push(format!("w2 cid ArchJ CompF {} {}", <ArchJ as ArchetypeHas<CompF>>::COMPONENT_ID, ecs_component_id!(CompF, ArchJ)));
        #[cfg(all(not(all())))] out.push(format!("w2 cid ArchJ CompE {} {}", <ArchJ as ArchetypeHas<CompE>>::COMPONENT_ID, ecs_component_id!(CompE, ArchJ)));
        out.push(format!("w2 len ArchJ {}", world.archetype::<ArchJ>().len()));
        for id in 0..=255u8 { if let Ok(sel) = SelectArchetype::try_from(id) { out.push(format!("w2 sel {} {}", id, sel.archetype_id())); } }
        ecs_iter!(world, || { let mut line = String::new();  out.push(format!("w2 q0 visit {}", line)); });
        { let key = e_0_0.into_any(); let r = ecs_find!(world, key, |#[cfg(any(any(), not(all())))] p0: &CompC| { let mut line = String::new(); #[cfg(any(any(), not(all())))] line.push_str(&format!("c{} ", p0.0));  out.push(format!("w2 q1 call a0e0 {}", line)); }); out.push(format!("w2 q1 find a0e0 k1 {}", r.is_some())); }
        { let key = world.to_direct(e_0_1).unwrap(); let r = ecs_find!(world, key, |#[cfg(any(any(), not(all())))] p0: &CompC| { let mut line = String::new(); #[cfg(any(any(), not(all())))] line.push_str(&format!("c{} ", p0.0));  out.push(format!("w2 q1 call a0e1 {}", line)); }); out.push(format!("w2 q1 find a0e1 k2 {}", r.is_some())); }
        #[cfg(any())] #[cfg(any())] { let key = world.to_direct(e_1_0).unwrap(); let r = ecs_find!(world, key, |#[cfg(any(any(), not(all())))] p0: &CompC| { let mut line = String::new(); #[cfg(any(any(), not(all())))] line.push_str(&format!("c{} ", p0.0));  out.push(format!("w2 q1 call a1e0 {}", line)); }); out.push(format!("w2 q1 find a1e0 k2 {}", r.is_some())); }
        #[cfg(any())] #[cfg(any())] { let key = world.to_direct(e_1_1.into_any()).unwrap(); let r = ecs_find!(world, key, |#[cfg(any(any(), not(all())))] p0: &CompC| { let mut line = String::new(); #[cfg(any(any(), not(all())))] line.push_str(&format!("c{} ", p0.0));  out.push(format!("w2 q1 call a1e1 {}", line)); }); out.push(format!("w2 q1 find a1e1 k3 {}", r.is_some())); }
        #[cfg(not(any()))] { let key = world.to_direct(e_2_0.into_any()).unwrap(); let r = ecs_find!(world, key, |#[cfg(any(any(), not(all())))] p0: &CompC| { let mut line = String::new(); #[cfg(any(any(), not(all())))] line.push_str(&format!("c{} ", p0.0));  out.push(format!("w2 q1 call a2e0 {}", line)); }); out.push(format!("w2 q1 find a2e0 k3 {}", r.is_some())); }
        #[cfg(not(any()))] { let key = e_2_1; let r = ecs_find!(world, key, |#[cfg(any(any(), not(all())))] p0: &CompC| { let mut line = String::new(); #[cfg(any(any(), not(all())))] line.push_str(&format!("c{} ", p0.0));  out.push(format!("w2 q1 call a2e1 {}", line)); }); out.push(format!("w2 q1 find a2e1 k0 {}", r.is_some())); }
        #[cfg(all(all(), not(any())))] { let key = e_4_0.into_any(); let r = ecs_find!(world, key, |#[cfg(any(any(), not(all())))] p0: &CompC| { let mut line = String::new(); #[cfg(any(any(), not(all())))] line.push_str(&format!("c{} ", p0.0));  out.push(format!("w2 q1 call a4e0 {}", line)); }); out.push(format!("w2 q1 find a4e0 k1 {}", r.is_some())); }
        #[cfg(all(all(), not(any())))] { let key = world.to_direct(e_4_1).unwrap(); let r = ecs_find!(world, key, |#[cfg(any(any(), not(all())))] p0: &CompC| { let mut line = String::new(); #[cfg(any(any(), not(all())))] line.push_str(&format!("c{} ", p0.0));  out.push(format!("w2 q1 call a4e1 {}", line)); }); out.push(format!("w2 q1 find a4e1 k2 {}", r.is_some())); }
        { let key = world.to_direct(e_5_0).unwrap(); let r = ecs_find!(world, key, |#[cfg(any(any(), not(all())))] p0: &CompC| { let mut line = String::new(); #[cfg(any(any(), not(all())))] line.push_str(&format!("c{} ", p0.0));  out.push(format!("w2 q1 call a5e0 {}", line)); }); out.push(format!("w2 q1 find a5e0 k2 {}", r.is_some())); }
        { let key = world.to_direct(e_5_1.into_any()).unwrap(); let r = ecs_find!(world, key, |#[cfg(any(any(), not(all())))] p0: &CompC| { let mut line = String::new(); #[cfg(any(any(), not(all())))] line.push_str(&format!("c{} ", p0.0));  out.push(format!("w2 q1 call a5e1 {}", line)); }); out.push(format!("w2 q1 find a5e1 k3 {}", r.is_some())); }
        { let key = world.to_direct(e_6_0.into_any()).unwrap(); let r = ecs_find!(world, key, |#[cfg(any(any(), not(all())))] p0: &CompC| { let mut line = String::new(); #[cfg(any(any(), not(all())))] line.push_str(&format!("c{} ", p0.0));  out.push(format!("w2 q1 call a6e0 {}", line)); }); out.push(format!("w2 q1 find a6e0 k3 {}", r.is_some())); }
        { let key = e_6_1; let r = ecs_find!(world, key, |#[cfg(any(any(), not(all())))] p0: &CompC| { let mut line = String::new(); #[cfg(any(any(), not(all())))] line.push_str(&format!("c{} ", p0.0));  out.push(format!("w2 q1 call a6e1 {}", line)); }); out.push(format!("w2 q1 find a6e1 k0 {}", r.is_some())); }
        #[cfg(all(all(), not(any())))] #[cfg(not(any()))] { let key = e_8_0.into_any(); let r = ecs_find!(world, key, |#[cfg(any(any(), not(all())))] p0: &CompC| { let mut line = String::new(); #[cfg(any(any(), not(all())))] line.push_str(&format!("c{} ", p0.0));  out.push(format!("w2 q1 call a8e0 {}", line)); }); out.push(format!("w2 q1 find a8e0 k1 {}", r.is_some())); }
        #[cfg(all(all(), not(any())))] #[cfg(not(any()))] { let key = world.to_direct(e_8_1).unwrap(); let r = ecs_find!(world, key, |#[cfg(any(any(), not(all())))] p0: &CompC| { let mut line = String::new(); #[cfg(any(any(), not(all())))] line.push_str(&format!("c{} ", p0.0));  out.push(format!("w2 q1 call a8e1 {}", line)); }); out.push(format!("w2 q1 find a8e1 k2 {}", r.is_some())); }
        let _ = &mut world;
    }
}

pub mod w3 {
    use gecs::prelude::*;
    use super::comps::*;

    ecs_world! {
    ecs_name!(WorldAd);
        #[archetype_id(30)] ecs_archetype!(ArchA, #[cfg(not(all()))] CompD, CompA, CompC, #[cfg(any(any(), not(all())))] #[cfg(any())] CompF, #[cfg(any())] #[component_id(8)] CompH, #[cfg(not(any()))] CompI);
        ecs_archetype!(ArchB, CompF, #[cfg(all(all(), not(any())))] #[cfg(any())] CompH, #[cfg(all())] CompJ, #[cfg(not(any()))] #[cfg(not(all()))] CompB, CompA, CompG);
        ecs_archetype!(ArchC, #[component_id(238)] CompE, CompH);
        #[cfg(not(any()))] #[cfg(not(all()))] ecs_archetype!(ArchD, CompF, #[component_id(17)] CompH, #[cfg(all())] CompJ);
        #[archetype_id(5)] ecs_archetype!(ArchE, #[cfg(all(all(), not(any())))] CompG, #[cfg(not(any()))] #[cfg(not(any()))] CompA, CompD, #[cfg(not(all()))] CompF, CompC);
        #[cfg(all())] ecs_archetype!(ArchF, CompB, #[component_id(20)] CompH, CompG, #[cfg(not(all()))] CompC, #[cfg(not(all()))] CompI, CompF, #[component_id(39)] CompJ, #[cfg(all())] #[cfg(not(any()))] CompA, #[cfg(not(any()))] #[cfg(all(all(), not(any())))] #[component_id(15)] CompE);
        ecs_archetype!(ArchG, #[cfg(any())] #[component_id(233)] CompF, #[cfg(all())] CompG, #[cfg(any())] CompJ, #[cfg(all(all(), not(any())))] CompB);
        }

    pub fn run(out: &mut Vec<String>) {
        let mut world = WorldAd::new();
        let e_0_0 = world.create::<ArchA>((#[cfg(not(all()))] CompD(10103), CompA(10100), CompC(10102), #[cfg(any(any(), not(all())))] #[cfg(any())] CompF(10105), #[cfg(any())] CompH(10107), #[cfg(not(any()))] CompI(10108),));
        let e_0_1 = world.create::<ArchA>((#[cfg(not(all()))] CompD(10203), CompA(10200), CompC(10202), #[cfg(any(any(), not(all())))] #[cfg(any())] CompF(10205), #[cfg(any())] CompH(10207), #[cfg(not(any()))] CompI(10208),));
        let e_1_0 = world.create::<ArchB>((CompF(20105), #[cfg(all(all(), not(any())))] #[cfg(any())] CompH(20107), #[cfg(all())] CompJ(20109), #[cfg(not(any()))] #[cfg(not(all()))] CompB(20101), CompA(20100), CompG(20106),));
        let e_1_1 = world.create::<ArchB>((CompF(20205), #[cfg(all(all(), not(any())))] #[cfg(any())] CompH(20207), #[cfg(all())] CompJ(20209), #[cfg(not(any()))] #[cfg(not(all()))] CompB(20201), CompA(20200), CompG(20206),));
        let e_2_0 = world.create::<ArchC>((CompE(30104), CompH(30107),));
        let e_2_1 = world.create::<ArchC>((CompE(30204), CompH(30207),));
        let e_6_0 = world.create::<ArchG>((#[cfg(any())] CompF(70105), #[cfg(all())] CompG(70106), #[cfg(any())] CompJ(70109), #[cfg(all(all(), not(any())))] CompB(70101),));
        let e_6_1 = world.create::<ArchG>((#[cfg(any())] CompF(70205), #[cfg(all())] CompG(70206), #[cfg(any())] CompJ(70209), #[cfg(all(all(), not(any())))] CompB(70201),));
        out.push(format!("w3 id ArchA {}", <ArchA as Archetype>::ARCHETYPE_ID));
        #[cfg(all(not(all())))] out.push(format!("w3 cid ArchA CompD {} {}", <ArchA as ArchetypeHas<CompD>>::COMPONENT_ID, ecs_component_id!(CompD, ArchA)));
        #[cfg(all(not(all())))] { let mut seen = false; ecs_iter!(world, |_c: &CompD, _e: &Entity<ArchA>| { if !seen { seen = true; out.push(format!("w3 qcid ArchA CompD {}", ecs_component_id!(CompD))); } }); }
        out.push(format!("w3 cid ArchA CompA {} {}", <ArchA as ArchetypeHas<CompA>>::COMPONENT_ID, ecs_component_id!(CompA, ArchA)));
        { let mut seen = false; ecs_iter!(world, |_c: &CompA, _e: &Entity<ArchA>| { if !seen { seen = true; out.push(format!("w3 qcid ArchA CompA {}", ecs_component_id!(CompA))); } }); }
        out.push(format!("w3 cid ArchA CompC {} {}", <ArchA as ArchetypeHas<CompC>>::COMPONENT_ID, ecs_component_id!(CompC, ArchA)));
        { let mut seen = false; ecs_iter!(world, |_c: &CompC, _e: &Entity<ArchA>| { if !seen { seen = true; out.push(format!("w3 qcid ArchA CompC {}", ecs_component_id!(CompC))); } }); }
        #[cfg(all(any(any(), not(all())), any()))] out.push(format!("w3 cid ArchA CompF {} {}", <ArchA as ArchetypeHas<CompF>>::COMPONENT_ID, ecs_component_id!(CompF, ArchA)));
        #[cfg(all(any(any(), not(all())), any()))] { let mut seen = false; ecs_iter!(world, |_c: &CompF, _e: &Entity<ArchA>| { if !seen { seen = true; out.push(format!("w3 qcid ArchA CompF {}", ecs_component_id!(CompF))); } }); }
        #[cfg(all(any()))] out.push(format!("w3 cid ArchA CompH {} {}", <ArchA as ArchetypeHas<CompH>>::COMPONENT_ID, ecs_component_id!(CompH, ArchA)));
        #[cfg(all(any()))] { let mut seen = false; ecs_iter!(world, |_c: &CompH, _e: &Entity<ArchA>| { if !seen { seen = true; out.push(format!("w3 qcid ArchA CompH {}", ecs_component_id!(CompH))); } }); }
        #[cfg(all(not(any())))] out.push(format!("w3 cid ArchA CompI {} {}", <ArchA as ArchetypeHas<CompI>>::COMPONENT_ID, ecs_component_id!(CompI, ArchA)));
        #[cfg(all(not(any())))] { let mut seen = false; ecs_iter!(world, |_c: &CompI, _e: &Entity<ArchA>| { if !seen { seen = true; out.push(format!("w3 qcid ArchA CompI {}", ecs_component_id!(CompI))); } }); }
        out.push(format!("w3 hid ArchA {} {}", e_0_0.archetype_id(), e_0_0.into_any().archetype_id()));
        out.push(format!("w3 hid ArchA {} {}", e_0_1.archetype_id(), e_0_1.into_any().archetype_id()));
        out.push(format!("w3 len ArchA {}", world.archetype::<ArchA>().len()));
        out.push(format!("w3 id ArchB {}", <ArchB as Archetype>::ARCHETYPE_ID));
        out.push(format!("w3 cid ArchB CompF {} {}", <ArchB as ArchetypeHas<CompF>>::COMPONENT_ID, ecs_component_id!(CompF, ArchB)));
        { let mut seen = false; ecs_iter!(world, |_c: &CompF, _e: &Entity<ArchB>| { if !seen { seen = true; out.push(format!("w3 qcid ArchB CompF {}", ecs_component_id!(CompF))); } }); }
        #[cfg(all(all(all(), not(any())), any()))] out.push(format!("w3 cid ArchB CompH {} {}", <ArchB as ArchetypeHas<CompH>>::COMPONENT_ID, ecs_component_id!(CompH, ArchB)));
        #[cfg(all(all(all(), not(any())), any()))] { let mut seen = false; ecs_iter!(world, |_c: &CompH, _e: &Entity<ArchB>| { if !seen { seen = true; out.push(format!("w3 qcid ArchB CompH {}", ecs_component_id!(CompH))); } }); }
        #[cfg(all(all()))] out.push(format!("w3 cid ArchB CompJ {} {}", <ArchB as ArchetypeHas<CompJ>>::COMPONENT_ID, ecs_component_id!(CompJ, ArchB)));
        #[cfg(all(all()))] { let mut seen = false; ecs_iter!(world, |_c: &CompJ, _e: &Entity<ArchB>| { if !seen { seen = true; out.push(format!("w3 qcid ArchB CompJ {}", ecs_component_id!(CompJ))); } }); }
        #[cfg(all(not(any()), not(all())))] out.push(format!("w3 cid ArchB CompB {} {}", <ArchB as ArchetypeHas<CompB>>::COMPONENT_ID, ecs_component_id!(CompB, ArchB)));
        #[cfg(all(not(any()), not(all())))] { let mut seen = false; ecs_iter!(world, |_c: &CompB, _e: &Entity<ArchB>| { if !seen { seen = true; out.push(format!("w3 qcid ArchB CompB {}", ecs_component_id!(CompB))); } }); }
        out.push(format!("w3 cid ArchB CompA {} {}", <ArchB as ArchetypeHas<CompA>>::COMPONENT_ID, ecs_component_id!(CompA, ArchB)));
        { let mut seen = false; ecs_iter!(world, |_c: &CompA, _e: &Entity<ArchB>| { if !seen { seen = true; out.push(format!("w3 qcid ArchB CompA {}", ecs_component_id!(CompA))); } }); }
        out.push(format!("w3 cid ArchB CompG {} {}", <ArchB as ArchetypeHas<CompG>>::COMPONENT_ID, ecs_component_id!(CompG, ArchB)));
        { let mut seen = false; ecs_iter!(world, |_c: &CompG, _e: &Entity<ArchB>| { if !seen { seen = true; out.push(format!("w3 qcid ArchB CompG {}", ecs_component_id!(CompG))); } }); }
        out.push(format!("w3 hid ArchB {} {}", e_1_0.archetype_id(), e_1_0.into_any().archetype_id()));
        out.push(format!("w3 hid ArchB {} {}", e_1_1.archetype_id(), e_1_1.into_any().archetype_id()));
        out.push(format!("w3 len ArchB {}", world.archetype::<ArchB>().len()));
        out.push(format!("w3 id ArchC {}", <ArchC as Archetype>::ARCHETYPE_ID));
        out.push(format!("w3 cid ArchC CompE {} {}", <ArchC as ArchetypeHas<CompE>>::COMPONENT_ID, ecs_component_id!(CompE, ArchC)));
        { let mut seen = false; ecs_iter!(world, |_c: &CompE, _e: &Entity<ArchC>| { if !seen { seen = true; out.push(format!("w3 qcid ArchC CompE {}", ecs_component_id!(CompE))); } }); }
        out.push(format!("w3 cid ArchC CompH {} {}", <ArchC as ArchetypeHas<CompH>>::COMPONENT_ID, ecs_component_id!(CompH, ArchC)));
        { let mut seen = false; ecs_iter!(world, |_c: &CompH, _e: &Entity<ArchC>| { if !seen { seen = true; out.push(format!("w3 qcid ArchC CompH {}", ecs_component_id!(CompH))); } }); }
        out.push(format!("w3 hid ArchC {} {}", e_2_0.archetype_id(), e_2_0.into_any().archetype_id()));
        out.push(format!("w3 hid ArchC {} {}", e_2_1.archetype_id(), e_2_1.into_any().archetype_id()));
        out.push(format!("w3 len ArchC {}", world.archetype::<ArchC>().len()));
        #[cfg(not(any()))] #[cfg(not(all()))] out.push(format!("w3 id ArchD {}", <ArchD as Archetype>::ARCHETYPE_ID));
        #[cfg(all(not(any()), not(all())))] out.push(format!("w3 cid ArchD CompF {} {}", <ArchD as ArchetypeHas<CompF>>::COMPONENT_ID, ecs_component_id!(CompF, ArchD)));
        #[cfg(all(not(any()), not(all())))] out.push(format!("w3 cid ArchD CompH {} {}", <ArchD as ArchetypeHas<CompH>>::COMPONENT_ID, ecs_component_id!(CompH, ArchD)));
        #[cfg(all(not(any()), not(all()), all()))] out.push(format!("w3 cid ArchD CompJ {} {}", <ArchD as ArchetypeHas<CompJ>>::COMPONENT_ID, ecs_component_id!(CompJ, ArchD)));
        #[cfg(not(any()))] #[cfg(not(all()))] out.push(format!("w3 len ArchD {}", world.archetype::<ArchD>().len()));
        out.push(format!("w3 id ArchE {}", <ArchE as Archetype>::ARCHETYPE_ID));
        #[cfg(all(all(all(), not(any()))))] out.push(format!("w3 cid ArchE CompG {} {}", <ArchE as ArchetypeHas<CompG>>::COMPONENT_ID, ecs_component_id!(CompG, ArchE)));
        #[cfg(all(not(any()), not(any())))] out.push(format!("w3 cid ArchE CompA {} {}", <ArchE as ArchetypeHas<CompA>>::COMPONENT_ID, ecs_component_id!(CompA, ArchE)));
        out.push(format!("w3 cid ArchE CompD {} {}", <ArchE as ArchetypeHas<CompD>>::COMPONENT_ID, ecs_component_id!(CompD, ArchE)));
        #[cfg(all(not(all())))] out.push(format!("w3 cid ArchE CompF {} {}", <ArchE as ArchetypeHas<CompF>>::COMPONENT_ID, ecs_component_id!(CompF, ArchE)));
        out.push(format!("w3 cid ArchE CompC {} {}", <ArchE as ArchetypeHas<CompC>>::COMPONENT_ID, ecs_component_id!(CompC, ArchE)));
        out.push(format!("w3 len ArchE {}", world.archetype::<ArchE>().len()));
        #[cfg(all())] out.push(format!("w3 id ArchF {}", <ArchF as Archetype>::ARCHETYPE_ID));
        #[cfg(all(all()))] out.push(format!("w3 cid ArchF CompB {} {}", <ArchF as ArchetypeHas<CompB>>::COMPONENT_ID, ecs_component_id!(CompB, ArchF)));
        #[cfg(all(all()))] out.push(format!("w3 cid ArchF CompH {} {}", <ArchF as ArchetypeHas<CompH>>::COMPONENT_ID, ecs_component_id!(CompH, ArchF)));
        #[cfg(all(all()))] out.push(format!("w3 cid ArchF CompG {} {}", <ArchF as ArchetypeHas<CompG>>::COMPONENT_ID, ecs_component_id!(CompG, ArchF)));
        #[cfg(all(all(), not(all())))] out.push(format!("w3 cid ArchF CompC {} {}", <ArchF as ArchetypeHas<CompC>>::COMPONENT_ID, ecs_component_id!(CompC, ArchF)));
        #[cfg(all(all(), not(all())))] out.push(format!("w3 cid ArchF CompI {} {}", <ArchF as ArchetypeHas<CompI>>::COMPONENT_ID, ecs_component_id!(CompI, ArchF)));
        #[cfg(all(all()))] out.push(format!("w3 cid ArchF CompF {} {}", <ArchF as ArchetypeHas<CompF>>::COMPONENT_ID, ecs_component_id!(CompF, ArchF)));
        #[cfg(all(all()))] out.push(format!("w3 cid ArchF CompJ {} {}", <ArchF as ArchetypeHas<CompJ>>::COMPONENT_ID, ecs_component_id!(CompJ, ArchF)));
        #[cfg(all(all(), all(), not(any())))] out.push(format!("w3 cid ArchF CompA {} {}", <ArchF as ArchetypeHas<CompA>>::COMPONENT_ID, ecs_component_id!(CompA, ArchF)));
        #[cfg(all(all(), not(any()), all(all(), not(any()))))] out.push(format!("w3 cid ArchF CompE {} {}", <ArchF as ArchetypeHas<CompE>>::COMPONENT_ID, ecs_component_id!(CompE, ArchF)));
        #[cfg(all())] out.push(format!("w3 len ArchF {}", world.archetype::<ArchF>().len()));
        out.push(format!("w3 id ArchG {}", <ArchG as Archetype>::ARCHETYPE_ID));
        #[cfg(all(any()))] out.push(format!("w3 cid ArchG CompF {} {}", <ArchG as ArchetypeHas<CompF>>::COMPONENT_ID, ecs_component_id!(CompF, ArchG)));
        #[cfg(all(any()))] { let mut seen = false; ecs_iter!(world, |_c: &CompF, _e: &Entity<ArchG>| { if !seen { seen = true; out.push(format!("w3 qcid ArchG CompF {}", ecs_component_id!(CompF))); } }); }
        #[cfg(all(all()))] out.push(format!("w3 cid ArchG CompG {} {}", <ArchG as ArchetypeHas<CompG>>::COMPONENT_ID, ecs_component_id!(CompG, ArchG)));
        #[cfg(all(all()))] { let mut seen = false; ecs_iter!(world, |_c: &CompG, _e: &Entity<ArchG>| { if !seen { seen = true; out.push(format!("w3 qcid ArchG CompG {}", ecs_component_id!(CompG))); } }); }
        #[cfg(all(any()))] out.push(format!("w3 cid ArchG CompJ {} {}", <ArchG as ArchetypeHas<CompJ>>::COMPONENT_ID, ecs_component_id!(CompJ, ArchG)));
        #[cfg(all(any()))] { let mut seen = false; ecs_iter!(world, |_c: &CompJ, _e: &Entity<ArchG>| { if !seen { seen = true; out.push(format!("w3 qcid ArchG CompJ {}", ecs_component_id!(CompJ))); } }); }
        #[cfg(all(all(all(), not(any()))))] out.push(format!("w3 cid ArchG CompB {} {}", <ArchG as ArchetypeHas<CompB>>::COMPONENT_ID, ecs_component_id!(CompB, ArchG)));
        #[cfg(all(all(all(), not(any()))))] { let mut seen = false; ecs_iter!(world, |_c: &CompB, _e: &Entity<ArchG>| { if !seen { seen = true; out.push(format!("w3 qcid ArchG CompB {}", ecs_component_id!(CompB))); } }); }
        out.push(format!("w3 hid ArchG {} {}", e_6_0.archetype_id(), e_6_0.into_any().archetype_id()));
        out.push(format!("w3 hid ArchG {} {}", e_6_1.archetype_id(), e_6_1.into_any().archetype_id()));
        out.push(format!("w3 len ArchG {}", world.archetype::<ArchG>().len()));
        for id in 0..=255u8 { if let Ok(sel) = SelectArchetype::try_from(id) { out.push(format!("w3 sel {} {}", id, sel.archetype_id())); } }
        ecs_iter_borrow!(world, || { let mut line = String::new();  out.push(format!("w3 q0 visit {}", line)); });
        ecs_iter_destroy!(world, || { let mut line = String::new();  out.push(format!("w3 q1 visit {}", line)); });
        let _ = &mut world;
    }
}

pub mod w4 {
    use gecs::prelude::*;
    use super::comps::*;

    ecs_world! {
    ecs_name!(WorldAe);
        ecs_archetype!(ArchA, CompG, CompA, #[cfg(not(any()))] CompC, #[cfg(all(all(), not(any())))] #[cfg(any())] CompE, #[cfg(any(any(), not(all())))] #[component_id(0)] CompD, #[component_id(9)] CompB);
        #[cfg(all())] #[cfg(any(any(), not(all())))] ecs_archetype!(ArchB, #[component_id(15)] CompE, #[cfg(not(any()))] CompF, #[cfg(any(any(), not(all())))] #[cfg(any())] CompG, CompC, CompA, #[cfg(any())] CompB);
        ecs_archetype!(ArchC, #[cfg(all(all(), not(any())))] CompH, CompD, #[cfg(any(any(), not(all())))] #[cfg(any(any(), not(all())))] CompB, #[component_id(11)] CompC, CompJ, CompE, #[component_id(5)] CompI, CompF, #[component_id(9)] CompG);
        }

    pub fn run(out: &mut Vec<String>) {
        let mut world = WorldAe::new();
        let e_0_0 = world.create::<ArchA>((CompG(10106), CompA(10100), #[cfg(not(any()))] CompC(10102), #[cfg(all(all(), not(any())))] #[cfg(any())] CompE(10104), #[cfg(any(any(), not(all())))] CompD(10103), CompB(10101),));
        let e_0_1 = world.create::<ArchA>((CompG(10206), CompA(10200), #[cfg(not(any()))] CompC(10202), #[cfg(all(all(), not(any())))] #[cfg(any())] CompE(10204), #[cfg(any(any(), not(all())))] CompD(10203), CompB(10201),));
        let e_2_0 = world.create::<ArchC>((#[cfg(all(all(), not(any())))] CompH(30107), CompD(30103), #[cfg(any(any(), not(all())))] #[cfg(any(any(), not(all())))] CompB(30101), CompC(30102), CompJ(30109), CompE(30104), CompI(30108), CompF(30105), CompG(30106),));
        let e_2_1 = world.create::<ArchC>((#[cfg(all(all(), not(any())))] CompH(30207), CompD(30203), #[cfg(any(any(), not(all())))] #[cfg(any(any(), not(all())))] CompB(30201), CompC(30202), CompJ(30209), CompE(30204), CompI(30208), CompF(30205), CompG(30206),));
        out.push(format!("w4 id ArchA {}", <ArchA as Archetype>::ARCHETYPE_ID));
        out.push(format!("w4 cid ArchA CompG {} {}", <ArchA as ArchetypeHas<CompG>>::COMPONENT_ID, ecs_component_id!(CompG, ArchA)));
        { let mut seen = false; ecs_iter!(world, |_c: &CompG, _e: &Entity<ArchA>| { if !seen { seen = true; out.push(format!("w4 qcid ArchA CompG {}", ecs_component_id!(CompG))); } }); }
        out.push(format!("w4 cid ArchA CompA {} {}", <ArchA as ArchetypeHas<CompA>>::COMPONENT_ID, ecs_component_id!(CompA, ArchA)));
        { let mut seen = false; ecs_iter!(world, |_c: &CompA, _e: &Entity<ArchA>| { if !seen { seen = true; out.push(format!("w4 qcid ArchA CompA {}", ecs_component_id!(CompA))); } }); }
        #[cfg(all(not(any())))] out.push(format!("w4 cid ArchA CompC {} {}", <ArchA as ArchetypeHas<CompC>>::COMPONENT_ID, ecs_component_id!(CompC, ArchA)));
        #[cfg(all(not(any())))] { let mut seen = false; ecs_iter!(world, |_c: &CompC, _e: &Entity<ArchA>| { if !seen { seen = true; out.push(format!("w4 qcid ArchA CompC {}", ecs_component_id!(CompC))); } }); }
        #[cfg(all(all(all(), not(any())), any()))] out.push(format!("w4 cid ArchA CompE {} {}", <ArchA as ArchetypeHas<CompE>>::COMPONENT_ID, ecs_component_id!(CompE, ArchA)));
        #[cfg(all(all(all(), not(any())), any()))] { let mut seen = false; ecs_iter!(world, |_c: &CompE, _e: &Entity<ArchA>| { if !seen { seen = true; out.push(format!("w4 qcid ArchA CompE {}", ecs_component_id!(CompE))); } }); }
        #[cfg(all(any(any(), not(all()))))] out.push(format!("w4 cid ArchA CompD {} {}", <ArchA as ArchetypeHas<CompD>>::COMPONENT_ID, ecs_component_id!(CompD, ArchA)));
        #[cfg(all(any(any(), not(all()))))] { let mut seen = false; ecs_iter!(world, |_c: &CompD, _e: &Entity<ArchA>| { if !seen { seen = true; out.push(format!("w4 qcid ArchA CompD {}", ecs_component_id!(CompD))); } }); }
        out.push(format!("w4 cid ArchA CompB {} {}", <ArchA as ArchetypeHas<CompB>>::COMPONENT_ID, ecs_component_id!(CompB, ArchA)));
        { let mut seen = false; ecs_iter!(world, |_c: &CompB, _e: &Entity<ArchA>| { if !seen { seen = true; out.push(format!("w4 qcid ArchA CompB {}", ecs_component_id!(CompB))); } }); }
        out.push(format!("w4 hid ArchA {} {}", e_0_0.archetype_id(), e_0_0.into_any().archetype_id()));
        out.push(format!("w4 hid ArchA {} {}", e_0_1.archetype_id(), e_0_1.into_any().archetype_id()));
        out.push(format!("w4 len ArchA {}", world.archetype::<ArchA>().len()));
        #[cfg(all())] #[cfg(any(any(), not(all())))] out.push(format!("w4 id ArchB {}", <ArchB as Archetype>::ARCHETYPE_ID));
        #[cfg(all(all(), any(any(), not(all()))))] out.push(format!("w4 cid ArchB CompE {} {}", <ArchB as ArchetypeHas<CompE>>::COMPONENT_ID, ecs_component_id!(CompE, ArchB)));
        #[cfg(all(all(), any(any(), not(all())), not(any())))] out.push(format!("w4 cid ArchB CompF {} {}", <ArchB as ArchetypeHas<CompF>>::COMPONENT_ID, ecs_component_id!(CompF, ArchB)));
        #[cfg(all(all(), any(any(), not(all())), any(any(), not(all())), any()))] out.push(format!("w4 cid ArchB CompG {} {}", <ArchB as ArchetypeHas<CompG>>::COMPONENT_ID, ecs_component_id!(CompG, ArchB)));
        #[cfg(all(all(), any(any(), not(all()))))] out.push(format!("w4 cid ArchB CompC {} {}", <ArchB as ArchetypeHas<CompC>>::COMPONENT_ID, ecs_component_id!(CompC, ArchB)));
        #[cfg(all(all(), any(any(), not(all()))))] out.push(format!("w4 cid ArchB CompA {} {}", <ArchB as ArchetypeHas<CompA>>::COMPONENT_ID, ecs_component_id!(CompA, ArchB)));
        #[cfg(all(all(), any(any(), not(all())), any()))] out.push(format!("w4 cid ArchB CompB {} {}", <ArchB as ArchetypeHas<CompB>>::COMPONENT_ID, ecs_component_id!(CompB, ArchB)));
        #[cfg(all())] #[cfg(any(any(), not(all())))] out.push(format!("w4 len ArchB {}", world.archetype::<ArchB>().len()));
        out.push(format!("w4 id ArchC {}", <ArchC as Archetype>::ARCHETYPE_ID));
        #[cfg(all(all(all(), not(any()))))] out.push(format!("w4 cid ArchC CompH {} {}", <ArchC as ArchetypeHas<CompH>>::COMPONENT_ID, ecs_component_id!(CompH, ArchC)));
        #[cfg(all(all(all(), not(any()))))] { let mut seen = false; ecs_iter!(world, |_c: &CompH, _e: &Entity<ArchC>| { if !seen { seen = true; out.push(format!("w4 qcid ArchC CompH {}", ecs_component_id!(CompH))); } }); }
        out.push(format!("w4 cid ArchC CompD {} {}", <ArchC as ArchetypeHas<CompD>>::COMPONENT_ID, ecs_component_id!(CompD, ArchC)));
        { let mut seen = false; ecs_iter!(world, |_c: &CompD, _e: &Entity<ArchC>| { if !seen { seen = true; out.push(format!("w4 qcid ArchC CompD {}", ecs_component_id!(CompD))); } }); }
        #[cfg(all(any(any(), not(all())), any(any(), not(all()))))] out.push(format!("w4 cid ArchC CompB {} {}", <ArchC as ArchetypeHas<CompB>>::COMPONENT_ID, ecs_component_id!(CompB, ArchC)));
        #[cfg(all(any(any(), not(all())), any(any(), not(all()))))] { let mut seen = false; ecs_iter!(world, |_c: &CompB, _e: &Entity<ArchC>| { if !seen { seen = true; out.push(format!("w4 qcid ArchC CompB {}", ecs_component_id!(CompB))); } }); }
        out.push(format!("w4 cid ArchC CompC {} {}", <ArchC as ArchetypeHas<CompC>>::COMPONENT_ID, ecs_component_id!(CompC, ArchC)));
        { let mut seen = false; ecs_iter!(world, |_c: &CompC, _e: &Entity<ArchC>| { if !seen { seen = true; out.push(format!("w4 qcid ArchC CompC {}", ecs_component_id!(CompC))); } }); }
        out.push(format!("w4 cid ArchC CompJ {} {}", <ArchC as ArchetypeHas<CompJ>>::COMPONENT_ID, ecs_component_id!(CompJ, ArchC)));
        { let mut seen = false; ecs_iter!(world, |_c: &CompJ, _e: &Entity<ArchC>| { if !seen { seen = true; out.push(format!("w4 qcid ArchC CompJ {}", ecs_component_id!(CompJ))); } }); }
        out.push(format!("w4 cid ArchC CompE {} {}", <ArchC as ArchetypeHas<CompE>>::COMPONENT_ID, ecs_component_id!(CompE, ArchC)));
        { let mut seen = false; ecs_iter!(world, |_c: &CompE, _e: &Entity<ArchC>| { if !seen { seen = true; out.push(format!("w4 qcid ArchC CompE {}", ecs_component_id!(CompE))); } }); }
        out.push(format!("w4 cid ArchC CompI {} {}", <ArchC as ArchetypeHas<CompI>>::COMPONENT_ID, ecs_component_id!(CompI, ArchC)));
        { let mut seen = false; ecs_iter!(world, |_c: &CompI, _e: &Entity<ArchC>| { if !seen { seen = true; out.push(format!("w4 qcid ArchC CompI {}", ecs_component_id!(CompI))); } }); }
        out.push(format!("w4 cid ArchC CompF {} {}", <ArchC as ArchetypeHas<CompF>>::COMPONENT_ID, ecs_component_id!(CompF, ArchC)));
        { let mut seen = false; ecs_iter!(world, |_c: &CompF, _e: &Entity<ArchC>| { if !seen { seen = true; out.push(format!("w4 qcid ArchC CompF {}", ecs_component_id!(CompF))); } }); }
        out.push(format!("w4 cid ArchC CompG {} {}", <ArchC as ArchetypeHas<CompG>>::COMPONENT_ID, ecs_component_id!(CompG, ArchC)));
        { let mut seen = false; ecs_iter!(world, |_c: &CompG, _e: &Entity<ArchC>| { if !seen { seen = true; out.push(format!("w4 qcid ArchC CompG {}", ecs_component_id!(CompG))); } }); }
        out.push(format!("w4 hid ArchC {} {}", e_2_0.archetype_id(), e_2_0.into_any().archetype_id()));
        out.push(format!("w4 hid ArchC {} {}", e_2_1.archetype_id(), e_2_1.into_any().archetype_id()));
        out.push(format!("w4 len ArchC {}", world.archetype::<ArchC>().len()));
        for id in 0..=255u8 { if let Ok(sel) = SelectArchetype::try_from(id) { out.push(format!("w4 sel {} {}", id, sel.archetype_id())); } }
        ecs_iter!(world, |#[cfg(all(all(), not(any())))] p0: &mut CompE| { let mut line = String::new(); #[cfg(all(all(), not(any())))] line.push_str(&format!("c{} ", p0.0));  out.push(format!("w4 q0 visit {}", line)); });
        let _ = &mut world;
    }
}

pub mod w5 {
    use gecs::prelude::*;
    use super::comps::*;

    ecs_world! {
    ecs_name!(WorldAf);
        ecs_archetype!(ArchA, CompH);
        #[archetype_id(36)] ecs_archetype!(ArchB, CompH, CompE, CompJ, CompA, #[cfg(any())] CompI, #[cfg(any(any(), not(all())))] CompG, #[cfg(not(all()))] CompC, CompD, CompF);
        ecs_archetype!(ArchC, #[component_id(5)] CompJ);
        #[archetype_id(1)] ecs_archetype!(ArchD, #[cfg(all())] CompC, #[component_id(2)] CompJ, #[component_id(204)] CompI, #[component_id(34)] CompG, #[cfg(all())] #[component_id(4)] CompA, CompF, CompB, #[cfg(not(any()))] CompE);
        #[cfg(not(all()))] ecs_archetype!(ArchE, #[component_id(21)] CompF, #[cfg(all())] #[component_id(217)] CompJ, CompE, #[cfg(not(any()))] #[cfg(not(any()))] CompH, #[cfg(all(all(), not(any())))] #[cfg(not(all()))] CompI, CompA, CompB, CompG, CompD, #[cfg(all())] #[cfg(all())] CompC);
        }

    pub fn run(out: &mut Vec<String>) {
        let mut world = WorldAf::new();
        let e_1_0 = world.create::<ArchB>((CompH(20107), CompE(20104), CompJ(20109), CompA(20100), #[cfg(any())] CompI(20108), #[cfg(any(any(), not(all())))] CompG(20106), #[cfg(not(all()))] CompC(20102), CompD(20103), CompF(20105),));
        let e_1_1 = world.create::<ArchB>((CompH(20207), CompE(20204), CompJ(20209), CompA(20200), #[cfg(any())] CompI(20208), #[cfg(any(any(), not(all())))] CompG(20206), #[cfg(not(all()))] CompC(20202), CompD(20203), CompF(20205),));
        let e_3_0 = world.create::<ArchD>((#[cfg(all())] CompC(40102), CompJ(40109), CompI(40108), CompG(40106), #[cfg(all())] CompA(40100), CompF(40105), CompB(40101), #[cfg(not(any()))] CompE(40104),));
        let e_3_1 = world.create::<ArchD>((#[cfg(all())] CompC(40202), CompJ(40209), CompI(40208), CompG(40206), #[cfg(all())] CompA(40200), CompF(40205), CompB(40201), #[cfg(not(any()))] CompE(40204),));
        #[cfg(not(all()))] let e_4_0 = world.create::<ArchE>((CompF(50105), #[cfg(all())] CompJ(50109), CompE(50104), #[cfg(not(any()))] #[cfg(not(any()))] CompH(50107), #[cfg(all(all(), not(any())))] #[cfg(not(all()))] CompI(50108), CompA(50100), CompB(50101), CompG(50106), CompD(50103), #[cfg(all())] #[cfg(all())] CompC(50102),));
        #[cfg(not(all()))] let e_4_1 = world.create::<ArchE>((CompF(50205), #[cfg(all())] CompJ(50209), CompE(50204), #[cfg(not(any()))] #[cfg(not(any()))] CompH(50207), #[cfg(all(all(), not(any())))] #[cfg(not(all()))] CompI(50208), CompA(50200), CompB(50201), CompG(50206), CompD(50203), #[cfg(all())] #[cfg(all())] CompC(50202),));
        out.push(format!("w5 id ArchA {}", <ArchA as Archetype>::ARCHETYPE_ID));
        out.push(format!("w5 cid ArchA CompH {} {}", <ArchA as ArchetypeHas<CompH>>::COMPONENT_ID, ecs_component_id!(CompH, ArchA)));
        out.push(format!("w5 len ArchA {}", world.archetype::<ArchA>().len()));
        out.push(format!("w5 id ArchB {}", <ArchB as Archetype>::ARCHETYPE_ID));
        out.push(format!("w5 cid ArchB CompH {} {}", <ArchB as ArchetypeHas<CompH>>::COMPONENT_ID, ecs_component_id!(CompH, ArchB)));
        { let mut seen = false; ecs_iter!(world, |_c: &CompH, _e: &Entity<ArchB>| { if !seen { seen = true; out.push(format!("w5 qcid ArchB CompH {}", ecs_component_id!(CompH))); } }); }
        out.push(format!("w5 cid ArchB CompE {} {}", <ArchB as ArchetypeHas<CompE>>::COMPONENT_ID, ecs_component_id!(CompE, ArchB)));
        { let mut seen = false; ecs_iter!(world, |_c: &CompE, _e: &Entity<ArchB>| { if !seen { seen = true; out.push(format!("w5 qcid ArchB CompE {}", ecs_component_id!(CompE))); } }); }
        out.push(format!("w5 cid ArchB CompJ {} {}", <ArchB as ArchetypeHas<CompJ>>::COMPONENT_ID, ecs_component_id!(CompJ, ArchB)));
        { let mut seen = false; ecs_iter!(world, |_c: &CompJ, _e: &Entity<ArchB>| { if !seen { seen = true; out.push(format!("w5 qcid ArchB CompJ {}", ecs_component_id!(CompJ))); } }); }
        out.push(format!("w5 cid ArchB CompA {} {}", <ArchB as ArchetypeHas<CompA>>::COMPONENT_ID, ecs_component_id!(CompA, ArchB)));
        { let mut seen = false; ecs_iter!(world, |_c: &CompA, _e: &Entity<ArchB>| { if !seen { seen = true; out.push(format!("w5 qcid ArchB CompA {}", ecs_component_id!(CompA))); } }); }
        #[cfg(all(any()))] out.push(format!("w5 cid ArchB CompI {} {}", <ArchB as ArchetypeHas<CompI>>::COMPONENT_ID, ecs_component_id!(CompI, ArchB)));
        #[cfg(all(any()))] { let mut seen = false; ecs_iter!(world, |_c: &CompI, _e: &Entity<ArchB>| { if !seen { seen = true; out.push(format!("w5 qcid ArchB CompI {}", ecs_component_id!(CompI))); } }); }
        #[cfg(all(any(any(), not(all()))))] out.push(format!("w5 cid ArchB CompG {} {}", <ArchB as ArchetypeHas<CompG>>::COMPONENT_ID, ecs_component_id!(CompG, ArchB)));
        #[cfg(all(any(any(), not(all()))))] { let mut seen = false; ecs_iter!(world, |_c: &CompG, _e: &Entity<ArchB>| { if !seen { seen = true; out.push(format!("w5 qcid ArchB CompG {}", ecs_component_id!(CompG))); } }); }
        #[cfg(all(not(all())))] out.push(format!("w5 cid ArchB CompC {} {}", <ArchB as ArchetypeHas<CompC>>::COMPONENT_ID, ecs_component_id!(CompC, ArchB)));
        #[cfg(all(not(all())))] { let mut seen = false; ecs_iter!(world, |_c: &CompC, _e: &Entity<ArchB>| { if !seen { seen = true; out.push(format!("w5 qcid ArchB CompC {}", ecs_component_id!(CompC))); } }); }
        out.push(format!("w5 cid ArchB CompD {} {}", <ArchB as ArchetypeHas<CompD>>::COMPONENT_ID, ecs_component_id!(CompD, ArchB)));
        { let mut seen = false; ecs_iter!(world, |_c: &CompD, _e: &Entity<ArchB>| { if !seen { seen = true; out.push(format!("w5 qcid ArchB CompD {}", ecs_component_id!(CompD))); } }); }
        out.push(format!("w5 cid ArchB CompF {} {}", <ArchB as ArchetypeHas<CompF>>::COMPONENT_ID, ecs_component_id!(CompF, ArchB)));
        { let mut seen = false; ecs_iter!(world, |_c: &CompF, _e: &Entity<ArchB>| { if !seen { seen = true; out.push(format!("w5 qcid ArchB CompF {}", ecs_component_id!(CompF))); } }); }
        out.push(format!("w5 hid ArchB {} {}", e_1_0.archetype_id(), e_1_0.into_any().archetype_id()));
        out.push(format!("w5 hid ArchB {} {}", e_1_1.archetype_id(), e_1_1.into_any().archetype_id()));
        out.push(format!("w5 len ArchB {}", world.archetype::<ArchB>().len()));
        out.push(format!("w5 id ArchC {}", <ArchC as Archetype>::ARCHETYPE_ID));
        out.push(format!("w5 cid ArchC CompJ {} {}", <ArchC as ArchetypeHas<CompJ>>::COMPONENT_ID, ecs_component_id!(CompJ, ArchC)));
        out.push(format!("w5 len ArchC {}", world.archetype::<ArchC>().len()));
        out.push(format!("w5 id ArchD {}", <ArchD as Archetype>::ARCHETYPE_ID));
        #[cfg(all(all()))] out.push(format!("w5 cid ArchD CompC {} {}", <ArchD as ArchetypeHas<CompC>>::COMPONENT_ID, ecs_component_id!(CompC, ArchD)));
        #[cfg(all(all()))] { let mut seen = false; ecs_iter!(world, |_c: &CompC, _e: &Entity<ArchD>| { if !seen { seen = true; out.push(format!("w5 qcid ArchD CompC {}", ecs_component_id!(CompC))); } }); }
        out.push(format!("w5 cid ArchD CompJ {} {}", <ArchD as ArchetypeHas<CompJ>>::COMPONENT_ID, ecs_component_id!(CompJ, ArchD)));
        { let mut seen = false; ecs_iter!(world, |_c: &CompJ, _e: &Entity<ArchD>| { if !seen { seen = true; out.push(format!("w5 qcid ArchD CompJ {}", ecs_component_id!(CompJ))); } }); }
        out.push(format!("w5 cid ArchD CompI {} {}", <ArchD as ArchetypeHas<CompI>>::COMPONENT_ID, ecs_component_id!(CompI, ArchD)));
        { let mut seen = false; ecs_iter!(world, |_c: &CompI, _e: &Entity<ArchD>| { if !seen { seen = true; out.push(format!("w5 qcid ArchD CompI {}", ecs_component_id!(CompI))); } }); }
        out.push(format!("w5 cid ArchD CompG {} {}", <ArchD as ArchetypeHas<CompG>>::COMPONENT_ID, ecs_component_id!(CompG, ArchD)));
        { let mut seen = false; ecs_iter!(world, |_c: &CompG, _e: &Entity<ArchD>| { if !seen { seen = true; out.push(format!("w5 qcid ArchD CompG {}", ecs_component_id!(CompG))); } }); }
        #[cfg(all(all()))] out.push(format!("w5 cid ArchD CompA {} {}", <ArchD as ArchetypeHas<CompA>>::COMPONENT_ID, ecs_component_id!(CompA, ArchD)));
        #[cfg(all(all()))] { let mut seen = false; ecs_iter!(world, |_c: &CompA, _e: &Entity<ArchD>| { if !seen { seen = true; out.push(format!("w5 qcid ArchD CompA {}", ecs_component_id!(CompA))); } }); }
        out.push(format!("w5 cid ArchD CompF {} {}", <ArchD as ArchetypeHas<CompF>>::COMPONENT_ID, ecs_component_id!(CompF, ArchD)));
        { let mut seen = false; ecs_iter!(world, |_c: &CompF, _e: &Entity<ArchD>| { if !seen { seen = true; out.push(format!("w5 qcid ArchD CompF {}", ecs_component_id!(CompF))); } }); }
        out.push(format!("w5 cid ArchD CompB {} {}", <ArchD as ArchetypeHas<CompB>>::COMPONENT_ID, ecs_component_id!(CompB, ArchD)));
        { let mut seen = false; ecs_iter!(world, |_c: &CompB, _e: &Entity<ArchD>| { if !seen { seen = true; out.push(format!("w5 qcid ArchD CompB {}", ecs_component_id!(CompB))); } }); }
        #[cfg(all(not(any())))] out.push(format!("w5 cid ArchD CompE {} {}", <ArchD as ArchetypeHas<CompE>>::COMPONENT_ID, ecs_component_id!(CompE, ArchD)));
        #[cfg(all(not(any())))] { let mut seen = false; ecs_iter!(world, |_c: &CompE, _e: &Entity<ArchD>| { if !seen { seen = true; out.push(format!("w5 qcid ArchD CompE {}", ecs_component_id!(CompE))); } }); }
        out.push(format!("w5 hid ArchD {} {}", e_3_0.archetype_id(), e_3_0.into_any().archetype_id()));
        out.push(format!("w5 hid ArchD {} {}", e_3_1.archetype_id(), e_3_1.into_any().archetype_id()));
        out.push(format!("w5 len ArchD {}", world.archetype::<ArchD>().len()));
        #[cfg(not(all()))] out.push(format!("w5 id ArchE {}", <ArchE as Archetype>::ARCHETYPE_ID));
        #[cfg(all(not(all())))] out.push(format!("w5 cid ArchE CompF {} {}", <ArchE as ArchetypeHas<CompF>>::COMPONENT_ID, ecs_component_id!(CompF, ArchE)));
        #[cfg(all(not(all())))] { let mut seen = false; ecs_iter!(world, |_c: &CompF, _e: &Entity<ArchE>| { if !seen { seen = true; out.push(format!("w5 qcid ArchE CompF {}", ecs_component_id!(CompF))); } }); }
        #[cfg(all(not(all()), all()))] out.push(format!("w5 cid ArchE CompJ {} {}", <ArchE as ArchetypeHas<CompJ>>::COMPONENT_ID, ecs_component_id!(CompJ, ArchE)));
        #[cfg(all(not(all()), all()))] { let mut seen = false; ecs_iter!(world, |_c: &CompJ, _e: &Entity<ArchE>| { if !seen { seen = true; out.push(format!("w5 qcid ArchE CompJ {}", ecs_component_id!(CompJ))); } }); }
        #[cfg(all(not(all())))] out.push(format!("w5 cid ArchE CompE {} {}", <ArchE as ArchetypeHas<CompE>>::COMPONENT_ID, ecs_component_id!(CompE, ArchE)));
        #[cfg(all(not(all())))] { let mut seen = false; ecs_iter!(world, |_c: &CompE, _e: &Entity<ArchE>| { if !seen { seen = true; out.push(format!("w5 qcid ArchE CompE {}", ecs_component_id!(CompE))); } }); }
        #[cfg(all(not(all()), not(any()), not(any())))] out.push(format!("w5 cid ArchE CompH {} {}", <ArchE as ArchetypeHas<CompH>>::COMPONENT_ID, ecs_component_id!(CompH, ArchE)));
        #[cfg(all(not(all()), not(any()), not(any())))] { let mut seen = false; ecs_iter!(world, |_c: &CompH, _e: &Entity<ArchE>| { if !seen { seen = true; out.push(format!("w5 qcid ArchE CompH {}", ecs_component_id!(CompH))); } }); }
        #[cfg(all(not(all()), all(all(), not(any())), not(all())))] out.push(format!("w5 cid ArchE CompI {} {}", <ArchE as ArchetypeHas<CompI>>::COMPONENT_ID, ecs_component_id!(CompI, ArchE)));
        #[cfg(all(not(all()), all(all(), not(any())), not(all())))] { let mut seen = false; ecs_iter!(world, |_c: &CompI, _e: &Entity<ArchE>| { if !seen { seen = true; out.push(format!("w5 qcid ArchE CompI {}", ecs_component_id!(CompI))); } }); }
        #[cfg(all(not(all())))] out.push(format!("w5 cid ArchE CompA {} {}", <ArchE as ArchetypeHas<CompA>>::COMPONENT_ID, ecs_component_id!(CompA, ArchE)));
        #[cfg(all(not(all())))] { let mut seen = false; ecs_iter!(world, |_c: &CompA, _e: &Entity<ArchE>| { if !seen { seen = true; out.push(format!("w5 qcid ArchE CompA {}", ecs_component_id!(CompA))); } }); }
        #[cfg(all(not(all())))] out.push(format!("w5 cid ArchE CompB {} {}", <ArchE as ArchetypeHas<CompB>>::COMPONENT_ID, ecs_component_id!(CompB, ArchE)));
        #[cfg(all(not(all())))] { let mut seen = false; ecs_iter!(world, |_c: &CompB, _e: &Entity<ArchE>| { if !seen { seen = true; out.push(format!("w5 qcid ArchE CompB {}", ecs_component_id!(CompB))); } }); }
        #[cfg(all(not(all())))] out.push(format!("w5 cid ArchE CompG {} {}", <ArchE as ArchetypeHas<CompG>>::COMPONENT_ID, ecs_component_id!(CompG, ArchE)));
        #[cfg(all(not(all())))] { let mut seen = false; ecs_iter!(world, |_c: &CompG, _e: &Entity<ArchE>| { if !seen { seen = true; out.push(format!("w5 qcid ArchE CompG {}", ecs_component_id!(CompG))); } }); }
        #[cfg(all(not(all())))] out.push(format!("w5 cid ArchE CompD {} {}", <ArchE as ArchetypeHas<CompD>>::COMPONENT_ID, ecs_component_id!(CompD, ArchE)));
        #[cfg(all(not(all())))] { let mut seen = false; ecs_iter!(world, |_c: &CompD, _e: &Entity<ArchE>| { if !seen { seen = true; out.push(format!("w5 qcid ArchE CompD {}", ecs_component_id!(CompD))); } }); }
        #[cfg(all(not(all()), all(), all()))] out.push(format!("w5 cid ArchE CompC {} {}", <ArchE as ArchetypeHas<CompC>>::COMPONENT_ID, ecs_component_id!(CompC, ArchE)));
        #[cfg(all(not(all()), all(), all()))] { let mut seen = false; ecs_iter!(world, |_c: &CompC, _e: &Entity<ArchE>| { if !seen { seen = true; out.push(format!("w5 qcid ArchE CompC {}", ecs_component_id!(CompC))); } }); }
        #[cfg(not(all()))] out.push(format!("w5 hid ArchE {} {}", e_4_0.archetype_id(), e_4_0.into_any().archetype_id()));
        #[cfg(not(all()))] out.push(format!("w5 hid ArchE {} {}", e_4_1.archetype_id(), e_4_1.into_any().archetype_id()));
        #[cfg(not(all()))] out.push(format!("w5 len ArchE {}", world.archetype::<ArchE>().len()));
        for id in 0..=255u8 { if let Ok(sel) = SelectArchetype::try_from(id) { out.push(format!("w5 sel {} {}", id, sel.archetype_id())); } }
        ecs_iter_borrow!(world, |p0: &EntityDirect<ArchD>| { let mut line = String::new(); line.push_str(&format!("id{} ", p0.archetype_id()));  out.push(format!("w5 q0 visit {}", line)); });
        { let key = world.to_direct(e_1_0).unwrap(); let r = ecs_find!(world, key, || { let mut line = String::new();  out.push(format!("w5 q1 call a1e0 {}", line)); }); out.push(format!("w5 q1 find a1e0 k2 {}", r.is_some())); }
        { let key = world.to_direct(e_1_1.into_any()).unwrap(); let r = ecs_find!(world, key, || { let mut line = String::new();  out.push(format!("w5 q1 call a1e1 {}", line)); }); out.push(format!("w5 q1 find a1e1 k3 {}", r.is_some())); }
        { let key = e_3_0; let r = ecs_find!(world, key, || { let mut line = String::new();  out.push(format!("w5 q1 call a3e0 {}", line)); }); out.push(format!("w5 q1 find a3e0 k0 {}", r.is_some())); }
        { let key = e_3_1.into_any(); let r = ecs_find!(world, key, || { let mut line = String::new();  out.push(format!("w5 q1 call a3e1 {}", line)); }); out.push(format!("w5 q1 find a3e1 k1 {}", r.is_some())); }
        #[cfg(not(all()))] { let key = e_4_0.into_any(); let r = ecs_find!(world, key, || { let mut line = String::new();  out.push(format!("w5 q1 call a4e0 {}", line)); }); out.push(format!("w5 q1 find a4e0 k1 {}", r.is_some())); }
        #[cfg(not(all()))] { let key = world.to_direct(e_4_1).unwrap(); let r = ecs_find!(world, key, || { let mut line = String::new();  out.push(format!("w5 q1 call a4e1 {}", line)); }); out.push(format!("w5 q1 find a4e1 k2 {}", r.is_some())); }
        let _ = &mut world;
    }
}

pub mod w6 {
    use gecs::prelude::*;
    use super::comps::*;

    ecs_world! {
    ecs_name!(WorldAg);
        #[cfg(any())] #[cfg(any())] ecs_archetype!(ArchA, CompC, #[component_id(6)] CompE, #[component_id(6)] CompG);
        #[archetype_id(15)] ecs_archetype!(ArchB, #[cfg(not(all()))] CompD, CompG, #[component_id(204)] CompA, CompE, CompI);
        }

    pub fn run(out: &mut Vec<String>) {
        let mut world = WorldAg::new();
        #[cfg(any())] #[cfg(any())] let e_0_0 = world.create::<ArchA>((CompC(10102), CompE(10104), CompG(10106),));
        let e_1_0 = world.create::<ArchB>((#[cfg(not(all()))] CompD(20103), CompG(20106), CompA(20100), CompE(20104), CompI(20108),));
        #[cfg(any())] #[cfg(any())] out.push(format!("w6 id ArchA {}", <ArchA as Archetype>::ARCHETYPE_ID));
        #[cfg(all(any(), any()))] out.push(format!("w6 cid ArchA CompC {} {}", <ArchA as ArchetypeHas<CompC>>::COMPONENT_ID, ecs_component_id!(CompC, ArchA)));
        #[cfg(all(any(), any()))] { let mut seen = false; ecs_iter!(world, |_c: &CompC, _e: &Entity<ArchA>| { if !seen { seen = true; out.push(format!("w6 qcid ArchA CompC {}", ecs_component_id!(CompC))); } }); }
        #[cfg(all(any(), any()))] out.push(format!("w6 cid ArchA CompE {} {}", <ArchA as ArchetypeHas<CompE>>::COMPONENT_ID, ecs_component_id!(CompE, ArchA)));
        #[cfg(all(any(), any()))] { let mut seen = false; ecs_iter!(world, |_c: &CompE, _e: &Entity<ArchA>| { if !seen { seen = true; out.push(format!("w6 qcid ArchA CompE {}", ecs_component_id!(CompE))); } }); }
        #[cfg(all(any(), any()))] out.push(format!("w6 cid ArchA CompG {} {}", <ArchA as ArchetypeHas<CompG>>::COMPONENT_ID, ecs_component_id!(CompG, ArchA)));
        #[cfg(all(any(), any()))] { let mut seen = false; ecs_iter!(world, |_c: &CompG, _e: &Entity<ArchA>| { if !seen { seen = true; out.push(format!("w6 qcid ArchA CompG {}", ecs_component_id!(CompG))); } }); }
        #[cfg(any())] #[cfg(any())] out.push(format!("w6 hid ArchA {} {}", e_0_0.archetype_id(), e_0_0.into_any().archetype_id()));
        #[cfg(any())] #[cfg(any())] out.push(format!("w6 len ArchA {}", world.archetype::<ArchA>().len()));
        out.push(format!("w6 id ArchB {}", <ArchB as Archetype>::ARCHETYPE_ID));
        #[cfg(all(not(all())))] out.push(format!("w6 cid ArchB CompD {} {}", <ArchB as ArchetypeHas<CompD>>::COMPONENT_ID, ecs_component_id!(CompD, ArchB)));
        #[cfg(all(not(all())))] { let mut seen = false; ecs_iter!(world, |_c: &CompD, _e: &Entity<ArchB>| { if !seen { seen = true; out.push(format!("w6 qcid ArchB CompD {}", ecs_component_id!(CompD))); } }); }
        out.push(format!("w6 cid ArchB CompG {} {}", <ArchB as ArchetypeHas<CompG>>::COMPONENT_ID, ecs_component_id!(CompG, ArchB)));
        { let mut seen = false; ecs_iter!(world, |_c: &CompG, _e: &Entity<ArchB>| { if !seen { seen = true; out.push(format!("w6 qcid ArchB CompG {}", ecs_component_id!(CompG))); } }); }
        out.push(format!("w6 cid ArchB CompA {} {}", <ArchB as ArchetypeHas<CompA>>::COMPONENT_ID, ecs_component_id!(CompA, ArchB)));
        { let mut seen = false; ecs_iter!(world, |_c: &CompA, _e: &Entity<ArchB>| { if !seen { seen = true; out.push(format!("w6 qcid ArchB CompA {}", ecs_component_id!(CompA))); } }); }
        out.push(format!("w6 cid ArchB CompE {} {}", <ArchB as ArchetypeHas<CompE>>::COMPONENT_ID, ecs_component_id!(CompE, ArchB)));
        { let mut seen = false; ecs_iter!(world, |_c: &CompE, _e: &Entity<ArchB>| { if !seen { seen = true; out.push(format!("w6 qcid ArchB CompE {}", ecs_component_id!(CompE))); } }); }
        out.push(format!("w6 cid ArchB CompI {} {}", <ArchB as ArchetypeHas<CompI>>::COMPONENT_ID, ecs_component_id!(CompI, ArchB)));
        { let mut seen = false; ecs_iter!(world, |_c: &CompI, _e: &Entity<ArchB>| { if !seen { seen = true; out.push(format!("w6 qcid ArchB CompI {}", ecs_component_id!(CompI))); } }); }
        out.push(format!("w6 hid ArchB {} {}", e_1_0.archetype_id(), e_1_0.into_any().archetype_id()));
        out.push(format!("w6 len ArchB {}", world.archetype::<ArchB>().len()));
        for id in 0..=255u8 { if let Ok(sel) = SelectArchetype::try_from(id) { out.push(format!("w6 sel {} {}", id, sel.archetype_id())); } }
        ecs_iter_borrow!(world, |#[cfg(not(all()))] p0: &mut CompH| { let mut line = String::new(); #[cfg(not(all()))] line.push_str(&format!("c{} ", p0.0));  out.push(format!("w6 q0 visit {}", line)); });
        #[cfg(any())] #[cfg(any())] { let key = e_0_0.into_any(); let r = ecs_find!(world, key, || { let mut line = String::new();  out.push(format!("w6 q1 call a0e0 {}", line)); }); out.push(format!("w6 q1 find a0e0 k1 {}", r.is_some())); }
        { let key = world.to_direct(e_1_0).unwrap(); let r = ecs_find!(world, key, || { let mut line = String::new();  out.push(format!("w6 q1 call a1e0 {}", line)); }); out.push(format!("w6 q1 find a1e0 k2 {}", r.is_some())); }
        let _ = &mut world;
    }
}

pub mod w7 {
    use gecs::prelude::*;
    use super::comps::*;

    ecs_world! {
    ecs_name!(WorldAh);
        #[archetype_id(8)] ecs_archetype!(ArchA, #[component_id(21)] CompH, #[cfg(any(any(), not(all())))] CompD, CompE, CompB, #[cfg(not(all()))] CompJ, #[cfg(all())] #[cfg(not(any()))] CompG);
        }

    pub fn run(out: &mut Vec<String>) {
        let mut world = WorldAh::new();
        let e_0_0 = world.create::<ArchA>((CompH(10107), #[cfg(any(any(), not(all())))] CompD(10103), CompE(10104), CompB(10101), #[cfg(not(all()))] CompJ(10109), #[cfg(all())] #[cfg(not(any()))] CompG(10106),));
        let e_0_1 = world.create::<ArchA>((CompH(10207), #[cfg(any(any(), not(all())))] CompD(10203), CompE(10204), CompB(10201), #[cfg(not(all()))] CompJ(10209), #[cfg(all())] #[cfg(not(any()))] CompG(10206),));
        out.push(format!("w7 id ArchA {}", <ArchA as Archetype>::ARCHETYPE_ID));
        out.push(format!("w7 cid ArchA CompH {} {}", <ArchA as ArchetypeHas<CompH>>::COMPONENT_ID, ecs_component_id!(CompH, ArchA)));
        { let mut seen = false; ecs_iter!(world, |_c: &CompH, _e: &Entity<ArchA>| { if !seen { seen = true; out.push(format!("w7 qcid ArchA CompH {}", ecs_component_id!(CompH))); } }); }
        #[cfg(all(any(any(), not(all()))))] out.push(format!("w7 cid ArchA CompD {} {}", <ArchA as ArchetypeHas<CompD>>::COMPONENT_ID, ecs_component_id!(CompD, ArchA)));
        #[cfg(all(any(any(), not(all()))))] { let mut seen = false; ecs_iter!(world, |_c: &CompD, _e: &Entity<ArchA>| { if !seen { seen = true; out.push(format!("w7 qcid ArchA CompD {}", ecs_component_id!(CompD))); } }); }
        out.push(format!("w7 cid ArchA CompE {} {}", <ArchA as ArchetypeHas<CompE>>::COMPONENT_ID, ecs_component_id!(CompE, ArchA)));
        { let mut seen = false; ecs_iter!(world, |_c: &CompE, _e: &Entity<ArchA>| { if !seen { seen = true; out.push(format!("w7 qcid ArchA CompE {}", ecs_component_id!(CompE))); } }); }
        out.push(format!("w7 cid ArchA CompB {} {}", <ArchA as ArchetypeHas<CompB>>::COMPONENT_ID, ecs_component_id!(CompB, ArchA)));
        { let mut seen = false; ecs_iter!(world, |_c: &CompB, _e: &Entity<ArchA>| { if !seen { seen = true; out.push(format!("w7 qcid ArchA CompB {}", ecs_component_id!(CompB))); } }); }
        #[cfg(all(not(all())))] out.push(format!("w7 cid ArchA CompJ {} {}", <ArchA as ArchetypeHas<CompJ>>::COMPONENT_ID, ecs_component_id!(CompJ, ArchA)));
        #[cfg(all(not(all())))] { let mut seen = false; ecs_iter!(world, |_c: &CompJ, _e: &Entity<ArchA>| { if !seen { seen = true; out.push(format!("w7 qcid ArchA CompJ {}", ecs_component_id!(CompJ))); } }); }
        #[cfg(all(all(), not(any())))] out.push(format!("w7 cid ArchA CompG {} {}", <ArchA as ArchetypeHas<CompG>>::COMPONENT_ID, ecs_component_id!(CompG, ArchA)));
        #[cfg(all(all(), not(any())))] { let mut seen = false; ecs_iter!(world, |_c: &CompG, _e: &Entity<ArchA>| { if !seen { seen = true; out.push(format!("w7 qcid ArchA CompG {}", ecs_component_id!(CompG))); } }); }
        out.push(format!("w7 hid ArchA {} {}", e_0_0.archetype_id(), e_0_0.into_any().archetype_id()));
        out.push(format!("w7 hid ArchA {} {}", e_0_1.archetype_id(), e_0_1.into_any().archetype_id()));
        out.push(format!("w7 len ArchA {}", world.archetype::<ArchA>().len()));
        for id in 0..=255u8 { if let Ok(sel) = SelectArchetype::try_from(id) { out.push(format!("w7 sel {} {}", id, sel.archetype_id())); } }
        let _ = &mut world;
    }
}

pub mod w8 {
    use gecs::prelude::*;
    use super::comps::*;

    ecs_world! {
    ecs_name!(WorldAi);
        #[archetype_id(17)] ecs_archetype!(ArchA, #[component_id(15)] CompI, CompG, CompE);
        ecs_archetype!(ArchB, #[component_id(9)] CompA, #[cfg(not(all()))] #[component_id(20)] CompG, #[cfg(any(any(), not(all())))] CompI, #[cfg(all(all(), not(any())))] #[component_id(7)] CompC, #[cfg(not(any()))] #[component_id(23)] CompJ, #[cfg(all(all(), not(any())))] CompB, #[component_id(245)] CompF, #[cfg(not(any()))] CompH);
        ecs_archetype!(ArchC, CompH);
        ecs_archetype!(ArchD, CompE, CompH);
        #[cfg(any(any(), not(all())))] #[cfg(not(any()))] #[archetype_id(28)] ecs_archetype!(ArchE, #[component_id(5)] CompD, #[cfg(not(any()))] CompA, CompE, CompG, #[cfg(any(any(), not(all())))] #[component_id(17)] CompB, #[component_id(236)] CompI, CompH, #[cfg(all())] CompF, CompJ, #[cfg(not(any()))] #[cfg(not(any()))] #[component_id(1)] CompC);
        #[cfg(all())] #[cfg(any())] ecs_archetype!(ArchF, #[cfg(all())] #[cfg(not(any()))] #[component_id(31)] CompI, CompB, CompC, #[component_id(16)] CompH, #[cfg(not(all()))] CompA, #[cfg(any(any(), not(all())))] CompF, #[component_id(251)] CompE);
        #[cfg(all())] #[archetype_id(4)] ecs_archetype!(ArchG, #[cfg(not(any()))] #[cfg(not(any()))] CompG, #[cfg(all(all(), not(any())))] #[component_id(32)] CompI, CompC, CompJ, CompD);
        #[cfg(all(all(), not(any())))] #[cfg(all(all(), not(any())))] #[archetype_id(10)] ecs_archetype!(ArchH, CompB, #[cfg(not(any()))] #[component_id(231)] CompA, CompC, #[cfg(not(any()))] CompD, CompI);
        #[cfg(not(all()))] ecs_archetype!(ArchI, CompC, CompF, CompD, #[component_id(32)] CompB, #[cfg(all(all(), not(any())))] CompG, #[cfg(all(all(), not(any())))] #[component_id(36)] CompE, CompI, CompA, #[cfg(all())] CompJ, #[component_id(3)] CompH);
        #[archetype_id(25)] ecs_archetype!(ArchJ, #[component_id(19)] CompI, #[component_id(244)] CompA, #[cfg(any())] CompJ, #[cfg(all(all(), not(any())))] CompC, #[cfg(not(all()))] #[cfg(all(all(), not(any())))] #[component_id(37)] CompE, #[cfg(all(all(), not(any())))] CompB, CompD, CompG);
        #[cfg(not(all()))] ecs_archetype!(ArchK, CompE, #[cfg(all())] #[component_id(28)] CompI);
        #[cfg(not(any()))] #[cfg(any(any(), not(all())))] ecs_archetype!(ArchL, #[cfg(any(any(), not(all())))] #[cfg(any())] CompG, #[cfg(all(all(), not(any())))] #[component_id(38)] CompA, #[component_id(18)] CompF, #[component_id(30)] CompB, CompD, #[component_id(5)] CompE, #[cfg(all(all(), not(any())))] #[cfg(not(all()))] #[component_id(239)] CompI, #[cfg(not(all()))] CompH);
        }

    pub fn run(out: &mut Vec<String>) {
        let mut world = WorldAi::new();
        let e_1_0 = world.create::<ArchB>((CompA(20100), #[cfg(not(all()))] CompG(20106), #[cfg(any(any(), not(all())))] CompI(20108), #[cfg(all(all(), not(any())))] CompC(20102), #[cfg(not(any()))] CompJ(20109), #[cfg(all(all(), not(any())))] CompB(20101), CompF(20105), #[cfg(not(any()))] CompH(20107),));
        let e_2_0 = world.create::<ArchC>((CompH(30107),));
        let e_2_1 = world.create::<ArchC>((CompH(30207),));
        #[cfg(any(any(), not(all())))] #[cfg(not(any()))] let e_4_0 = world.create::<ArchE>((CompD(50103), #[cfg(not(any()))] CompA(50100), CompE(50104), CompG(50106), #[cfg(any(any(), not(all())))] CompB(50101), CompI(50108), CompH(50107), #[cfg(all())] CompF(50105), CompJ(50109), #[cfg(not(any()))] #[cfg(not(any()))] CompC(50102),));
        #[cfg(any(any(), not(all())))] #[cfg(not(any()))] let e_4_1 = world.create::<ArchE>((CompD(50203), #[cfg(not(any()))] CompA(50200), CompE(50204), CompG(50206), #[cfg(any(any(), not(all())))] CompB(50201), CompI(50208), CompH(50207), #[cfg(all())] CompF(50205), CompJ(50209), #[cfg(not(any()))] #[cfg(not(any()))] CompC(50202),));
        #[cfg(all())] #[cfg(any())] let e_5_0 = world.create::<ArchF>((#[cfg(all())] #[cfg(not(any()))] CompI(60108), CompB(60101), CompC(60102), CompH(60107), #[cfg(not(all()))] CompA(60100), #[cfg(any(any(), not(all())))] CompF(60105), CompE(60104),));
        #[cfg(all())] let e_6_0 = world.create::<ArchG>((#[cfg(not(any()))] #[cfg(not(any()))] CompG(70106), #[cfg(all(all(), not(any())))] CompI(70108), CompC(70102), CompJ(70109), CompD(70103),));
        #[cfg(all(all(), not(any())))] #[cfg(all(all(), not(any())))] let e_7_0 = world.create::<ArchH>((CompB(80101), #[cfg(not(any()))] CompA(80100), CompC(80102), #[cfg(not(any()))] CompD(80103), CompI(80108),));
        #[cfg(all(all(), not(any())))] #[cfg(all(all(), not(any())))] let e_7_1 = world.create::<ArchH>((CompB(80201), #[cfg(not(any()))] CompA(80200), CompC(80202), #[cfg(not(any()))] CompD(80203), CompI(80208),));
        #[cfg(not(all()))] let e_8_0 = world.create::<ArchI>((CompC(90102), CompF(90105), CompD(90103), CompB(90101), #[cfg(all(all(), not(any())))] CompG(90106), #[cfg(all(all(), not(any())))] CompE(90104), CompI(90108), CompA(90100), #[cfg(all())] CompJ(90109), CompH(90107),));
        #[cfg(not(all()))] let e_10_0 = world.create::<ArchK>((CompE(110104), #[cfg(all())] CompI(110108),));
        #[cfg(not(any()))] #[cfg(any(any(), not(all())))] let e_11_0 = world.create::<ArchL>((#[cfg(any(any(), not(all())))] #[cfg(any())] CompG(120106), #[cfg(all(all(), not(any())))] CompA(120100), CompF(120105), CompB(120101), CompD(120103), CompE(120104), #[cfg(all(all(), not(any())))] #[cfg(not(all()))] CompI(120108), #[cfg(not(all()))] CompH(120107),));
        out.push(format!("w8 id ArchA {}", <ArchA as Archetype>::ARCHETYPE_ID));
        out.push(format!("w8 cid ArchA CompI {} {}", <ArchA as ArchetypeHas<CompI>>::COMPONENT_ID, ecs_component_id!(CompI, ArchA)));
        out.push(format!("w8 cid ArchA CompG {} {}", <ArchA as ArchetypeHas<CompG>>::COMPONENT_ID, ecs_component_id!(CompG, ArchA)));
        out.push(format!("w8 cid ArchA CompE {} {}", <ArchA as ArchetypeHas<CompE>>::COMPONENT_ID, ecs_component_id!(CompE, ArchA)));
        out.push(format!("w8 len ArchA {}", world.archetype::<ArchA>().len()));
        out.push(format!("w8 id ArchB {}", <ArchB as Archetype>::ARCHETYPE_ID));
        out.push(format!("w8 cid ArchB CompA {} {}", <ArchB as ArchetypeHas<CompA>>::COMPONENT_ID, ecs_component_id!(CompA, ArchB)));
        { let mut seen = false; ecs_iter!(world, |_c: &CompA, _e: &Entity<ArchB>| { if !seen { seen = true; out.push(format!("w8 qcid ArchB CompA {}", ecs_component_id!(CompA))); } }); }
        #[cfg(all(not(all())))] out.push(format!("w8 cid ArchB CompG {} {}", <ArchB as ArchetypeHas<CompG>>::COMPONENT_ID, ecs_component_id!(CompG, ArchB)));
        #[cfg(all(not(all())))] { let mut seen = false; ecs_iter!(world, |_c: &CompG, _e: &Entity<ArchB>| { if !seen { seen = true; out.push(format!("w8 qcid ArchB CompG {}", ecs_component_id!(CompG))); } }); }
        #[cfg(all(any(any(), not(all()))))] out.push(format!("w8 cid ArchB CompI {} {}", <ArchB as ArchetypeHas<CompI>>::COMPONENT_ID, ecs_component_id!(CompI, ArchB)));
        #[cfg(all(any(any(), not(all()))))] { let mut seen = false; ecs_iter!(world, |_c: &CompI, _e: &Entity<ArchB>| { if !seen { seen = true; out.push(format!("w8 qcid ArchB CompI {}", ecs_component_id!(CompI))); } }); }
        #[cfg(all(all(all(), not(any()))))] out.push(format!("w8 cid ArchB CompC {} {}", <ArchB as ArchetypeHas<CompC>>::COMPONENT_ID, ecs_component_id!(CompC, ArchB)));
        #[cfg(all(all(all(), not(any()))))] { let mut seen = false; ecs_iter!(world, |_c: &CompC, _e: &Entity<ArchB>| { if !seen { seen = true; out.push(format!("w8 qcid ArchB CompC {}", ecs_component_id!(CompC))); } }); }
        #[cfg(all(not(any())))] out.push(format!("w8 cid ArchB CompJ {} {}", <ArchB as ArchetypeHas<CompJ>>::COMPONENT_ID, ecs_component_id!(CompJ, ArchB)));
        #[cfg(all(not(any())))] { let mut seen = false; ecs_iter!(world, |_c: &CompJ, _e: &Entity<ArchB>| { if !seen { seen = true; out.push(format!("w8 qcid ArchB CompJ {}", ecs_component_id!(CompJ))); } }); }
        #[cfg(all(all(all(), not(any()))))] out.push(format!("w8 cid ArchB CompB {} {}", <ArchB as ArchetypeHas<CompB>>::COMPONENT_ID, ecs_component_id!(CompB, ArchB)));
        #[cfg(all(all(all(), not(any()))))] { let mut seen = false; ecs_iter!(world, |_c: &CompB, _e: &Entity<ArchB>| { if !seen { seen = true; out.push(format!("w8 qcid ArchB CompB {}", ecs_component_id!(CompB))); } }); }
        out.push(format!("w8 cid ArchB CompF {} {}", <ArchB as ArchetypeHas<CompF>>::COMPONENT_ID, ecs_component_id!(CompF, ArchB)));
        { let mut seen = false; ecs_iter!(world, |_c: &CompF, _e: &Entity<ArchB>| { if !seen { seen = true; out.push(format!("w8 qcid ArchB CompF {}", ecs_component_id!(CompF))); } }); }
        #[cfg(all(not(any())))] out.push(format!("w8 cid ArchB CompH {} {}", <ArchB as ArchetypeHas<CompH>>::COMPONENT_ID, ecs_component_id!(CompH, ArchB)));
        #[cfg(all(not(any())))] { let mut seen = false; ecs_iter!(world, |_c: &CompH, _e: &Entity<ArchB>| { if !seen { seen = true; out.push(format!("w8 qcid ArchB CompH {}", ecs_component_id!(CompH))); } }); }
        out.push(format!("w8 hid ArchB {} {}", e_1_0.archetype_id(), e_1_0.into_any().archetype_id()));
        out.push(format!("w8 len ArchB {}", world.archetype::<ArchB>().len()));
        out.push(format!("w8 id ArchC {}", <ArchC as Archetype>::ARCHETYPE_ID));
        out.push(format!("w8 cid ArchC CompH {} {}", <ArchC as ArchetypeHas<CompH>>::COMPONENT_ID, ecs_component_id!(CompH, ArchC)));
        { let mut seen = false; ecs_iter!(world, |_c: &CompH, _e: &Entity<ArchC>| { if !seen { seen = true; out.push(format!("w8 qcid ArchC CompH {}", ecs_component_id!(CompH))); } }); }
        out.push(format!("w8 hid ArchC {} {}", e_2_0.archetype_id(), e_2_0.into_any().archetype_id()));
        out.push(format!("w8 hid ArchC {} {}", e_2_1.archetype_id(), e_2_1.into_any().archetype_id()));
        out.push(format!("w8 len ArchC {}", world.archetype::<ArchC>().len()));
        out.push(format!("w8 id ArchD {}", <ArchD as Archetype>::ARCHETYPE_ID));
        out.push(format!("w8 cid ArchD CompE {} {}", <ArchD as ArchetypeHas<CompE>>::COMPONENT_ID, ecs_component_id!(CompE, ArchD)));
        out.push(format!("w8 cid ArchD CompH {} {}", <ArchD as ArchetypeHas<CompH>>::COMPONENT_ID, ecs_component_id!(CompH, ArchD)));
        out.push(format!("w8 len ArchD {}", world.archetype::<ArchD>().len()));
        #[cfg(any(any(), not(all())))] #[cfg(not(any()))] out.push(format!("w8 id ArchE {}", <ArchE as Archetype>::ARCHETYPE_ID));
        #[cfg(all(any(any(), not(all())), not(any())))] out.push(format!("w8 cid ArchE CompD {} {}", <ArchE as ArchetypeHas<CompD>>::COMPONENT_ID, ecs_component_id!(CompD, ArchE)));
        #[cfg(all(any(any(), not(all())), not(any())))] { let mut seen = false; ecs_iter!(world, |_c: &CompD, _e: &Entity<ArchE>| { if !seen { seen = true; out.push(format!("w8 qcid ArchE CompD {}", ecs_component_id!(CompD))); } }); }
        #[cfg(all(any(any(), not(all())), not(any()), not(any())))] out.push(format!("w8 cid ArchE CompA {} {}", <ArchE as ArchetypeHas<CompA>>::COMPONENT_ID, ecs_component_id!(CompA, ArchE)));
        #[cfg(all(any(any(), not(all())), not(any()), not(any())))] { let mut seen = false; ecs_iter!(world, |_c: &CompA, _e: &Entity<ArchE>| { if !seen { seen = true; out.push(format!("w8 qcid ArchE CompA {}", ecs_component_id!(CompA))); } }); }
        #[cfg(all(any(any(), not(all())), not(any())))] out.push(format!("w8 cid ArchE CompE {} {}", <ArchE as ArchetypeHas<CompE>>::COMPONENT_ID, ecs_component_id!(CompE, ArchE)));
        #[cfg(all(any(any(), not(all())), not(any())))] { let mut seen = false; ecs_iter!(world, |_c: &CompE, _e: &Entity<ArchE>| { if !seen { seen = true; out.push(format!("w8 qcid ArchE CompE {}", ecs_component_id!(CompE))); } }); }
        #[cfg(all(any(any(), not(all())), not(any())))] out.push(format!("w8 cid ArchE CompG {} {}", <ArchE as ArchetypeHas<CompG>>::COMPONENT_ID, ecs_component_id!(CompG, ArchE)));
        #[cfg(all(any(any(), not(all())), not(any())))] { let mut seen = false; ecs_iter!(world, |_c: &CompG, _e: &Entity<ArchE>| { if !seen { seen = true; out.push(format!("w8 qcid ArchE CompG {}", ecs_component_id!(CompG))); } }); }
        #[cfg(all(any(any(), not(all())), not(any()), any(any(), not(all()))))] out.push(format!("w8 cid ArchE CompB {} {}", <ArchE as ArchetypeHas<CompB>>::COMPONENT_ID, ecs_component_id!(CompB, ArchE)));
        #[cfg(all(any(any(), not(all())), not(any()), any(any(), not(all()))))] { let mut seen = false; ecs_iter!(world, |_c: &CompB, _e: &Entity<ArchE>| { if !seen { seen = true; out.push(format!("w8 qcid ArchE CompB {}", ecs_component_id!(CompB))); } }); }
        #[cfg(all(any(any(), not(all())), not(any())))] out.push(format!("w8 cid ArchE CompI {} {}", <ArchE as ArchetypeHas<CompI>>::COMPONENT_ID, ecs_component_id!(CompI, ArchE)));
        #[cfg(all(any(any(), not(all())), not(any())))] { let mut seen = false; ecs_iter!(world, |_c: &CompI, _e: &Entity<ArchE>| { if !seen { seen = true; out.push(format!("w8 qcid ArchE CompI {}", ecs_component_id!(CompI))); } }); }
        #[cfg(all(any(any(), not(all())), not(any())))] out.push(format!("w8 cid ArchE CompH {} {}", <ArchE as ArchetypeHas<CompH>>::COMPONENT_ID, ecs_component_id!(CompH, ArchE)));
        #[cfg(all(any(any(), not(all())), not(any())))] { let mut seen = false; ecs_iter!(world, |_c: &CompH, _e: &Entity<ArchE>| { if !seen { seen = true; out.push(format!("w8 qcid ArchE CompH {}", ecs_component_id!(CompH))); } }); }
        #[cfg(all(any(any(), not(all())), not(any()), all()))] out.push(format!("w8 cid ArchE CompF {} {}", <ArchE as ArchetypeHas<CompF>>::COMPONENT_ID, ecs_component_id!(CompF, ArchE)));
        #[cfg(all(any(any(), not(all())), not(any()), all()))] { let mut seen = false; ecs_iter!(world, |_c: &CompF, _e: &Entity<ArchE>| { if !seen { seen = true; out.push(format!("w8 qcid ArchE CompF {}", ecs_component_id!(CompF))); } }); }
        #[cfg(all(any(any(), not(all())), not(any())))] out.push(format!("w8 cid ArchE CompJ {} {}", <ArchE as ArchetypeHas<CompJ>>::COMPONENT_ID, ecs_component_id!(CompJ, ArchE)));
        #[cfg(all(any(any(), not(all())), not(any())))] { let mut seen = false; ecs_iter!(world, |_c: &CompJ, _e: &Entity<ArchE>| { if !seen { seen = true; out.push(format!("w8 qcid ArchE CompJ {}", ecs_component_id!(CompJ))); } }); }
        #[cfg(all(any(any(), not(all())), not(any()), not(any()), not(any())))] out.push(format!("w8 cid ArchE CompC {} {}", <ArchE as ArchetypeHas<CompC>>::COMPONENT_ID, ecs_component_id!(CompC, ArchE)));
        #[cfg(all(any(any(), not(all())), not(any()), not(any()), not(any())))] { let mut seen = false; ecs_iter!(world, |_c: &CompC, _e: &Entity<ArchE>| { if !seen { seen = true; out.push(format!("w8 qcid ArchE CompC {}", ecs_component_id!(CompC))); } }); }
        #[cfg(any(any(), not(all())))] #[cfg(not(any()))] out.push(format!("w8 hid ArchE {} {}", e_4_0.archetype_id(), e_4_0.into_any().archetype_id()));
        #[cfg(any(any(), not(all())))] #[cfg(not(any()))] out.push(format!("w8 hid ArchE {} {}", e_4_1.archetype_id(), e_4_1.into_any().archetype_id()));
        #[cfg(any(any(), not(all())))] #[cfg(not(any()))] out.push(format!("w8 len ArchE {}", world.archetype::<ArchE>().len()));
        #[cfg(all())] #[cfg(any())] out.push(format!("w8 id ArchF {}", <ArchF as Archetype>::ARCHETYPE_ID));
        #[cfg(all(all(), any(), all(), not(any())))] out.push(format!("w8 cid ArchF CompI {} {}", <ArchF as ArchetypeHas<CompI>>::COMPONENT_ID, ecs_component_id!(CompI, ArchF)));
        #[cfg(all(all(), any(), all(), not(any())))] { let mut seen = false; ecs_iter!(world, |_c: &CompI, _e: &Entity<ArchF>| { if !seen { seen = true; out.push(format!("w8 qcid ArchF CompI {}", ecs_component_id!(CompI))); } }); }
        #[cfg(all(all(), any()))] out.push(format!("w8 cid ArchF CompB {} {}", <ArchF as ArchetypeHas<CompB>>::COMPONENT_ID, ecs_component_id!(CompB, ArchF)));
        #[cfg(all(all(), any()))] { let mut seen = false; ecs_iter!(world, |_c: &CompB, _e: &Entity<ArchF>| { if !seen { seen = true; out.push(format!("w8 qcid ArchF CompB {}", ecs_component_id!(CompB))); } }); }
        #[cfg(all(all(), any()))] out.push(format!("w8 cid ArchF CompC {} {}", <ArchF as ArchetypeHas<CompC>>::COMPONENT_ID, ecs_component_id!(CompC, ArchF)));
        #[cfg(all(all(), any()))] { let mut seen = false; ecs_iter!(world, |_c: &CompC, _e: &Entity<ArchF>| { if !seen { seen = true; out.push(format!("w8 qcid ArchF CompC {}", ecs_component_id!(CompC))); } }); }
        #[cfg(all(all(), any()))] out.push(format!("w8 cid ArchF CompH {} {}", <ArchF as ArchetypeHas<CompH>>::COMPONENT_ID, ecs_component_id!(CompH, ArchF)));
        #[cfg(all(all(), any()))] { let mut seen = false; ecs_iter!(world, |_c: &CompH, _e: &Entity<ArchF>| { if !seen { seen = true; out.push(format!("w8 qcid ArchF CompH {}", ecs_component_id!(CompH))); } }); }
        #[cfg(all(all(), any(), not(all())))] out.push(format!("w8 cid ArchF CompA {} {}", <ArchF as ArchetypeHas<CompA>>::COMPONENT_ID, ecs_component_id!(CompA, ArchF)));
        #[cfg(all(all(), any(), not(all())))] { let mut seen = false; ecs_iter!(world, |_c: &CompA, _e: &Entity<ArchF>| { if !seen { seen = true; out.push(format!("w8 qcid ArchF CompA {}", ecs_component_id!(CompA))); } }); }
        #[cfg(all(all(), any(), any(any(), not(all()))))] out.push(format!("w8 cid ArchF CompF {} {}", <ArchF as ArchetypeHas<CompF>>::COMPONENT_ID, ecs_component_id!(CompF, ArchF)));
        #[cfg(all(all(), any(), any(any(), not(all()))))] { let mut seen = false; ecs_iter!(world, |_c: &CompF, _e: &Entity<ArchF>| { if !seen { seen = true; out.push(format!("w8 qcid ArchF CompF {}", ecs_component_id!(CompF))); } }); }
        #[cfg(all(all(), any()))] out.push(format!("w8 cid ArchF CompE {} {}", <ArchF as ArchetypeHas<CompE>>::COMPONENT_ID, ecs_component_id!(CompE, ArchF)));
        #[cfg(all(all(), any()))] { let mut seen = false; ecs_iter!(world, |_c: &CompE, _e: &Entity<ArchF>| { if !seen { seen = true; out.push(format!("w8 qcid ArchF CompE {}", ecs_component_id!(CompE))); } }); }
        #[cfg(all())] #[cfg(any())] out.push(format!("w8 hid ArchF {} {}", e_5_0.archetype_id(), e_5_0.into_any().archetype_id()));
        #[cfg(all())] #[cfg(any())] out.push(format!("w8 len ArchF {}", world.archetype::<ArchF>().len()));
        #[cfg(all())] out.push(format!("w8 id ArchG {}", <ArchG as Archetype>::ARCHETYPE_ID));
        #[cfg(all(all(), not(any()), not(any())))] out.push(format!("w8 cid ArchG CompG {} {}", <ArchG as ArchetypeHas<CompG>>::COMPONENT_ID, ecs_component_id!(CompG, ArchG)));
        #[cfg(all(all(), not(any()), not(any())))] { let mut seen = false; ecs_iter!(world, |_c: &CompG, _e: &Entity<ArchG>| { if !seen { seen = true; out.push(format!("w8 qcid ArchG CompG {}", ecs_component_id!(CompG))); } }); }
        #[cfg(all(all(), all(all(), not(any()))))] out.push(format!("w8 cid ArchG CompI {} {}", <ArchG as ArchetypeHas<CompI>>::COMPONENT_ID, ecs_component_id!(CompI, ArchG)));
        #[cfg(all(all(), all(all(), not(any()))))] { let mut seen = false; ecs_iter!(world, |_c: &CompI, _e: &Entity<ArchG>| { if !seen { seen = true; out.push(format!("w8 qcid ArchG CompI {}", ecs_component_id!(CompI))); } }); }
        #[cfg(all(all()))] out.push(format!("w8 cid ArchG CompC {} {}", <ArchG as ArchetypeHas<CompC>>::COMPONENT_ID, ecs_component_id!(CompC, ArchG)));
        #[cfg(all(all()))] { let mut seen = false; ecs_iter!(world, |_c: &CompC, _e: &Entity<ArchG>| { if !seen { seen = true; out.push(format!("w8 qcid ArchG CompC {}", ecs_component_id!(CompC))); } }); }
        #[cfg(all(all()))] out.push(format!("w8 cid ArchG CompJ {} {}", <ArchG as ArchetypeHas<CompJ>>::COMPONENT_ID, ecs_component_id!(CompJ, ArchG)));
        #[cfg(all(all()))] { let mut seen = false; ecs_iter!(world, |_c: &CompJ, _e: &Entity<ArchG>| { if !seen { seen = true; out.push(format!("w8 qcid ArchG CompJ {}", ecs_component_id!(CompJ))); } }); }
        #[cfg(all(all()))] out.push(format!("w8 cid ArchG CompD {} {}", <ArchG as ArchetypeHas<CompD>>::COMPONENT_ID, ecs_component_id!(CompD, ArchG)));
        #[cfg(all(all()))] { let mut seen = false; ecs_iter!(world, |_c: &CompD, _e: &Entity<ArchG>| { if !seen { seen = true; out.push(format!("w8 qcid ArchG CompD {}", ecs_component_id!(CompD))); } }); }
        #[cfg(all())] out.push(format!("w8 hid ArchG {} {}", e_6_0.archetype_id(), e_6_0.into_any().archetype_id()));
        #[cfg(all())] out.push(format!("w8 len ArchG {}", world.archetype::<ArchG>().len()));
        #[cfg(all(all(), not(any())))] #[cfg(all(all(), not(any())))] out.push(format!("w8 id ArchH {}", <ArchH as Archetype>::ARCHETYPE_ID));
        #[cfg(all(all(all(), not(any())), all(all(), not(any()))))] out.push(format!("w8 cid ArchH CompB {} {}", <ArchH as ArchetypeHas<CompB>>::COMPONENT_ID, ecs_component_id!(CompB, ArchH)));
        #[cfg(all(all(all(), not(any())), all(all(), not(any()))))] { let mut seen = false; ecs_iter!(world, |_c: &CompB, _e: &Entity<ArchH>| { if !seen { seen = true; out.push(format!("w8 qcid ArchH CompB {}", ecs_component_id!(CompB))); } }); }
        #[cfg(all(all(all(), not(any())), all(all(), not(any())), not(any())))] out.push(format!("w8 cid ArchH CompA {} {}", <ArchH as ArchetypeHas<CompA>>::COMPONENT_ID, ecs_component_id!(CompA, ArchH)));
        #[cfg(all(all(all(), not(any())), all(all(), not(any())), not(any())))] { let mut seen = false; ecs_iter!(world, |_c: &CompA, _e: &Entity<ArchH>| { if !seen { seen = true; out.push(format!("w8 qcid ArchH CompA {}", ecs_component_id!(CompA))); } }); }
        #[cfg(all(all(all(), not(any())), all(all(), not(any()))))] out.push(format!("w8 cid ArchH CompC {} {}", <ArchH as ArchetypeHas<CompC>>::COMPONENT_ID, ecs_component_id!(CompC, ArchH)));
        #[cfg(all(all(all(), not(any())), all(all(), not(any()))))] { let mut seen = false; ecs_iter!(world, |_c: &CompC, _e: &Entity<ArchH>| { if !seen { seen = true; out.push(format!("w8 qcid ArchH CompC {}", ecs_component_id!(CompC))); } }); }
        #[cfg(all(all(all(), not(any())), all(all(), not(any())), not(any())))] out.push(format!("w8 cid ArchH CompD {} {}", <ArchH as ArchetypeHas<CompD>>::COMPONENT_ID, ecs_component_id!(CompD, ArchH)));
        #[cfg(all(all(all(), not(any())), all(all(), not(any())), not(any())))] { let mut seen = false; ecs_iter!(world, |_c: &CompD, _e: &Entity<ArchH>| { if !seen { seen = true; out.push(format!("w8 qcid ArchH CompD {}", ecs_component_id!(CompD))); } }); }
        #[cfg(all(all(all(), not(any())), all(all(), not(any()))))] out.push(format!("w8 cid ArchH CompI {} {}", <ArchH as ArchetypeHas<CompI>>::COMPONENT_ID, ecs_component_id!(CompI, ArchH)));
        #[cfg(all(all(all(), not(any())), all(all(), not(any()))))] { let mut seen = false; ecs_iter!(world, |_c: &CompI, _e: &Entity<ArchH>| { if !seen { seen = true; out.push(format!("w8 qcid ArchH CompI {}", ecs_component_id!(CompI))); } }); }
        #[cfg(all(all(), not(any())))] #[cfg(all(all(), not(any())))] out.push(format!("w8 hid ArchH {} {}", e_7_0.archetype_id(), e_7_0.into_any().archetype_id()));
        #[cfg(all(all(), not(any())))] #[cfg(all(all(), not(any())))] out.push(format!("w8 hid ArchH {} {}", e_7_1.archetype_id(), e_7_1.into_any().archetype_id()));
        #[cfg(all(all(), not(any())))] #[cfg(all(all(), not(any())))] out.push(format!("w8 len ArchH {}", world.archetype::<ArchH>().len()));
        #[cfg(not(all()))] out.push(format!("w8 id ArchI {}", <ArchI as Archetype>::ARCHETYPE_ID));
        #[cfg(all(not(all())))] out.push(format!("w8 cid ArchI CompC {} {}", <ArchI as ArchetypeHas<CompC>>::COMPONENT_ID, ecs_component_id!(CompC, ArchI)));
        #[cfg(all(not(all())))] { let mut seen = false; ecs_iter!(world, |_c: &CompC, _e: &Entity<ArchI>| { if !seen { seen = true; out.push(format!("w8 qcid ArchI CompC {}", ecs_component_id!(CompC))); } }); }
        #[cfg(all(not(all())))] out.push(format!("w8 cid ArchI CompF {} {}", <ArchI as ArchetypeHas<CompF>>::COMPONENT_ID, ecs_component_id!(CompF, ArchI)));
        #[cfg(all(not(all())))] { let mut seen = false; ecs_iter!(world, |_c: &CompF, _e: &Entity<ArchI>| { if !seen { seen = true; out.push(format!("w8 qcid ArchI CompF {}", ecs_component_id!(CompF))); } }); }
        #[cfg(all(not(all())))] out.push(format!("w8 cid ArchI CompD {} {}", <ArchI as ArchetypeHas<CompD>>::COMPONENT_ID, ecs_component_id!(CompD, ArchI)));
        #[cfg(all(not(all())))] { let mut seen = false; ecs_iter!(world, |_c: &CompD, _e: &Entity<ArchI>| { if !seen { seen = true; out.push(format!("w8 qcid ArchI CompD {}", ecs_component_id!(CompD))); } }); }
        #[cfg(all(not(all())))] out.push(format!("w8 cid ArchI CompB {} {}", <ArchI as ArchetypeHas<CompB>>::COMPONENT_ID, ecs_component_id!(CompB, ArchI)));
        #[cfg(all(not(all())))] { let mut seen = false; ecs_iter!(world, |_c: &CompB, _e: &Entity<ArchI>| { if !seen { seen = true; out.push(format!("w8 qcid ArchI CompB {}", ecs_component_id!(CompB))); } }); }
        #[cfg(all(not(all()), all(all(), not(any()))))] out.push(format!("w8 cid ArchI CompG {} {}", <ArchI as ArchetypeHas<CompG>>::COMPONENT_ID, ecs_component_id!(CompG, ArchI)));
        #[cfg(all(not(all()), all(all(), not(any()))))] { let mut seen = false; ecs_iter!(world, |_c: &CompG, _e: &Entity<ArchI>| { if !seen { seen = true; out.push(format!("w8 qcid ArchI CompG {}", ecs_component_id!(CompG))); } }); }
        #[cfg(all(not(all()), all(all(), not(any()))))] out.push(format!("w8 cid ArchI CompE {} {}", <ArchI as ArchetypeHas<CompE>>::COMPONENT_ID, ecs_component_id!(CompE, ArchI)));
        #[cfg(all(not(all()), all(all(), not(any()))))] { let mut seen = false; ecs_iter!(world, |_c: &CompE, _e: &Entity<ArchI>| { if !seen { seen = true; out.push(format!("w8 qcid ArchI CompE {}", ecs_component_id!(CompE))); } }); }
        #[cfg(all(not(all())))] out.push(format!("w8 cid ArchI CompI {} {}", <ArchI as ArchetypeHas<CompI>>::COMPONENT_ID, ecs_component_id!(CompI, ArchI)));
        #[cfg(all(not(all())))] { let mut seen = false; ecs_iter!(world, |_c: &CompI, _e: &Entity<ArchI>| { if !seen { seen = true; out.push(format!("w8 qcid ArchI CompI {}", ecs_component_id!(CompI))); } }); }
        #[cfg(all(not(all())))] out.push(format!("w8 cid ArchI CompA {} {}", <ArchI as ArchetypeHas<CompA>>::COMPONENT_ID, ecs_component_id!(CompA, ArchI)));
        #[cfg(all(not(all())))] { let mut seen = false; ecs_iter!(world, |_c: &CompA, _e: &Entity<ArchI>| { if !seen { seen = true; out.push(format!("w8 qcid ArchI CompA {}", ecs_component_id!(CompA))); } }); }
        #[cfg(all(not(all()), all()))] out.push(format!("w8 cid ArchI CompJ {} {}", <ArchI as ArchetypeHas<CompJ>>::COMPONENT_ID, ecs_component_id!(CompJ, ArchI)));
        #[cfg(all(not(all()), all()))] { let mut seen = false; ecs_iter!(world, |_c: &CompJ, _e: &Entity<ArchI>| { if !seen { seen = true; out.push(format!("w8 qcid ArchI CompJ {}", ecs_component_id!(CompJ))); } }); }
        #[cfg(all(not(all())))] out.push(format!("w8 cid ArchI CompH {} {}", <ArchI as ArchetypeHas<CompH>>::COMPONENT_ID, ecs_component_id!(CompH, ArchI)));
        #[cfg(all(not(all())))] { let mut seen = false; ecs_iter!(world, |_c: &CompH, _e: &Entity<ArchI>| { if !seen { seen = true; out.push(format!("w8 qcid ArchI CompH {}", ecs_component_id!(CompH))); } }); }
        #[cfg(not(all()))] out.push(format!("w8 hid ArchI {} {}", e_8_0.archetype_id(), e_8_0.into_any().archetype_id()));
        #[cfg(not(all()))] out.push(format!("w8 len ArchI {}", world.archetype::<ArchI>().len()));
        out.push(format!("w8 id ArchJ {}", <ArchJ as Archetype>::ARCHETYPE_ID));
        out.push(format!("w8 cid ArchJ CompI {} {}", <ArchJ as ArchetypeHas<CompI>>::COMPONENT_ID, ecs_component_id!(CompI, ArchJ)));
        out.push(format!("w8 cid ArchJ CompA {} {}", <ArchJ as ArchetypeHas<CompA>>::COMPONENT_ID, ecs_component_id!(CompA, ArchJ)));
        #[cfg(all(any()))] out.push(format!("w8 cid ArchJ CompJ {} {}", <ArchJ as ArchetypeHas<CompJ>>::COMPONENT_ID, ecs_component_id!(CompJ, ArchJ)));
        #[cfg(all(all(all(), not(any()))))] out.push(format!("w8 cid ArchJ CompC {} {}", <ArchJ as ArchetypeHas<CompC>>::COMPONENT_ID, ecs_component_id!(CompC, ArchJ)));
        #[cfg(all(not(all()), all(all(), not(any()))))] out.push(format!("w8 cid ArchJ CompE {} {}", <ArchJ as ArchetypeHas<CompE>>::COMPONENT_ID, ecs_component_id!(CompE, ArchJ)));
        #[cfg(all(all(all(), not(any()))))] out.push(format!("w8 cid ArchJ CompB {} {}", <ArchJ as ArchetypeHas<CompB>>::COMPONENT_ID, ecs_component_id!(CompB, ArchJ)));
        out.push(format!("w8 cid ArchJ CompD {} {}", <ArchJ as ArchetypeHas<CompD>>::COMPONENT_ID, ecs_component_id!(CompD, ArchJ)));
        out.push(format!("w8 cid ArchJ CompG {} {}", <ArchJ as ArchetypeHas<CompG>>::COMPONENT_ID, ecs_component_id!(CompG, ArchJ)));
        out.push(format!("w8 len ArchJ {}", world.archetype::<ArchJ>().len()));
        #[cfg(not(all()))] out.push(format!("w8 id ArchK {}", <ArchK as Archetype>::ARCHETYPE_ID));
        #[cfg(all(not(all())))] out.push(format!("w8 cid ArchK CompE {} {}", <ArchK as ArchetypeHas<CompE>>::COMPONENT_ID, ecs_component_id!(CompE, ArchK)));
        #[cfg(all(not(all())))] { let mut seen = false; ecs_iter!(world, |_c: &CompE, _e: &Entity<ArchK>| { if !seen { seen = true; out.push(format!("w8 qcid ArchK CompE {}", ecs_component_id!(CompE))); } }); }
        #[cfg(all(not(all()), all()))] out.push(format!("w8 cid ArchK CompI {} {}", <ArchK as ArchetypeHas<CompI>>::COMPONENT_ID, ecs_component_id!(CompI, ArchK)));
        #[cfg(all(not(all()), all()))] { let mut seen = false; ecs_iter!(world, |_c: &CompI, _e: &Entity<ArchK>| { if !seen { seen = true; out.push(format!("w8 qcid ArchK CompI {}", ecs_component_id!(CompI))); } }); }
        #[cfg(not(all()))] out.push(format!("w8 hid ArchK {} {}", e_10_0.archetype_id(), e_10_0.into_any().archetype_id()));
        #[cfg(not(all()))] out.push(format!("w8 len ArchK {}", world.archetype::<ArchK>().len()));
        #[cfg(not(any()))] #[cfg(any(any(), not(all())))] out.push(format!("w8 id ArchL {}", <ArchL as Archetype>::ARCHETYPE_ID));
        #[cfg(all(not(any()), any(any(), not(all())), any(any(), not(all())), any()))] out.push(format!("w8 cid ArchL CompG {} {}", <ArchL as ArchetypeHas<CompG>>::COMPONENT_ID, ecs_component_id!(CompG, ArchL)));
        #[cfg(all(not(any()), any(any(), not(all())), any(any(), not(all())), any()))] { let mut seen = false; ecs_iter!(world, |_c: &CompG, _e: &Entity<ArchL>| { if !seen { seen = true; out.push(format!("w8 qcid ArchL CompG {}", ecs_component_id!(CompG))); } }); }
        #[cfg(all(not(any()), any(any(), not(all())), all(all(), not(any()))))] out.push(format!("w8 cid ArchL CompA {} {}", <ArchL as ArchetypeHas<CompA>>::COMPONENT_ID, ecs_component_id!(CompA, ArchL)));
        #[cfg(all(not(any()), any(any(), not(all())), all(all(), not(any()))))] { let mut seen = false; ecs_iter!(world, |_c: &CompA, _e: &Entity<ArchL>| { if !seen { seen = true; out.push(format!("w8 qcid ArchL CompA {}", ecs_component_id!(CompA))); } }); }
        #[cfg(all(not(any()), any(any(), not(all()))))] out.push(format!("w8 cid ArchL CompF {} {}", <ArchL as ArchetypeHas<CompF>>::COMPONENT_ID, ecs_component_id!(CompF, ArchL)));
        #[cfg(all(not(any()), any(any(), not(all()))))] { let mut seen = false; ecs_iter!(world, |_c: &CompF, _e: &Entity<ArchL>| { if !seen { seen = true; out.push(format!("w8 qcid ArchL CompF {}", ecs_component_id!(CompF))); } }); }
        #[cfg(all(not(any()), any(any(), not(all()))))] out.push(format!("w8 cid ArchL CompB {} {}", <ArchL as ArchetypeHas<CompB>>::COMPONENT_ID, ecs_component_id!(CompB, ArchL)));
        #[cfg(all(not(any()), any(any(), not(all()))))] { let mut seen = false; ecs_iter!(world, |_c: &CompB, _e: &Entity<ArchL>| { if !seen { seen = true; out.push(format!("w8 qcid ArchL CompB {}", ecs_component_id!(CompB))); } }); }
        #[cfg(all(not(any()), any(any(), not(all()))))] out.push(format!("w8 cid ArchL CompD {} {}", <ArchL as ArchetypeHas<CompD>>::COMPONENT_ID, ecs_component_id!(CompD, ArchL)));
        #[cfg(all(not(any()), any(any(), not(all()))))] { let mut seen = false; ecs_iter!(world, |_c: &CompD, _e: &Entity<ArchL>| { if !seen { seen = true; out.push(format!("w8 qcid ArchL CompD {}", ecs_component_id!(CompD))); } }); }
        #[cfg(all(not(any()), any(any(), not(all()))))] out.push(format!("w8 cid ArchL CompE {} {}", <ArchL as ArchetypeHas<CompE>>::COMPONENT_ID, ecs_component_id!(CompE, ArchL)));
        #[cfg(all(not(any()), any(any(), not(all()))))] { let mut seen = false; ecs_iter!(world, |_c: &CompE, _e: &Entity<ArchL>| { if !seen { seen = true; out.push(format!("w8 qcid ArchL CompE {}", ecs_component_id!(CompE))); } }); }
        #[cfg(all(not(any()), any(any(), not(all())), all(all(), not(any())), not(all())))] out.push(format!("w8 cid ArchL CompI {} {}", <ArchL as ArchetypeHas<CompI>>::COMPONENT_ID, ecs_component_id!(CompI, ArchL)));
        #[cfg(all(not(any()), any(any(), not(all())), all(all(), not(any())), not(all())))] { let mut seen = false; ecs_iter!(world, |_c: &CompI, _e: &Entity<ArchL>| { if !seen { seen = true; out.push(format!("w8 qcid ArchL CompI {}", ecs_component_id!(CompI))); } }); }
        #[cfg(all(not(any()), any(any(), not(all())), not(all())))] out.push(format!("w8 cid ArchL CompH {} {}", <ArchL as ArchetypeHas<CompH>>::COMPONENT_ID, ecs_component_id!(CompH, ArchL)));
        #[cfg(all(not(any()), any(any(), not(all())), not(all())))] { let mut seen = false; ecs_iter!(world, |_c: &CompH, _e: &Entity<ArchL>| { if !seen { seen = true; out.push(format!("w8 qcid ArchL CompH {}", ecs_component_id!(CompH))); } }); }
        #[cfg(not(any()))] #[cfg(any(any(), not(all())))] out.push(format!("w8 hid ArchL {} {}", e_11_0.archetype_id(), e_11_0.into_any().archetype_id()));
        #[cfg(not(any()))] #[cfg(any(any(), not(all())))] out.push(format!("w8 len ArchL {}", world.archetype::<ArchL>().len()));
        for id in 0..=255u8 { if let Ok(sel) = SelectArchetype::try_from(id) { out.push(format!("w8 sel {} {}", id, sel.archetype_id())); } }
        { let key = e_1_0.into_any(); let r = ecs_find_borrow!(world, key, |p0: &mut CompF, #[cfg(all(all(), not(any())))] p1: &EntityDirect<ArchB>, p2: &CompC, #[cfg(any())] p3: &mut CompC| { let mut line = String::new(); line.push_str(&format!("c{} ", p0.0)); #[cfg(all(all(), not(any())))] line.push_str(&format!("id{} ", p1.archetype_id())); line.push_str(&format!("c{} ", p2.0)); #[cfg(any())] line.push_str(&format!("c{} ", p3.0));  out.push(format!("w8 q0 call a1e0 {}", line)); }); out.push(format!("w8 q0 find a1e0 k1 {}", r.is_some())); }
        { let key = world.to_direct(e_2_0).unwrap(); let r = ecs_find_borrow!(world, key, |p0: &mut CompF, #[cfg(all(all(), not(any())))] p1: &EntityDirect<ArchB>, p2: &CompC, #[cfg(any())] p3: &mut CompC| { let mut line = String::new(); line.push_str(&format!("c{} ", p0.0)); #[cfg(all(all(), not(any())))] line.push_str(&format!("id{} ", p1.archetype_id())); line.push_str(&format!("c{} ", p2.0)); #[cfg(any())] line.push_str(&format!("c{} ", p3.0));  out.push(format!("w8 q0 call a2e0 {}", line)); }); out.push(format!("w8 q0 find a2e0 k2 {}", r.is_some())); }
        { let key = world.to_direct(e_2_1.into_any()).unwrap(); let r = ecs_find_borrow!(world, key, |p0: &mut CompF, #[cfg(all(all(), not(any())))] p1: &EntityDirect<ArchB>, p2: &CompC, #[cfg(any())] p3: &mut CompC| { let mut line = String::new(); line.push_str(&format!("c{} ", p0.0)); #[cfg(all(all(), not(any())))] line.push_str(&format!("id{} ", p1.archetype_id())); line.push_str(&format!("c{} ", p2.0)); #[cfg(any())] line.push_str(&format!("c{} ", p3.0));  out.push(format!("w8 q0 call a2e1 {}", line)); }); out.push(format!("w8 q0 find a2e1 k3 {}", r.is_some())); }
        #[cfg(any(any(), not(all())))] #[cfg(not(any()))] { let key = e_4_0; let r = ecs_find_borrow!(world, key, |p0: &mut CompF, #[cfg(all(all(), not(any())))] p1: &EntityDirect<ArchB>, p2: &CompC, #[cfg(any())] p3: &mut CompC| { let mut line = String::new(); line.push_str(&format!("c{} ", p0.0)); #[cfg(all(all(), not(any())))] line.push_str(&format!("id{} ", p1.archetype_id())); line.push_str(&format!("c{} ", p2.0)); #[cfg(any())] line.push_str(&format!("c{} ", p3.0));  out.push(format!("w8 q0 call a4e0 {}", line)); }); out.push(format!("w8 q0 find a4e0 k0 {}", r.is_some())); }
        #[cfg(any(any(), not(all())))] #[cfg(not(any()))] { let key = e_4_1.into_any(); let r = ecs_find_borrow!(world, key, |p0: &mut CompF, #[cfg(all(all(), not(any())))] p1: &EntityDirect<ArchB>, p2: &CompC, #[cfg(any())] p3: &mut CompC| { let mut line = String::new(); line.push_str(&format!("c{} ", p0.0)); #[cfg(all(all(), not(any())))] line.push_str(&format!("id{} ", p1.archetype_id())); line.push_str(&format!("c{} ", p2.0)); #[cfg(any())] line.push_str(&format!("c{} ", p3.0));  out.push(format!("w8 q0 call a4e1 {}", line)); }); out.push(format!("w8 q0 find a4e1 k1 {}", r.is_some())); }
        #[cfg(all())] #[cfg(any())] { let key = e_5_0.into_any(); let r = ecs_find_borrow!(world, key, |p0: &mut CompF, #[cfg(all(all(), not(any())))] p1: &EntityDirect<ArchB>, p2: &CompC, #[cfg(any())] p3: &mut CompC| { let mut line = String::new(); line.push_str(&format!("c{} ", p0.0)); #[cfg(all(all(), not(any())))] line.push_str(&format!("id{} ", p1.archetype_id())); line.push_str(&format!("c{} ", p2.0)); #[cfg(any())] line.push_str(&format!("c{} ", p3.0));  out.push(format!("w8 q0 call a5e0 {}", line)); }); out.push(format!("w8 q0 find a5e0 k1 {}", r.is_some())); }
        #[cfg(all())] { let key = world.to_direct(e_6_0).unwrap(); let r = ecs_find_borrow!(world, key, |p0: &mut CompF, #[cfg(all(all(), not(any())))] p1: &EntityDirect<ArchB>, p2: &CompC, #[cfg(any())] p3: &mut CompC| { let mut line = String::new(); line.push_str(&format!("c{} ", p0.0)); #[cfg(all(all(), not(any())))] line.push_str(&format!("id{} ", p1.archetype_id())); line.push_str(&format!("c{} ", p2.0)); #[cfg(any())] line.push_str(&format!("c{} ", p3.0));  out.push(format!("w8 q0 call a6e0 {}", line)); }); out.push(format!("w8 q0 find a6e0 k2 {}", r.is_some())); }
        #[cfg(all(all(), not(any())))] #[cfg(all(all(), not(any())))] { let key = world.to_direct(e_7_0.into_any()).unwrap(); let r = ecs_find_borrow!(world, key, |p0: &mut CompF, #[cfg(all(all(), not(any())))] p1: &EntityDirect<ArchB>, p2: &CompC, #[cfg(any())] p3: &mut CompC| { let mut line = String::new(); line.push_str(&format!("c{} ", p0.0)); #[cfg(all(all(), not(any())))] line.push_str(&format!("id{} ", p1.archetype_id())); line.push_str(&format!("c{} ", p2.0)); #[cfg(any())] line.push_str(&format!("c{} ", p3.0));  out.push(format!("w8 q0 call a7e0 {}", line)); }); out.push(format!("w8 q0 find a7e0 k3 {}", r.is_some())); }
        #[cfg(all(all(), not(any())))] #[cfg(all(all(), not(any())))] { let key = e_7_1; let r = ecs_find_borrow!(world, key, |p0: &mut CompF, #[cfg(all(all(), not(any())))] p1: &EntityDirect<ArchB>, p2: &CompC, #[cfg(any())] p3: &mut CompC| { let mut line = String::new(); line.push_str(&format!("c{} ", p0.0)); #[cfg(all(all(), not(any())))] line.push_str(&format!("id{} ", p1.archetype_id())); line.push_str(&format!("c{} ", p2.0)); #[cfg(any())] line.push_str(&format!("c{} ", p3.0));  out.push(format!("w8 q0 call a7e1 {}", line)); }); out.push(format!("w8 q0 find a7e1 k0 {}", r.is_some())); }
        #[cfg(not(all()))] { let key = e_8_0; let r = ecs_find_borrow!(world, key, |p0: &mut CompF, #[cfg(all(all(), not(any())))] p1: &EntityDirect<ArchB>, p2: &CompC, #[cfg(any())] p3: &mut CompC| { let mut line = String::new(); line.push_str(&format!("c{} ", p0.0)); #[cfg(all(all(), not(any())))] line.push_str(&format!("id{} ", p1.archetype_id())); line.push_str(&format!("c{} ", p2.0)); #[cfg(any())] line.push_str(&format!("c{} ", p3.0));  out.push(format!("w8 q0 call a8e0 {}", line)); }); out.push(format!("w8 q0 find a8e0 k0 {}", r.is_some())); }
        #[cfg(not(all()))] { let key = world.to_direct(e_10_0).unwrap(); let r = ecs_find_borrow!(world, key, |p0: &mut CompF, #[cfg(all(all(), not(any())))] p1: &EntityDirect<ArchB>, p2: &CompC, #[cfg(any())] p3: &mut CompC| { let mut line = String::new(); line.push_str(&format!("c{} ", p0.0)); #[cfg(all(all(), not(any())))] line.push_str(&format!("id{} ", p1.archetype_id())); line.push_str(&format!("c{} ", p2.0)); #[cfg(any())] line.push_str(&format!("c{} ", p3.0));  out.push(format!("w8 q0 call a10e0 {}", line)); }); out.push(format!("w8 q0 find a10e0 k2 {}", r.is_some())); }
        #[cfg(not(any()))] #[cfg(any(any(), not(all())))] { let key = world.to_direct(e_11_0.into_any()).unwrap(); let r = ecs_find_borrow!(world, key, |p0: &mut CompF, #[cfg(all(all(), not(any())))] p1: &EntityDirect<ArchB>, p2: &CompC, #[cfg(any())] p3: &mut CompC| { let mut line = String::new(); line.push_str(&format!("c{} ", p0.0)); #[cfg(all(all(), not(any())))] line.push_str(&format!("id{} ", p1.archetype_id())); line.push_str(&format!("c{} ", p2.0)); #[cfg(any())] line.push_str(&format!("c{} ", p3.0));  out.push(format!("w8 q0 call a11e0 {}", line)); }); out.push(format!("w8 q0 find a11e0 k3 {}", r.is_some())); }
        { let key = world.to_direct(e_1_0).unwrap(); let r = ecs_find_borrow!(world, key, |p0: &EntityAny, #[cfg(any())] p1: &EntityDirectAny, #[cfg(all(all(), not(any())))] p2: &Entity<_>| { let mut line = String::new(); line.push_str(&format!("id{} ", p0.archetype_id())); #[cfg(any())] line.push_str(&format!("id{} ", p1.archetype_id())); #[cfg(all(all(), not(any())))] line.push_str(&format!("id{} ", p2.archetype_id()));  out.push(format!("w8 q1 call a1e0 {}", line)); }); out.push(format!("w8 q1 find a1e0 k2 {}", r.is_some())); }
        { let key = world.to_direct(e_2_0.into_any()).unwrap(); let r = ecs_find_borrow!(world, key, |p0: &EntityAny, #[cfg(any())] p1: &EntityDirectAny, #[cfg(all(all(), not(any())))] p2: &Entity<_>| { let mut line = String::new(); line.push_str(&format!("id{} ", p0.archetype_id())); #[cfg(any())] line.push_str(&format!("id{} ", p1.archetype_id())); #[cfg(all(all(), not(any())))] line.push_str(&format!("id{} ", p2.archetype_id()));  out.push(format!("w8 q1 call a2e0 {}", line)); }); out.push(format!("w8 q1 find a2e0 k3 {}", r.is_some())); }
        { let key = e_2_1; let r = ecs_find_borrow!(world, key, |p0: &EntityAny, #[cfg(any())] p1: &EntityDirectAny, #[cfg(all(all(), not(any())))] p2: &Entity<_>| { let mut line = String::new(); line.push_str(&format!("id{} ", p0.archetype_id())); #[cfg(any())] line.push_str(&format!("id{} ", p1.archetype_id())); #[cfg(all(all(), not(any())))] line.push_str(&format!("id{} ", p2.archetype_id()));  out.push(format!("w8 q1 call a2e1 {}", line)); }); out.push(format!("w8 q1 find a2e1 k0 {}", r.is_some())); }
        #[cfg(any(any(), not(all())))] #[cfg(not(any()))] { let key = e_4_0.into_any(); let r = ecs_find_borrow!(world, key, |p0: &EntityAny, #[cfg(any())] p1: &EntityDirectAny, #[cfg(all(all(), not(any())))] p2: &Entity<_>| { let mut line = String::new(); line.push_str(&format!("id{} ", p0.archetype_id())); #[cfg(any())] line.push_str(&format!("id{} ", p1.archetype_id())); #[cfg(all(all(), not(any())))] line.push_str(&format!("id{} ", p2.archetype_id()));  out.push(format!("w8 q1 call a4e0 {}", line)); }); out.push(format!("w8 q1 find a4e0 k1 {}", r.is_some())); }
        #[cfg(any(any(), not(all())))] #[cfg(not(any()))] { let key = world.to_direct(e_4_1).unwrap(); let r = ecs_find_borrow!(world, key, |p0: &EntityAny, #[cfg(any())] p1: &EntityDirectAny, #[cfg(all(all(), not(any())))] p2: &Entity<_>| { let mut line = String::new(); line.push_str(&format!("id{} ", p0.archetype_id())); #[cfg(any())] line.push_str(&format!("id{} ", p1.archetype_id())); #[cfg(all(all(), not(any())))] line.push_str(&format!("id{} ", p2.archetype_id()));  out.push(format!("w8 q1 call a4e1 {}", line)); }); out.push(format!("w8 q1 find a4e1 k2 {}", r.is_some())); }
        #[cfg(all())] #[cfg(any())] { let key = world.to_direct(e_5_0).unwrap(); let r = ecs_find_borrow!(world, key, |p0: &EntityAny, #[cfg(any())] p1: &EntityDirectAny, #[cfg(all(all(), not(any())))] p2: &Entity<_>| { let mut line = String::new(); line.push_str(&format!("id{} ", p0.archetype_id())); #[cfg(any())] line.push_str(&format!("id{} ", p1.archetype_id())); #[cfg(all(all(), not(any())))] line.push_str(&format!("id{} ", p2.archetype_id()));  out.push(format!("w8 q1 call a5e0 {}", line)); }); out.push(format!("w8 q1 find a5e0 k2 {}", r.is_some())); }
        #[cfg(all())] { let key = world.to_direct(e_6_0.into_any()).unwrap(); let r = ecs_find_borrow!(world, key, |p0: &EntityAny, #[cfg(any())] p1: &EntityDirectAny, #[cfg(all(all(), not(any())))] p2: &Entity<_>| { let mut line = String::new(); line.push_str(&format!("id{} ", p0.archetype_id())); #[cfg(any())] line.push_str(&format!("id{} ", p1.archetype_id())); #[cfg(all(all(), not(any())))] line.push_str(&format!("id{} ", p2.archetype_id()));  out.push(format!("w8 q1 call a6e0 {}", line)); }); out.push(format!("w8 q1 find a6e0 k3 {}", r.is_some())); }
        #[cfg(all(all(), not(any())))] #[cfg(all(all(), not(any())))] { let key = e_7_0; let r = ecs_find_borrow!(world, key, |p0: &EntityAny, #[cfg(any())] p1: &EntityDirectAny, #[cfg(all(all(), not(any())))] p2: &Entity<_>| { let mut line = String::new(); line.push_str(&format!("id{} ", p0.archetype_id())); #[cfg(any())] line.push_str(&format!("id{} ", p1.archetype_id())); #[cfg(all(all(), not(any())))] line.push_str(&format!("id{} ", p2.archetype_id()));  out.push(format!("w8 q1 call a7e0 {}", line)); }); out.push(format!("w8 q1 find a7e0 k0 {}", r.is_some())); }
        #[cfg(all(all(), not(any())))] #[cfg(all(all(), not(any())))] { let key = e_7_1.into_any(); let r = ecs_find_borrow!(world, key, |p0: &EntityAny, #[cfg(any())] p1: &EntityDirectAny, #[cfg(all(all(), not(any())))] p2: &Entity<_>| { let mut line = String::new(); line.push_str(&format!("id{} ", p0.archetype_id())); #[cfg(any())] line.push_str(&format!("id{} ", p1.archetype_id())); #[cfg(all(all(), not(any())))] line.push_str(&format!("id{} ", p2.archetype_id()));  out.push(format!("w8 q1 call a7e1 {}", line)); }); out.push(format!("w8 q1 find a7e1 k1 {}", r.is_some())); }
        #[cfg(not(all()))] { let key = e_8_0.into_any(); let r = ecs_find_borrow!(world, key, |p0: &EntityAny, #[cfg(any())] p1: &EntityDirectAny, #[cfg(all(all(), not(any())))] p2: &Entity<_>| { let mut line = String::new(); line.push_str(&format!("id{} ", p0.archetype_id())); #[cfg(any())] line.push_str(&format!("id{} ", p1.archetype_id())); #[cfg(all(all(), not(any())))] line.push_str(&format!("id{} ", p2.archetype_id()));  out.push(format!("w8 q1 call a8e0 {}", line)); }); out.push(format!("w8 q1 find a8e0 k1 {}", r.is_some())); }
        #[cfg(not(all()))] { let key = world.to_direct(e_10_0.into_any()).unwrap(); let r = ecs_find_borrow!(world, key, |p0: &EntityAny, #[cfg(any())] p1: &EntityDirectAny, #[cfg(all(all(), not(any())))] p2: &Entity<_>| { let mut line = String::new(); line.push_str(&format!("id{} ", p0.archetype_id())); #[cfg(any())] line.push_str(&format!("id{} ", p1.archetype_id())); #[cfg(all(all(), not(any())))] line.push_str(&format!("id{} ", p2.archetype_id()));  out.push(format!("w8 q1 call a10e0 {}", line)); }); out.push(format!("w8 q1 find a10e0 k3 {}", r.is_some())); }
        #[cfg(not(any()))] #[cfg(any(any(), not(all())))] { let key = e_11_0; let r = ecs_find_borrow!(world, key, |p0: &EntityAny, #[cfg(any())] p1: &EntityDirectAny, #[cfg(all(all(), not(any())))] p2: &Entity<_>| { let mut line = String::new(); line.push_str(&format!("id{} ", p0.archetype_id())); #[cfg(any())] line.push_str(&format!("id{} ", p1.archetype_id())); #[cfg(all(all(), not(any())))] line.push_str(&format!("id{} ", p2.archetype_id()));  out.push(format!("w8 q1 call a11e0 {}", line)); }); out.push(format!("w8 q1 find a11e0 k0 {}", r.is_some())); }
        let _ = &mut world;
    }
}

pub mod w9 {
    use gecs::prelude::*;
    use super::comps::*;

    ecs_world! {
    ecs_name!(WorldAj);
        #[cfg(any())] #[cfg(all(all(), not(any())))] #[archetype_id(10)] ecs_archetype!(ArchA, CompE, #[component_id(13)] CompI, CompA, CompC, #[cfg(not(all()))] CompG, #[cfg(not(any()))] #[cfg(all())] CompD, CompF, #[component_id(28)] CompJ);
        ecs_archetype!(ArchB, CompH, #[cfg(any(any(), not(all())))] #[cfg(all())] #[component_id(203)] CompE);
        }

    pub fn run(out: &mut Vec<String>) {
        let mut world = WorldAj::new();
        #[cfg(any())] #[cfg(all(all(), not(any())))] out.push(format!("w9 id ArchA {}", <ArchA as Archetype>::ARCHETYPE_ID));
        #[cfg(all(any(), all(all(), not(any()))))] out.push(format!("w9 cid ArchA CompE {} {}", <ArchA as ArchetypeHas<CompE>>::COMPONENT_ID, ecs_component_id!(CompE, ArchA)));
        #[cfg(all(any(), all(all(), not(any()))))] out.push(format!("w9 cid ArchA CompI {} {}", <ArchA as ArchetypeHas<CompI>>::COMPONENT_ID, ecs_component_id!(CompI, ArchA)));
        #[cfg(all(any(), all(all(), not(any()))))] out.push(format!("w9 cid ArchA CompA {} {}", <ArchA as ArchetypeHas<CompA>>::COMPONENT_ID, ecs_component_id!(CompA, ArchA)));
        #[cfg(all(any(), all(all(), not(any()))))] out.push(format!("w9 cid ArchA CompC {} {}", <ArchA as ArchetypeHas<CompC>>::COMPONENT_ID, ecs_component_id!(CompC, ArchA)));
        #[cfg(all(any(), all(all(), not(any())), not(all())))] out.push(format!("w9 cid ArchA CompG {} {}", <ArchA as ArchetypeHas<CompG>>::COMPONENT_ID, ecs_component_id!(CompG, ArchA)));
        #[cfg(all(any(), all(all(), not(any())), not(any()), all()))] out.push(format!("w9 cid ArchA CompD {} {}", <ArchA as ArchetypeHas<CompD>>::COMPONENT_ID, ecs_component_id!(CompD, ArchA)));
        #[cfg(all(any(), all(all(), not(any()))))] out.push(format!("w9 cid ArchA CompF {} {}", <ArchA as ArchetypeHas<CompF>>::COMPONENT_ID, ecs_component_id!(CompF, ArchA)));
        #[cfg(all(any(), all(all(), not(any()))))] out.push(format!("w9 cid ArchA CompJ {} {}", <ArchA as ArchetypeHas<CompJ>>::COMPONENT_ID, ecs_component_id!(CompJ, ArchA)));
        #[cfg(any())] #[cfg(all(all(), not(any())))] out.push(format!("w9 len ArchA {}", world.archetype::<ArchA>().len()));
        out.push(format!("w9 id ArchB {}", <ArchB as Archetype>::ARCHETYPE_ID));
        out.push(format!("w9 cid ArchB CompH {} {}", <ArchB as ArchetypeHas<CompH>>::COMPONENT_ID, ecs_component_id!(CompH, ArchB)));
        #[cfg(all(any(any(), not(all())), all()))] out.push(format!("w9 cid ArchB CompE {} {}", <ArchB as ArchetypeHas<CompE>>::COMPONENT_ID, ecs_component_id!(CompE, ArchB)));
        out.push(format!("w9 len ArchB {}", world.archetype::<ArchB>().len()));
        for id in 0..=255u8 { if let Ok(sel) = SelectArchetype::try_from(id) { out.push(format!("w9 sel {} {}", id, sel.archetype_id())); } }
        ecs_iter!(world, || { let mut line = String::new();  out.push(format!("w9 q0 visit {}", line)); });
        let _ = &mut world;
    }
}

fn main() {
    let mut out: Vec<String> = Vec::new();
    w0::run(&mut out);
    w1::run(&mut out);
    w2::run(&mut out);
    w3::run(&mut out);
    w4::run(&mut out);
    w5::run(&mut out);
    w6::run(&mut out);
    w7::run(&mut out);
    w8::run(&mut out);
    w9::run(&mut out);
    for l in out { println!("{}", l.trim_end()); }
}
