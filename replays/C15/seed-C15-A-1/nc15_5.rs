#![forbid(unsafe_code)]
#![allow(warnings)]

pub mod comps {
    #[derive(Clone, Debug)] pub struct CompA(pub u64);
    #[derive(Clone, Debug)] pub struct CompB(pub u64);
    #[derive(Clone, Debug)] pub struct CompC(pub u64);
    #[derive(Clone, Debug)] pub struct CompD(pub u64);
    #[derive(Clone, Debug)] pub struct CompE(pub u64);
    #[derive(Clone, Debug)] pub struct CompF(pub u64);
    #[derive(Clone, Debug)] pub struct CompG(pub u64);
    #[derive(Clone, Debug)] pub struct CompH(pub u64);
    #[derive(Clone, Debug)] pub struct CompI(pub u64);
    #[derive(Clone, Debug)] pub struct CompJ(pub u64);
}
pub mod w0 {
    use gecs::prelude::*;
    use super::comps::*;

    ecs_world! {
    ecs_name!(WorldFa);
        #[archetype_id(4)] ecs_archetype!(ArchA, #[cfg(all())] #[cfg(all())] #[component_id(4)] CompF, #[cfg(all(all(), not(any())))] #[component_id(2)] CompC, CompG, CompH, #[cfg(all(all(), not(any())))] CompE, CompI);
        }

    pub fn run(out: &mut Vec<String>) {
        let mut world = WorldFa::new();
        let e_0_0 = world.create::<ArchA>((#[cfg(all())] #[cfg(all())] CompF(10105), #[cfg(all(all(), not(any())))] CompC(10102), CompG(10106), CompH(10107), #[cfg(all(all(), not(any())))] CompE(10104), CompI(10108),));
        let _ = &mut world;
    }
}

fn main() {
    let mut out: Vec<String> = Vec::new();
    w0::run(&mut out);
    for l in out { println!("{}", l.trim_end()); }
}
