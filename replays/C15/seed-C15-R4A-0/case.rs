#![forbid(unsafe_code)]
#![allow(warnings)]

pub mod comps {
    #[derive(Clone, Debug)] pub struct CompA(pub u64);
    #[derive(Clone, Debug)] pub struct CompB(pub u64);
    #[derive(Clone, Debug)] pub struct CompC(pub u64);
    #[derive(Clone, Debug)] pub struct CompD(pub u64);
    #[derive(Clone, Debug)] pub struct CompE(pub u64);
    #[derive(Clone, Debug)] pub struct CompF(pub u64);
    #[derive(Clone, Debug)] pub struct CompG(pub u64);
    #[derive(Clone, Debug)] pub struct CompH(pub u64);
    #[derive(Clone, Debug)] pub struct CompI(pub u64);
    #[derive(Clone, Debug)] pub struct CompJ(pub u64);
}
pub mod w0 {
    use gecs::prelude::*;
    use super::comps::*;

    ecs_world! {
    ecs_name!(WorldM);
        #[archetype_id(1)] ecs_archetype!(ArchA, CompD, CompJ, #[component_id(4)] CompF, #[cfg(vp_0)] #[component_id(253)] CompI, CompG);
        #[cfg(vp_0)] ecs_archetype!(ArchB, CompC, #[cfg(vp_1)] CompE, #[cfg(not(vp_0))] #[component_id(4)] CompB, #[cfg(vp_1)] #[cfg(vp_1)] #[component_id(253)] CompA, #[component_id(7)] CompD, #[cfg(any(any(), not(all())))] #[component_id(11)] CompF);
        }

    pub fn run(out: &mut Vec<String>) {
        let mut world = WorldM::new();
        let e_0_0 = world.create::<ArchA>((CompD(10103), CompJ(10109), CompF(10105), #[cfg(vp_0)] CompI(10108), CompG(10106),));
        let e_0_1 = world.create::<ArchA>((CompD(10203), CompJ(10209), CompF(10205), #[cfg(vp_0)] CompI(10208), CompG(10206),));
        #[cfg(vp_0)] let e_1_0 = world.create::<ArchB>((CompC(20102), #[cfg(vp_1)] CompE(20104), #[cfg(not(vp_0))] CompB(20101), #[cfg(vp_1)] #[cfg(vp_1)] CompA(20100), CompD(20103), #[cfg(any(any(), not(all())))] CompF(20105),));
        #[cfg(vp_0)] let e_1_1 = world.create::<ArchB>((CompC(20202), #[cfg(vp_1)] CompE(20204), #[cfg(not(vp_0))] CompB(20201), #[cfg(vp_1)] #[cfg(vp_1)] CompA(20200), CompD(20203), #[cfg(any(any(), not(all())))] CompF(20205),));
        out.push(format!("w0 id ArchA {}", <ArchA as Archetype>::ARCHETYPE_ID));
        out.push(format!("w0 cid ArchA CompD {} {}", <ArchA as ArchetypeHas<CompD>>::COMPONENT_ID, ecs_component_id!(CompD, ArchA)));
        { let mut seen = false; ecs_iter!(world, |_c: &CompD, _e: &Entity<ArchA>| { if !seen { seen = true; out.push(format!("w0 qcid ArchA CompD {}", ecs_component_id!(CompD))); } }); }
        out.push(format!("w0 cid ArchA CompJ {} {}", <ArchA as ArchetypeHas<CompJ>>::COMPONENT_ID, ecs_component_id!(CompJ, ArchA)));
        { let mut seen = false; ecs_iter!(world, |_c: &CompJ, _e: &Entity<ArchA>| { if !seen { seen = true; out.push(format!("w0 qcid ArchA CompJ {}", ecs_component_id!(CompJ))); } }); }
        out.push(format!("w0 cid ArchA CompF {} {}", <ArchA as ArchetypeHas<CompF>>::COMPONENT_ID, ecs_component_id!(CompF, ArchA)));
        { let mut seen = false; ecs_iter!(world, |_c: &CompF, _e: &Entity<ArchA>| { if !seen { seen = true; out.push(format!("w0 qcid ArchA CompF {}", ecs_component_id!(CompF))); } }); }
        #[cfg(all(vp_0))] out.push(format!("w0 cid ArchA CompI {} {}", <ArchA as ArchetypeHas<CompI>>::COMPONENT_ID, ecs_component_id!(CompI, ArchA)));
        #[cfg(all(vp_0))] { let mut seen = false; ecs_iter!(world, |_c: &CompI, _e: &Entity<ArchA>| { if !seen { seen = true; out.push(format!("w0 qcid ArchA CompI {}", ecs_component_id!(CompI))); } }); }
        out.push(format!("w0 cid ArchA CompG {} {}", <ArchA as ArchetypeHas<CompG>>::COMPONENT_ID, ecs_component_id!(CompG, ArchA)));
        { let mut seen = false; ecs_iter!(world, |_c: &CompG, _e: &Entity<ArchA>| { if !seen { seen = true; out.push(format!("w0 qcid ArchA CompG {}", ecs_component_id!(CompG))); } }); }
        out.push(format!("w0 hid ArchA {} {}", e_0_0.archetype_id(), e_0_0.into_any().archetype_id()));
        out.push(format!("w0 hid ArchA {} {}", e_0_1.archetype_id(), e_0_1.into_any().archetype_id()));
        out.push(format!("w0 len ArchA {}", world.archetype::<ArchA>().len()));
        #[cfg(vp_0)] out.push(format!("w0 id ArchB {}", <ArchB as Archetype>::ARCHETYPE_ID));
        #[cfg(all(vp_0))] out.push(format!("w0 cid ArchB CompC {} {}", <ArchB as ArchetypeHas<CompC>>::COMPONENT_ID, ecs_component_id!(CompC, ArchB)));
        #[cfg(all(vp_0))] { let mut seen = false; ecs_iter!(world, |_c: &CompC, _e: &Entity<ArchB>| { if !seen { seen = true; out.push(format!("w0 qcid ArchB CompC {}", ecs_component_id!(CompC))); } }); }
        #[cfg(all(vp_0, vp_1))] out.push(format!("w0 cid ArchB CompE {} {}", <ArchB as ArchetypeHas<CompE>>::COMPONENT_ID, ecs_component_id!(CompE, ArchB)));
        #[cfg(all(vp_0, vp_1))] { let mut seen = false; ecs_iter!(world, |_c: &CompE, _e: &Entity<ArchB>| { if !seen { seen = true; out.push(format!("w0 qcid ArchB CompE {}", ecs_component_id!(CompE))); } }); }
        #[cfg(all(vp_0, not(vp_0)))] out.push(format!("w0 cid ArchB CompB {} {}", <ArchB as ArchetypeHas<CompB>>::COMPONENT_ID, ecs_component_id!(CompB, ArchB)));
        #[cfg(all(vp_0, not(vp_0)))] { let mut seen = false; ecs_iter!(world, |_c: &CompB, _e: &Entity<ArchB>| { if !seen { seen = true; out.push(format!("w0 qcid ArchB CompB {}", ecs_component_id!(CompB))); } }); }
        #[cfg(all(vp_0, vp_1, vp_1))] out.push(format!("w0 cid ArchB CompA {} {}", <ArchB as ArchetypeHas<CompA>>::COMPONENT_ID, ecs_component_id!(CompA, ArchB)));
        #[cfg(all(vp_0, vp_1, vp_1))] { let mut seen = false; ecs_iter!(world, |_c: &CompA, _e: &Entity<ArchB>| { if !seen { seen = true; out.push(format!("w0 qcid ArchB CompA {}", ecs_component_id!(CompA))); } }); }
        #[cfg(all(vp_0))] out.push(format!("w0 cid ArchB CompD {} {}", <ArchB as ArchetypeHas<CompD>>::COMPONENT_ID, ecs_component_id!(CompD, ArchB)));
        #[cfg(all(vp_0))] { let mut seen = false; ecs_iter!(world, |_c: &CompD, _e: &Entity<ArchB>| { if !seen { seen = true; out.push(format!("w0 qcid ArchB CompD {}", ecs_component_id!(CompD))); } }); }
        #[cfg(all(vp_0, any(any(), not(all()))))] out.push(format!("w0 cid ArchB CompF {} {}", <ArchB as ArchetypeHas<CompF>>::COMPONENT_ID, ecs_component_id!(CompF, ArchB)));
        #[cfg(all(vp_0, any(any(), not(all()))))] { let mut seen = false; ecs_iter!(world, |_c: &CompF, _e: &Entity<ArchB>| { if !seen { seen = true; out.push(format!("w0 qcid ArchB CompF {}", ecs_component_id!(CompF))); } }); }
        #[cfg(vp_0)] out.push(format!("w0 hid ArchB {} {}", e_1_0.archetype_id(), e_1_0.into_any().archetype_id()));
        #[cfg(vp_0)] out.push(format!("w0 hid ArchB {} {}", e_1_1.archetype_id(), e_1_1.into_any().archetype_id()));
        #[cfg(vp_0)] out.push(format!("w0 len ArchB {}", world.archetype::<ArchB>().len()));
        for id in 0..=255u8 { if let Ok(sel) = SelectArchetype::try_from(id) { out.push(format!("w0 sel {} {}", id, sel.archetype_id())); } }
        { let key = e_0_0; let r = ecs_find!(world, key, || { let mut line = String::new();  out.push(format!("w0 q0 call a0e0 {}", line)); }); out.push(format!("w0 q0 find a0e0 k0 {}", r.is_some())); }
        { let key = e_0_1.into_any(); let r = ecs_find!(world, key, || { let mut line = String::new();  out.push(format!("w0 q0 call a0e1 {}", line)); }); out.push(format!("w0 q0 find a0e1 k1 {}", r.is_some())); }
        #[cfg(vp_0)] { let key = e_1_0.into_any(); let r = ecs_find!(world, key, || { let mut line = String::new();  out.push(format!("w0 q0 call a1e0 {}", line)); }); out.push(format!("w0 q0 find a1e0 k1 {}", r.is_some())); }
        #[cfg(vp_0)] { let key = world.to_direct(e_1_1).unwrap(); let r = ecs_find!(world, key, || { let mut line = String::new();  out.push(format!("w0 q0 call a1e1 {}", line)); }); out.push(format!("w0 q0 find a1e1 k2 {}", r.is_some())); }
        let _ = &mut world;
    }
}

fn main() {
    let mut out: Vec<String> = Vec::new();
    w0::run(&mut out);
    for l in out { println!("{}", l.trim_end()); }
}
